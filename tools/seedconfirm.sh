#!/bin/bash
# usage: tools/seedconfirm.sh <dir-with-patch.diff>
# Confirms in a scratch worktree (/tmp/confwt, never /repo) that a seeded change
# applies, builds, and passes the tests of every package that (transitively)
# imports a touched package, with the pinned suite's known environment failures
# (PlantUML server, git clone) filtered against the stable_pass list.
# Leaves /tmp/conf/sysl_patched for running the demonstration.
export GOFLAGS=-mod=mod GOPROXY=off GOSUMDB=off GOTOOLCHAIN=local; unset GOWORK
d=$(readlink -f "$1")
cd /tmp/confwt || exit 2
git checkout -q -- . ; git clean -fdq
git apply "$d/patch.diff" || { echo "CONFIRM: patch does not apply"; exit 1; }
if git diff --name-only | grep -E '_test\.go$|testdata|\.golden|tests/' ; then echo "CONFIRM: touches tests"; fi
go build ./... || { echo "CONFIRM: build failed"; git checkout -q -- .; exit 1; }
go build -o /tmp/conf/sysl_patched ./cmd/sysl; mkdir -p /tmp/conf/bin; cp /tmp/conf/sysl_patched /tmp/conf/bin/$(basename "$d")
touched=$(git diff --name-only | grep '\.go$' | xargs -n1 dirname | sort -u | sed 's#^#github.com/anz-bank/sysl/#')
all=$(go list ./... 2>/dev/null)
pk=""
for p in $all; do
  deps=$(go list -deps -test "$p" 2>/dev/null)
  for t in $touched; do
    if echo "$deps" | grep -qx "$t"; then pk="$pk $p"; break; fi
  done
done
echo "CONFIRM: testing$(echo $pk | wc -w) packages"
go test -json -vet=off -count=1 -timeout 25m $pk > /tmp/conf/test.json 2>/dev/null
python3 - <<'PY'
import json
passed=set(); failed=set()
for l in open('/tmp/conf/test.json'):
    try: e=json.loads(l)
    except Exception: continue
    if e.get('Test') and e.get('Action') in('pass','fail'):
        (passed if e['Action']=='pass' else failed).add(e['Package']+'::'+e['Test'])
sp=set(json.load(open('/root/.vp/BASELINE.json'))['stable_pass'])
bad=sorted(t for t in failed if t in sp)
print('CONFIRM: tests passed',len(passed),'failed',len(failed),'failed-that-are-in-stable_pass',len(bad))
for b in bad[:20]: print('   BROKEN',b)
PY
git checkout -q -- . ; git clean -fdq
