#!/usr/bin/env python3
"""usage: VERIF_GUARD_WHERE=1 ./bin/syslcheck -props all -dry 2>&1 | grep -E '^GUARD(WHERE|FUNC)' > /tmp/gw.txt ; tools/guardwhere.py /tmp/gw.txt
Writes into each row of tables/guards.json where the cycle it names lives on the
current tree (package|in:files#members), so that a cycle renamed as a whole still
finds its row."""
import json, sys
w = {}
fp = {}
for l in open(sys.argv[1]):
    parts = l.rstrip("\n").split("\t")
    if parts[0] == "GUARDFUNC" and len(parts) == 3:
        fp[parts[1]] = parts[2]
        continue
    if len(parts) == 4:
        w[parts[1]] = (parts[2], parts[3])
rows = json.load(open("/verif/tables/guards.json"))
n = 0
for r in rows:
    if r["scc"] in w and (r.get("where"), r.get("seed")) != w[r["scc"]]:
        r["where"], r["seed"] = w[r["scc"]]
        n += 1
    if r["scc"] in fp and r.get("func_fp") != fp[r["scc"]]:
        r["func_fp"] = fp[r["scc"]]
        n += 1
json.dump(rows, open("/verif/tables/guards.json", "w"), indent=1)
open("/verif/tables/guards.json", "a").write("\n")
print("guard rows updated:", n)
