#!/bin/bash
# usage: tools/seedtest.sh <dir-with-patch.diff> <property> [more properties…]
# Applies a seeded change to /repo's working tree, runs the named checks (quick),
# prints which obligations fire, and restores the tree. Never commits.
d=$1; shift
cd /repo || exit 2
if [ -n "$(git status --porcelain)" ]; then echo "/repo not clean"; exit 2; fi
git apply "$d/patch.diff" || { echo "patch does not apply"; exit 2; }
trap 'git -C /repo checkout -- . ; git -C /repo clean -fdq' EXIT
for p in "$@"; do
  out=$(VERIF_DIR=/verif /verif/bin/syslcheck -props "$p" -dry 2>&1); rc=$?
  echo "== $p exit=$rc"
  echo "$out" | grep -E "^  (violation|undecided) " | cut -c1-300
done
