#!/bin/bash
# usage: tools/seedtest.sh <dir-with-patch.diff> <property> [more properties…]
# Applies a seeded change to a scratch worktree of /repo's HEAD (/tmp/seedtestwt,
# so /repo itself is never modified and other checks can run meanwhile), runs the
# named checks (quick, dry: no evidence written) against it through SYSL_REPO and
# prints which obligations fire. `git -C /repo apply` + `./run.sh` + `git -C /repo
# checkout -- .` gives the same verdicts.
d=$(readlink -f "$1"); shift
wt=${SEEDWT:-/tmp/seedtestwt}
if [ ! -d $wt ]; then git -C /repo worktree add --detach $wt HEAD -q || exit 2; fi
git -C $wt checkout -q --detach "$(git -C /repo rev-parse HEAD)" && git -C $wt checkout -q -- . && git -C $wt clean -fdq
git -C $wt apply "$d/patch.diff" || { echo "patch does not apply"; exit 2; }
for p in "$@"; do
  out=$(SYSL_REPO=$wt VERIF_DIR=/verif /verif/bin/syslcheck -props "$p" -dry 2>&1); rc=$?
  echo "== $p exit=$rc"
  echo "$out" | grep -E "^  (violation|undecided) " | cut -c1-300
done
git -C $wt checkout -q -- . ; git -C $wt clean -fdq
