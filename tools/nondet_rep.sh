#!/bin/bash
# usage: nondet_rep.sh <repro-dir> <sysl-binary> [runs]
# Triage aid (never part of a check): runs the command in <repro-dir>/cmd.txt
# <runs> times with the given binary and prints the number of distinct outputs.
d=$(readlink -f "$1"); bin=$2; n=${3:-30}
cmd=$(grep -v '^#' "$d/cmd.txt" | head -1 | sed "s#/tmp/triage_out/T2/sysl#$bin#g; s#/tmp/triage_out/T2/repro/[a-z0-9-]*#$d#g; s#/verif/triage/nondet_triage/[a-z0-9-]*#$d#g; s#^cd [^ ]* && ##")
prod=$(grep -o 'product is file: .*' "$d/cmd.txt" | sed 's/product is file: //' | head -1)
cd "$d" || exit 2
for i in $(seq $n); do
  if [ -n "$prod" ]; then eval "$cmd" >/dev/null 2>&1; md5sum < "$prod" 2>/dev/null
  else eval "$cmd" 2>&1 | sed 's/time="[^"]*"//' | md5sum; fi
done | sort | uniq -c | awk '{print $1}' | tr '\n' ' '
echo "<- run counts per distinct output ($(basename $d))"
