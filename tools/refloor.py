#!/usr/bin/env python3
"""Recomputes tables/floors.json from the evidence of the last run of every
check: floor = 50 % of the instance count per rule (at least 1). Run by hand
after the instance counts were confirmed by reading; never run by a check.
The margin lets benign edits (a fixed site disappears, a helper is inlined)
pass while a rule that goes blind (anchor renamed, engine broken) still fails."""
import json, glob, os
HERE = os.path.dirname(os.path.dirname(os.path.abspath(__file__)))
SCAN_RULES = {"MODEL-READ-ONLY", "PATH-CUTSET", "SCOPE-WRITERS", "SKIPPED-EFFECT", "GOROUTINE-LOOPVAR", "MEMO-ON-FAILURE",
              "MEMO-KEY", "LOST-UPDATE", "COUNTER-PAIR", "BLOCK-KINDS", "DEAD-ERROR", "RAW-FS-USE", "WALK-EVERY-FILE"}
SCAN_RULES_PER_PROP = {("SHARED-GLOBAL", "C09")} | {("ERR-FLOW", "C%02d" % i) for i in range(11, 18)}
floors = json.load(open(os.path.join(HERE, "tables/floors.json")))
out = {}
for f in sorted(glob.glob(os.path.join(HERE, "evidence/C*.json"))):
    ev = json.load(open(f))
    pid = ev["property_id"]
    per = ev["coverage"]["per_rule"]
    out[pid] = {}
    for rule, m in sorted(per.items()):
        if rule in ("FLOOR", "ANCHOR", "VARIANT"):
            continue
        n = sum(m.values())
        fl = max(1, min(n - 1, int(n * 0.5))) if n > 1 else 1
        # rules that make an inventory and record a "scan" obligation saying what was
        # scanned cannot go blind silently, and their counts fall for good reasons
        # (the last writer of a package variable removed, a dead helper deleted)
        if rule in SCAN_RULES or (rule, pid) in SCAN_RULES_PER_PROP:
            fl = 1
        out[pid][rule] = fl
        old = floors.get(pid, {}).get(rule)
        if old != fl:
            print(pid, rule, "count", n, "floor", old, "->", fl)
json.dump(out, open(os.path.join(HERE, "tables/floors.json"), "w"), indent=1)
open(os.path.join(HERE, "tables/floors.json"), "a").write("\n")
