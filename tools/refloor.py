#!/usr/bin/env python3
"""Recomputes tables/floors.json from the evidence of the last run of every
check: floor = 50 % of the instance count per rule (at least 1). Run by hand
after the instance counts were confirmed by reading; never run by a check.
The margin lets benign edits (a fixed site disappears, a helper is inlined)
pass while a rule that goes blind (anchor renamed, engine broken) still fails."""
import json, glob, os
HERE = os.path.dirname(os.path.dirname(os.path.abspath(__file__)))
floors = json.load(open(os.path.join(HERE, "tables/floors.json")))
out = {}
for f in sorted(glob.glob(os.path.join(HERE, "evidence/C*.json"))):
    ev = json.load(open(f))
    pid = ev["property_id"]
    per = ev["coverage"]["per_rule"]
    out[pid] = {}
    for rule, m in sorted(per.items()):
        if rule in ("FLOOR", "ANCHOR", "VARIANT"):
            continue
        n = sum(m.values())
        fl = max(1, min(n - 1, int(n * 0.5))) if n > 1 else 1
        out[pid][rule] = fl
        old = floors.get(pid, {}).get(rule)
        if old != fl:
            print(pid, rule, "count", n, "floor", old, "->", fl)
json.dump(out, open(os.path.join(HERE, "tables/floors.json"), "w"), indent=1)
open(os.path.join(HERE, "tables/floors.json"), "a").write("\n")
