#!/bin/bash
# usage: tools/benigntest.sh <dir-with-patch.diff>…
# False-alarm probe: applies a behaviour-preserving change to a scratch worktree of
# /repo's HEAD and runs all 20 checks (quick, dry) against it. Every check must
# still exit 0; anything else is a false alarm of the machinery.
wt=${BENIGNWT:-/tmp/seedtestwt}
[ -d $wt ] || git -C /repo worktree add --detach $wt HEAD -q
for d in "$@"; do
  d=$(readlink -f "$d")
  git -C $wt checkout -q --detach "$(git -C /repo rev-parse HEAD)" && git -C $wt checkout -q -- . && git -C $wt clean -fdq
  if ! git -C $wt apply "$d/patch.diff" 2>/dev/null; then echo "$(basename $d): patch does not apply"; continue; fi
  out=$(SYSL_REPO=$wt VERIF_DIR=/verif /verif/bin/syslcheck -props all -dry 2>&1); rc=$?
  if [ $rc -eq 0 ]; then echo "$(basename $d): all checks pass"; else
    echo "$(basename $d): FALSE ALARM(S)"
    echo "$out" | grep -E "^  (violation|undecided) |^VIOLATION" | cut -c1-260 | head -12
  fi
  git -C $wt checkout -q -- . ; git -C $wt clean -fdq
done
