#!/bin/bash
# False-alarm probe over every stored behaviour-preserving refactor (benign/*/patch.diff).
# Exit 0 when no check raises an alarm on any of them.
cd /verif
fail=0
for d in benign/B?_*; do
  out=$(./tools/benigntest.sh $d); echo "$out"
  echo "$out" | grep -q "all checks pass" || fail=1
done
exit $fail
