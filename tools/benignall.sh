#!/bin/bash
# False-alarm probe over every stored behaviour-preserving refactor (benign/*/patch.diff).
# Exit 0 when no check raises an alarm on any of them. Runs three shards side by
# side, each in its own scratch worktree of /repo's HEAD.
cd /verif
ls -d benign/B?_* | sort > /tmp/benignall.list
n=3
for s in $(seq 0 $((n-1))); do
  ( awk -v n=$n -v s=$s 'NR % n == s' /tmp/benignall.list | while read d; do BENIGNWT=/tmp/benignwt$s ./tools/benigntest.sh $d; done > /tmp/benignall.$s.out 2>&1 ) &
done
wait
cat /tmp/benignall.?.out | sort
fail=0
total=$(wc -l < /tmp/benignall.list)
pass=$(cat /tmp/benignall.?.out | grep -c "all checks pass")
echo "benign changes: $total, all checks pass on: $pass"
[ "$pass" = "$total" ] || fail=1
for s in $(seq 0 $((n-1))); do git -C /repo worktree remove --force /tmp/benignwt$s 2>/dev/null; done
exit $fail
