#!/bin/bash
# Runs the pinned test suite (BASELINE.json cmd) on /repo's working tree and
# compares against the stable_pass list. Not part of any check: used to confirm
# that "fix:" commits keep the unedited suite green.
out=${1:-/tmp/baseline_run.json}
export GOPROXY=off GOSUMDB=off GOTOOLCHAIN=local
: > "$out"
for m in $(cat /w/out/gomods.txt); do MF=$(cd /repo/$m && . /w/out/goenv.sh && gomodflag); (cd /repo/$m && go test $MF -json -vet=off -count=1 -timeout 25m ./...) >> "$out" 2>/dev/null; done
python3 - "$out" <<'PY'
import json, sys
passed=set(); failed=set()
for l in open(sys.argv[1]):
    try: e=json.loads(l)
    except Exception: continue
    if e.get('Test') and e.get('Action') in('pass','fail'):
        (passed if e['Action']=='pass' else failed).add(e['Package']+'::'+e['Test'])
b=json.load(open('/root/.vp/BASELINE.json'))
sp=set(b['stable_pass'])
missing=sorted(sp-passed)
print('passed',len(passed),'failed',len(failed),'stable_pass',len(sp),'missing_from_pass',len(missing))
for m in missing[:40]: print('  MISSING',m, '(failed)' if m in failed else '(not run)')
sys.exit(1 if missing else 0)
PY
