#!/usr/bin/env python3
"""Writes seeded/MATRIX.md from seeded/*/meta.json (one row per seeded change)."""
import json, glob, os, collections
HERE = os.path.dirname(os.path.dirname(os.path.abspath(__file__)))
rows = []
for f in sorted(glob.glob(os.path.join(HERE, "seeded/*/meta.json"))):
    m = json.load(open(f))
    rows.append(m)
c = collections.Counter(m["check_result"]["status"] for m in rows)
with open(os.path.join(HERE, "seeded/MATRIX.md"), "w") as o:
    o.write("# Seeded changes: which check reports which change\n\n")
    o.write("%d changes: %s.\n\n" % (len(rows), ", ".join("%d %s" % (n, s) for s, n in sorted(c.items()))))
    o.write("| id | property | change (author's summary) | result | reporting obligation / why not |\n|---|---|---|---|---|\n")
    for m in rows:
        o.write("| %s | %s | %s | %s | %s |\n" % (m["seed_id"], m.get("property", ""), m.get("summary", "").replace("|", "/")[:220],
                                                  m["check_result"]["status"], m["check_result"]["detail"].replace("|", "∣")[:420]))
print(len(rows), dict(c))
