#!/usr/bin/env python3
"""usage: seedstore.py <src-dir> <seed-id> <status> <detected-by-or-why-missed> [confirm-note]
Copies a confirmed seeded change into /verif/seeded/<seed-id>/ (patch.diff,
demonstration.md and its input files, meta.json) and records in meta.json what
was confirmed by hand and which check obligation reports it."""
import json, os, shutil, sys
src, sid, status, detail = sys.argv[1:5]
note = sys.argv[5] if len(sys.argv) > 5 else ""
dst = os.path.join("/verif/seeded", sid)
os.makedirs(dst, exist_ok=True)
for f in os.listdir(src):
    p = os.path.join(src, f)
    if os.path.isfile(p) and os.path.getsize(p) < 200_000 and not f.startswith("sysl"):
        shutil.copy(p, os.path.join(dst, f))
mp = os.path.join(dst, "meta.json")
try:
    meta = json.load(open(mp))
except Exception:
    meta = {}
meta["seed_id"] = sid
meta["origin"] = "written by a fresh sub-agent that saw only the property text and its own scratch worktree"
meta["confirmed"] = note or "patch applies to the pinned tree with the fix commits; go build ./... passes; tests of every package importing a touched package pass (no stable_pass test fails); demonstration re-run by hand on clean and patched binaries"
meta["check_result"] = {"status": status, "detail": detail}
if os.environ.get("SEED_ROUND"):
    meta["round"] = int(os.environ["SEED_ROUND"])
json.dump(meta, open(mp, "w"), indent=1)
open(mp, "a").write("\n")
print("stored", dst, status)
