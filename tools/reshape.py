#!/usr/bin/env python3
"""usage: VERIF_SHAPES=/tmp/shapes.json ./bin/syslcheck -props all -dry ; tools/reshape.py /tmp/shapes.json
Writes the name-independent shape of the construct each table row matched (by key)
on the current tree into the row's "shape" field (tables/exceptions.json,
known_findings.json, baseline.json). Rows that matched nothing keep what they had."""
import json, sys
shapes = json.load(open(sys.argv[1]))
n = 0
for table in ("exceptions", "known_findings", "baseline"):
    path = "/verif/tables/%s.json" % table
    rows = json.load(open(path))
    for r in rows:
        k = "%s\x00%s\x00%s" % (table, r["property"], r["key"])
        if k in shapes:
            sh, _, loc = shapes[k].partition("\x00")
            if r.get("shape") != sh or r.get("shape_local", "") != loc:
                r["shape"] = sh
                if loc:
                    r["shape_local"] = loc
                else:
                    r.pop("shape_local", None)
                n += 1
    with open(path, "w") as f:
        json.dump(rows, f, indent=1)
        f.write("\n")
print("rows updated:", n)
