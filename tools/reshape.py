#!/usr/bin/env python3
"""usage: VERIF_SHAPES=/tmp/shapes.json ./bin/syslcheck -props all -dry ; tools/reshape.py /tmp/shapes.json
Writes the name-independent shape of the construct each table row matched (by key)
on the current tree into the row's "shape" field (tables/exceptions.json,
known_findings.json, baseline.json). Rows that matched nothing keep what they had."""
import json, sys
shapes = json.load(open(sys.argv[1]))
n = 0
for table in ("exceptions", "known_findings", "baseline"):
    path = "/verif/tables/%s.json" % table
    rows = json.load(open(path))
    for r in rows:
        k = "%s\x00%s\x00%s" % (table, r["property"], r["key"])
        if k in shapes:
            parts = (shapes[k].split("\x00") + ["", ""])[:3]
            sh, loc, pk = parts
            if r.get("shape") != sh or r.get("shape_local", "") != loc or r.get("shape_pkg", "") != pk:
                r["shape"] = sh
                for name, val in (("shape_local", loc), ("shape_pkg", pk)):
                    if val:
                        r[name] = val
                    else:
                        r.pop(name, None)
                n += 1
    with open(path, "w") as f:
        json.dump(rows, f, indent=1)
        f.write("\n")
print("rows updated:", n)
