package main

import (
	"fmt"
	"go/token"
	"go/types"
	"strings"

	"golang.org/x/tools/go/ssa"
)

func init() { register("C01", LoadWhole, checkC01) }

func parseEntries(p *Program) []*ssa.Function {
	var out []*ssa.Function
	for _, n := range []string{"Parser.Parse", "Parser.ParseFromFs", "Parser.ParseString", "Parser.ParseFromFsWithVendor"} {
		if f := p.lookupFunc(parsePkg, n); f != nil {
			out = append(out, f)
		}
	}
	return out
}

func checkC01(c *Check) {
	p := c.P
	c.Explanation = "C01 (structural clauses): the ANTLR parse (every call of (*SyslParser).Sysl_file in pkg/parse) runs under a recover barrier that converts a panic into a returned error; the parse tree is returned only on the no-syntax-error outcome of the registered error listener, whose SyntaxError callback sets that flag on every path; every explicit panic / must-helper / process-exit site in repository code reachable from (*Parser).Parse|ParseString|ParseFromFs in the whole-program VTA call graph is protected by a recover barrier on every call path in its own goroutine (sites in the default arm of a type switch that enumerates every implementer of a oneof interface are discharged mechanically); recursion on the compile path is structural or guarded (R-REC); a non-nil error from main3 is mapped to a non-zero exit status and every Exit code constructed in pkg/parse is a non-zero constant. Static reachability and dominance only; termination of the ANTLR interpreter and implicit runtime panics (index, nil map) in listener callbacks are not decided."
	c.Assumptions = append(c.Assumptions,
		"VTA call graph over-approximates dynamic dispatch (x/tools v0.29.0); reflection-based calls are not followed",
		"a oneof field switched over is non-nil in models built by the listener",
		"baseline rows are sites flagged on the pinned tree that were neither reproduced nor proven unreachable (reported as unconfirmed, see tables/baseline.json)")
	entries := parseEntries(p)
	if len(entries) < 3 {
		c.Undecidedf("ANCHOR", "parse entries", "-", "parse.Parser entry points not found")
		return
	}
	c01GuardStructure(c)
	res := runGuard(p, entries)
	reportGuard(c, "UNGUARDED-SITE", res)
	c01ExitStatus(c)
	runRec(c, "RECURSION", entries, nil)
	// implicit panics of the look-up / index kinds (R-DEREF) in functions of the
	// compile path that no recover barrier protects — the loader-facing wrappers
	// around Parse included
	derefEntries := append([]*ssa.Function{}, entries...)
	for _, f := range p.RepoFuncs() {
		if fnPkgPath(f) == p.Pkg(parsePkg).PkgPath && f.Parent() == nil && f.Object() != nil && f.Object().Exported() && f.Signature.Recv() == nil {
			for _, e := range entries {
				if repoReach(p, f)[e] {
					derefEntries = append(derefEntries, f)
					break
				}
			}
		}
	}
	resD := runGuard(p, derefEntries)
	runDeref(c, "UNCHECKED-LOOKUP", derefEntries, resD, nil)
	// termination of the import flatten (its membership scan is the guard of
	// the flattenSpecs recursion) is decided by the C05 rule, evaluated here too
	if ic := findImportClosure(c); ic != nil && ic.canon != nil {
		c05Flatten(c, ic)
		// an unsynchronised access to the file table shared by the import fetchers
		// ends in "fatal error: concurrent map read and map write", which no
		// recover barrier stops: the lock rules of C05 are evaluated here too
		if ic.collector != nil {
			collectorSharing(c, ic)
		}
	}
	// the same for whatever else the goroutines of the compile path share: a
	// captured variable or map written by two of them without a lock
	{
		var pf []*ssa.Function
		for _, f := range p.RepoFuncs() {
			if fnPkgPath(f) == repoMod+"/pkg/parse" && f.Parent() == nil && !strings.HasSuffix(p.fnFile(f), "_test.go") {
				pf = append(pf, f)
			}
		}
		c07Captures(c, pf)
	}
	// termination: a mutex taken on the compile path is released on every exit
	n := blockingResources(c, "LOCK-PAIR", "HELD-ACROSS-NESTING", reachSet(p, entries))
	c.Counts["lock_sites_on_compile_path"] = n
	if n == 0 {
		c.Undecidedf("LOCK-PAIR", "compile path", "-", "no mutex acquisition found on the compile path (the import collector locks the shared file table): unresolved anchor")
	}
}

// c01GuardStructure: recover barrier around the ANTLR parse, hasErrors test
// before the tree is returned, listener flag set.
func c01GuardStructure(c *Check) {
	p := c.P
	pk := p.Pkg(parsePkg)
	n := 0
	for _, f := range p.RepoFuncs() {
		if fnPkgPath(f) != pk.PkgPath {
			continue
		}
		eachCall(f, func(cl ssa.CallInstruction) {
			o := calleeObj(cl)
			if o == nil || o.Name() != "Sysl_file" || o.Pkg() == nil || o.Pkg().Path() != repoMod+"/pkg/grammar" {
				return
			}
			n++
			call, _ := cl.(*ssa.Call)
			key := fnName(f)
			// (a) barrier
			prot := false
			for _, d := range recoverBarriers(f) {
				if instrDominates(d, cl) {
					prot = true
				}
			}
			c.Cond(prot, "PARSE-BARRIER", key+"|Sysl_file under recover", p.pos(cl.Pos()),
				"the ANTLR parse runs after a defer whose function calls recover() and neither re-panics nor exits",
				"the ANTLR parse is not protected by a recover barrier: a parser/lexer panic on malformed input kills the process")
			// (a') the recover path produces a non-nil error: recoverBarriers only
			// returns deferred recovers that assign the guarded function's named error
			// result (from the closure, or from a named function deferred directly
			// that is handed its address); one that does not is recorded as silent
			setsErr := prot
			eachInstr(f, func(_ *ssa.BasicBlock, i ssa.Instruction) {
				if d, ok := i.(*ssa.Defer); ok {
					if _, silent := silentGuards[d]; silent {
						setsErr = false
					}
				}
			})
			c.Cond(setsErr, "PARSE-BARRIER", key+"|recovered panic becomes an error", p.pos(f.Pos()),
				"the recovering closure assigns a non-nil value to the function's named error result",
				"the recovering closure does not set the error result: a recovered parser panic would be reported as success")
			if call == nil {
				return
			}
			// (b) returns of the tree are dominated by !hasErrors
			flagAddr, lst := errorListenerFlag(p, f)
			if flagAddr == nil {
				c.Flagf("SYNTAX-ERROR-GATE", key+"|listener registered", p.pos(cl.Pos()), "no repository error listener with a syntax-error flag is registered on the parser before the parse")
				return
			}
			c.Okf("SYNTAX-ERROR-GATE", key+"|listener registered", p.pos(lst.Pos()), "error listener with a syntax-error flag is registered before the parse")
			nret := 0
			for _, b := range f.Blocks {
				ret, ok := b.Instrs[len(b.Instrs)-1].(*ssa.Return)
				if !ok || len(ret.Results) == 0 {
					continue
				}
				vals, cell := returnValues(ret)
				if cell[0] {
					continue // recover block: yields whatever the cells hold; the recovering closure sets the error
				}
				if !derives(vals[0], func(v ssa.Value) bool { return v == call }, nil) {
					continue
				}
				nret++
				gated := false
				// find a load of the flag whose false outcome edge-dominates this block, and which executes after the parse
				for _, r := range *flagAddr.Referrers() {
					ld, ok := r.(*ssa.UnOp)
					if !ok || ld.Op != token.MUL {
						continue
					}
					if !instrDominates(call, ld) {
						continue
					}
					for _, br := range branchesOn(ld) {
						if edgeDominates(br.If.Block(), br.FalseSucc, b) {
							gated = true
						}
					}
				}
				c.Cond(gated, "SYNTAX-ERROR-GATE", key+"|tree returned only without syntax errors", p.pos(ret.Pos()),
					"the return of the parse tree is dominated by the false outcome of the listener's syntax-error flag, read after the parse",
					"the parse tree is returned without testing the syntax-error flag: a file with syntax errors would be walked (listener callbacks on error nodes) instead of rejected")
			}
			if nret == 0 {
				c.Undecidedf("SYNTAX-ERROR-GATE", key+"|tree return", p.pos(f.Pos()), "no return of the parse tree found")
			}
		})
	}
	if n == 0 {
		c.Undecidedf("PARSE-BARRIER", "Sysl_file call", "-", "no call of (*SyslParser).Sysl_file found in pkg/parse: unresolved anchor")
	}
	c.Counts["antlr_parse_sites"] = n
	// (c) listener flag set on every path of SyntaxError
	for _, f := range p.RepoFuncs() {
		if fnPkgPath(f) != pk.PkgPath || f.Name() != "SyntaxError" || f.Parent() != nil {
			continue
		}
		ok := false
		eachInstr(f, func(b *ssa.BasicBlock, i ssa.Instruction) {
			s, isS := i.(*ssa.Store)
			if !isS || b != f.Blocks[0] {
				return
			}
			if cv, isC := s.Val.(*ssa.Const); isC && cv.Value != nil && cv.Value.String() == "true" {
				if _, _, base, isF := fieldOfAddr(s.Addr); isF && base == f.Params[0] {
					// no call that can panic before it
					pre := true
					for _, j := range b.Instrs {
						if j == i {
							break
						}
						if _, isCall := j.(ssa.CallInstruction); isCall {
							pre = false
						}
						if _, isTA := j.(*ssa.TypeAssert); isTA {
							pre = false
						}
					}
					ok = pre
				}
			}
		})
		c.Cond(ok, "SYNTAX-ERROR-GATE", fnName(f)+"|sets the flag first", p.pos(f.Pos()),
			"SyntaxError stores true to the receiver's flag in its entry block before any call or type assertion",
			"SyntaxError does not unconditionally set the error flag before anything that can fail")
	}
}

// errorListenerFlag finds, in f, the address of the bool flag of a repository
// error-listener object that is passed to AddErrorListener.
func errorListenerFlag(p *Program, f *ssa.Function) (*ssa.FieldAddr, ssa.Instruction) {
	var flag *ssa.FieldAddr
	var at ssa.Instruction
	eachCall(f, func(cl ssa.CallInstruction) {
		o := calleeObj(cl)
		if o == nil || o.Name() != "AddErrorListener" {
			return
		}
		for _, a := range cl.Common().Args {
			v := stripValue(a)
			al, ok := v.(*ssa.Alloc)
			if !ok {
				continue
			}
			n := namedOf(al.Type())
			if n == nil || !isRepoPkg(n.Obj().Pkg()) {
				continue
			}
			// its SyntaxError method stores to a bool field; find FieldAddr of a bool field on this alloc
			for _, r := range *al.Referrers() {
				if fa, ok := r.(*ssa.FieldAddr); ok {
					if b, ok := fa.Type().(*types.Pointer).Elem().Underlying().(*types.Basic); ok && b.Kind() == types.Bool {
						flag = fa
						at = cl
					}
				}
			}
		}
	})
	return flag, at
}

func c01ExitStatus(c *Check) {
	p := c.P
	// main2: function in cmd/sysl with an int result that calls a func-typed parameter returning error
	var main2 *ssa.Function
	for _, f := range p.RepoFuncs() {
		if fnPkgPath(f) != repoMod+"/cmd/sysl" || f.Parent() != nil {
			continue
		}
		rs := f.Signature.Results()
		if rs.Len() != 1 {
			continue
		}
		if b, ok := rs.At(0).Type().(*types.Basic); !ok || b.Kind() != types.Int {
			continue
		}
		eachCall(f, func(cl ssa.CallInstruction) {
			if prm, ok := cl.Common().Value.(*ssa.Parameter); ok {
				if sig, ok := prm.Type().Underlying().(*types.Signature); ok && sig.Results().Len() == 1 && isErrorType(sig.Results().At(0).Type()) {
					main2 = f
				}
			}
		})
	}
	if main2 == nil {
		c.Undecidedf("EXIT-STATUS", "cmd/sysl.main2", "-", "error-to-exit-status mapper not found: unresolved anchor")
		return
	}
	// the call result
	var errv *ssa.Call
	eachCall(main2, func(cl ssa.CallInstruction) {
		if _, ok := cl.Common().Value.(*ssa.Parameter); ok {
			errv, _ = cl.(*ssa.Call)
		}
	})
	for _, b := range main2.Blocks {
		ret, ok := b.Instrs[len(b.Instrs)-1].(*ssa.Return)
		if !ok {
			continue
		}
		k, isConst := constInt(retVal(ret, 0))
		if isConst && k == 0 {
			// must be on the nil branch
			gated := false
			for _, r := range *errv.Referrers() {
				if bin, ok := r.(*ssa.BinOp); ok && (isNilConst(bin.X) || isNilConst(bin.Y)) {
					for _, br := range branchesOn(bin) {
						nilSucc := br.FalseSucc
						if bin.Op == token.EQL {
							nilSucc = br.TrueSucc
						}
						if edgeDominates(br.If.Block(), nilSucc, b) {
							gated = true
						}
					}
				}
			}
			c.Cond(gated, "EXIT-STATUS", fnName(main2)+"|return 0 only when err == nil", p.pos(ret.Pos()),
				"the constant 0 status is returned only on the err == nil outcome", "status 0 can be returned although main3 returned an error")
			continue
		}
		// non-constant return: phi of 1 and Exit.Code
		okv := derives(retVal(ret, 0), func(v ssa.Value) bool {
			if k, ok := constInt(v); ok && k != 0 {
				return true
			}
			return false
		}, nil)
		if !okv {
			// the mapping lives in a helper: every status it returns is a non-zero
			// constant or the code carried by the error, and at least one is the former
			okv = statusHelperOK(p, retVal(ret, 0), 0)
		}
		c.Cond(okv, "EXIT-STATUS", fnName(main2)+"|error status defaults non-zero", p.pos(ret.Pos()),
			"the status returned on the error path defaults to a non-zero constant (overridden only by the Exit code carried in the error)",
			"the status returned on the error path has no non-zero default")
	}
	// every Exitf in pkg/parse carries a non-zero constant code
	n := 0
	for _, f := range p.RepoFuncs() {
		if fnPkgPath(f) != p.Pkg(parsePkg).PkgPath {
			continue
		}
		eachCall(f, func(cl ssa.CallInstruction) {
			if !callIs(cl, repoMod+"/pkg/syslutil", "Exitf") {
				return
			}
			n++
			k, ok := constInt(cl.Common().Args[0])
			c.Cond(ok && k != 0, "EXIT-STATUS", fnName(f)+"|Exit code non-zero", p.pos(cl.Pos()),
				fmt.Sprintf("Exit code is the non-zero constant %d", k), "an Exit error is built with a zero or non-constant code: a failed compile could exit 0")
		})
	}
	c.Counts["exitf_sites_in_parse"] = n
}

// statusHelperOK: v is the result of a repository function (possibly through
// further helpers) all of whose returns are a non-zero constant, a value that
// derives from one (phi with the Exit code), or the Code field of an error, with
// at least one non-zero constant among them.
func statusHelperOK(p *Program, v ssa.Value, depth int) bool {
	call, ok := v.(*ssa.Call)
	if !ok || depth > 3 {
		return false
	}
	h := normFn(p, call.Call.StaticCallee())
	if h == nil || !isRepoFn(h) || len(h.Blocks) == 0 || h.Signature.Results().Len() != 1 {
		return false
	}
	nonZero := false
	for _, b := range h.Blocks {
		ret, isRet := b.Instrs[len(b.Instrs)-1].(*ssa.Return)
		if !isRet || b == h.Recover {
			continue
		}
		vals, cell := returnValues(ret)
		if cell[0] {
			return false
		}
		r := vals[0]
		switch {
		case func() bool { k, ok := constInt(r); return ok && k != 0 }():
			nonZero = true
		case func() bool { k, ok := constInt(r); return ok && k == 0 }():
			return false
		case func() bool { _, fld, _, ok := loadedField(r); return ok && fld == "Code" }():
		case func() bool {
			f, ok := r.(*ssa.Field)
			return ok && f.X.Type().Underlying().(*types.Struct).Field(f.Field).Name() == "Code"
		}():
		case derives(r, func(x ssa.Value) bool { k, ok := constInt(x); return ok && k != 0 }, nil):
			nonZero = true
		case statusHelperOK(p, r, depth+1):
			nonZero = true
		default:
			return false
		}
	}
	return nonZero
}
