package main

import (
	"go/token"
	"go/types"

	"golang.org/x/tools/go/ssa"
)

// reachAvoiding reports whether, starting after instruction from, an
// instruction satisfying target can be reached without first executing an
// instruction satisfying barrier. It returns the first target found.
func reachAvoiding(from ssa.Instruction, target, barrier func(ssa.Instruction) bool) (ssa.Instruction, bool) {
	b := from.Block()
	start := instrIndex(from) + 1
	seen := map[*ssa.BasicBlock]bool{}
	type item struct {
		b *ssa.BasicBlock
		i int
	}
	q := []item{{b, start}}
	for len(q) > 0 {
		it := q[0]
		q = q[1:]
		blocked := false
		for k := it.i; k < len(it.b.Instrs); k++ {
			ins := it.b.Instrs[k]
			if target(ins) {
				return ins, true
			}
			if barrier != nil && barrier(ins) {
				blocked = true
				break
			}
		}
		if blocked {
			continue
		}
		for _, s := range it.b.Succs {
			if !seen[s] {
				seen[s] = true
				q = append(q, item{s, 0})
			}
		}
	}
	return nil, false
}

// canReach: is there a CFG path from after a to b (exclusive of barriers)?
func canReach(a, b ssa.Instruction, barrier func(ssa.Instruction) bool) bool {
	_, ok := reachAvoiding(a, func(i ssa.Instruction) bool { return i == b }, barrier)
	return ok
}

func isReturn(i ssa.Instruction) bool { _, ok := i.(*ssa.Return); return ok }

// mustHold computes, for every instruction, whether a condition that is
// switched on by `on` instructions and off by `off` instructions holds on
// every path from function entry (forward must-analysis).
type holdState struct {
	in      map[*ssa.BasicBlock]bool
	on, off func(ssa.Instruction) bool
}

func mustHold(f *ssa.Function, on, off func(ssa.Instruction) bool) *holdState {
	h := &holdState{in: map[*ssa.BasicBlock]bool{}, on: on, off: off}
	if len(f.Blocks) == 0 {
		return h
	}
	out := map[*ssa.BasicBlock]bool{}
	for _, b := range f.Blocks {
		h.in[b] = true
		out[b] = true
	}
	h.in[f.Blocks[0]] = false
	changed := true
	for changed {
		changed = false
		for _, b := range f.Blocks {
			in := true
			if b == f.Blocks[0] {
				in = false
			} else if len(b.Preds) == 0 {
				in = false
			} else {
				for _, p := range b.Preds {
					if !out[p] {
						in = false
					}
				}
			}
			st := in
			for _, ins := range b.Instrs {
				if on(ins) {
					st = true
				} else if off(ins) {
					st = false
				}
			}
			if in != h.in[b] || st != out[b] {
				h.in[b], out[b] = in, st
				changed = true
			}
		}
	}
	return h
}

// At reports whether the condition holds immediately before ins.
func (h *holdState) At(ins ssa.Instruction) bool {
	st := h.in[ins.Block()]
	for _, x := range ins.Block().Instrs {
		if x == ins {
			return st
		}
		if h.on(x) {
			st = true
		} else if h.off(x) {
			st = false
		}
	}
	return st
}

// ifOn returns the If instructions whose condition is v (or !v), with the
// successor index taken when v is true.
func branchesOn(v ssa.Value) (out []struct {
	If        *ssa.If
	TrueSucc  *ssa.BasicBlock
	FalseSucc *ssa.BasicBlock
}) {
	if v.Referrers() == nil {
		return
	}
	for _, r := range *v.Referrers() {
		switch x := r.(type) {
		case *ssa.If:
			out = append(out, struct {
				If        *ssa.If
				TrueSucc  *ssa.BasicBlock
				FalseSucc *ssa.BasicBlock
			}{x, x.Block().Succs[0], x.Block().Succs[1]})
		case *ssa.UnOp:
			if x.Op == token.NOT {
				for _, o := range branchesOn(x) {
					out = append(out, struct {
						If        *ssa.If
						TrueSucc  *ssa.BasicBlock
						FalseSucc *ssa.BasicBlock
					}{o.If, o.FalseSucc, o.TrueSucc})
				}
			}
		}
	}
	return
}

// onlyVia: block b is entered only through edge from→b and dominates x.
func edgeDominates(from, succ *ssa.BasicBlock, x *ssa.BasicBlock) bool {
	if len(succ.Preds) != 1 || succ.Preds[0] != from {
		return false
	}
	return succ == x || succ.Dominates(x)
}

// fieldPath returns the chain of field names from a root pointer value to the
// address v (through FieldAddr only), e.g. ["src","input"].
func fieldPath(v ssa.Value) (root ssa.Value, path []string) {
	for {
		fa, ok := v.(*ssa.FieldAddr)
		if !ok {
			return v, path
		}
		pt := fa.X.Type().Underlying().(*types.Pointer)
		st := pt.Elem().Underlying().(*types.Struct)
		path = append([]string{st.Field(fa.Field).Name()}, path...)
		v = fa.X
	}
}

func hasPrefixPath(a, b []string) bool { // is a a prefix of b
	if len(a) > len(b) {
		return false
	}
	for i := range a {
		if a[i] != b[i] {
			return false
		}
	}
	return true
}
