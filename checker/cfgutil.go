package main

import (
	"fmt"
	"go/token"
	"go/types"
	"sort"
	"strings"

	"golang.org/x/tools/go/ssa"
)

// reachAvoiding reports whether, starting after instruction from, an
// instruction satisfying target can be reached without first executing an
// instruction satisfying barrier. It returns the first target found.
func reachAvoiding(from ssa.Instruction, target, barrier func(ssa.Instruction) bool) (ssa.Instruction, bool) {
	b := from.Block()
	start := instrIndex(from) + 1
	seen := map[*ssa.BasicBlock]bool{}
	type item struct {
		b *ssa.BasicBlock
		i int
	}
	q := []item{{b, start}}
	for len(q) > 0 {
		it := q[0]
		q = q[1:]
		blocked := false
		for k := it.i; k < len(it.b.Instrs); k++ {
			ins := it.b.Instrs[k]
			if target(ins) {
				return ins, true
			}
			if barrier != nil && barrier(ins) {
				blocked = true
				break
			}
		}
		if blocked {
			continue
		}
		for _, s := range it.b.Succs {
			if !seen[s] {
				seen[s] = true
				q = append(q, item{s, 0})
			}
		}
	}
	return nil, false
}

// canReach: is there a CFG path from after a to b (exclusive of barriers)?
func canReach(a, b ssa.Instruction, barrier func(ssa.Instruction) bool) bool {
	_, ok := reachAvoiding(a, func(i ssa.Instruction) bool { return i == b }, barrier)
	return ok
}

func isReturn(i ssa.Instruction) bool { _, ok := i.(*ssa.Return); return ok }

// mustHold computes, for every instruction, whether a condition that is
// switched on by `on` instructions and off by `off` instructions holds on
// every path from function entry (forward must-analysis).
type holdState struct {
	in      map[*ssa.BasicBlock]bool
	on, off func(ssa.Instruction) bool
}

func mustHold(f *ssa.Function, on, off func(ssa.Instruction) bool) *holdState {
	h := &holdState{in: map[*ssa.BasicBlock]bool{}, on: on, off: off}
	if len(f.Blocks) == 0 {
		return h
	}
	out := map[*ssa.BasicBlock]bool{}
	for _, b := range f.Blocks {
		h.in[b] = true
		out[b] = true
	}
	h.in[f.Blocks[0]] = false
	changed := true
	for changed {
		changed = false
		for _, b := range f.Blocks {
			in := true
			if b == f.Blocks[0] {
				in = false
			} else if len(b.Preds) == 0 {
				in = false
			} else {
				for _, p := range b.Preds {
					if !out[p] {
						in = false
					}
				}
			}
			st := in
			for _, ins := range b.Instrs {
				if on(ins) {
					st = true
				} else if off(ins) {
					st = false
				}
			}
			if in != h.in[b] || st != out[b] {
				h.in[b], out[b] = in, st
				changed = true
			}
		}
	}
	return h
}

// At reports whether the condition holds immediately before ins.
func (h *holdState) At(ins ssa.Instruction) bool {
	st := h.in[ins.Block()]
	for _, x := range ins.Block().Instrs {
		if x == ins {
			return st
		}
		if h.on(x) {
			st = true
		} else if h.off(x) {
			st = false
		}
	}
	return st
}

// ifOn returns the If instructions whose condition is v (or !v), with the
// successor index taken when v is true.
func branchesOn(v ssa.Value) (out []struct {
	If        *ssa.If
	TrueSucc  *ssa.BasicBlock
	FalseSucc *ssa.BasicBlock
}) {
	if v.Referrers() == nil {
		return
	}
	for _, r := range *v.Referrers() {
		switch x := r.(type) {
		case *ssa.If:
			out = append(out, struct {
				If        *ssa.If
				TrueSucc  *ssa.BasicBlock
				FalseSucc *ssa.BasicBlock
			}{x, x.Block().Succs[0], x.Block().Succs[1]})
		case *ssa.UnOp:
			if x.Op == token.NOT {
				for _, o := range branchesOn(x) {
					out = append(out, struct {
						If        *ssa.If
						TrueSucc  *ssa.BasicBlock
						FalseSucc *ssa.BasicBlock
					}{o.If, o.FalseSucc, o.TrueSucc})
				}
			}
		}
	}
	return
}

// onlyVia: block b is entered only through edge from→b and dominates x.
func edgeDominates(from, succ *ssa.BasicBlock, x *ssa.BasicBlock) bool {
	if len(succ.Preds) != 1 || succ.Preds[0] != from {
		return false
	}
	return succ == x || succ.Dominates(x)
}

// fieldPath returns the chain of field names from a root pointer value to the
// address v (through FieldAddr only), e.g. ["src","input"].
func fieldPath(v ssa.Value) (root ssa.Value, path []string) {
	for {
		fa, ok := v.(*ssa.FieldAddr)
		if !ok {
			return v, path
		}
		pt := fa.X.Type().Underlying().(*types.Pointer)
		st := pt.Elem().Underlying().(*types.Struct)
		path = append([]string{st.Field(fa.Field).Name()}, path...)
		v = fa.X
	}
}

func hasPrefixPath(a, b []string) bool { // is a a prefix of b
	if len(a) > len(b) {
		return false
	}
	for i := range a {
		if a[i] != b[i] {
			return false
		}
	}
	return true
}

// ---- feasibility-aware reachability ---------------------------------------------
//
// feasibleReach explores the CFG from an instruction (nil: the function entry)
// carrying the truth values of bool SSA values learnt from the branches taken and
// propagated through phis, and does not follow a branch whose condition is known
// to go the other way. It decides the one correlation that plain dominance
// cannot: `x, ok := get(); if !ok { x, ok = tryClaim() }; if ok { return }; use(x)`
// — the use is only reachable through tryClaim, because on the edge that skips
// it `ok` is known to be true. SSA values are immutable, so a fact stays true
// along a path; facts are dropped on back edges (a loop redefines its values).
func feasibleReach(f *ssa.Function, start ssa.Instruction, facts map[ssa.Value]bool, target func(ssa.Instruction) bool, avoid func(ssa.Instruction) bool) bool {
	if len(f.Blocks) == 0 {
		return false
	}
	type state struct {
		b     *ssa.BasicBlock
		from  int // index of the first instruction to look at
		facts map[ssa.Value]bool
	}
	known := func(facts map[ssa.Value]bool, v ssa.Value) (bool, bool) {
		for d := 0; d < 4; d++ {
			if k, ok := v.(*ssa.Const); ok && k.Value != nil && isBoolType(k.Type()) {
				return k.Value.String() == "true", true
			}
			if t, ok := facts[v]; ok {
				return t, true
			}
			if u, ok := v.(*ssa.UnOp); ok && u.Op == token.NOT {
				if t, ok := known2(facts, u.X); ok {
					return !t, true
				}
			}
			break
		}
		return false, false
	}
	key := func(s state) string {
		var parts []string
		for v, t := range s.facts {
			parts = append(parts, fmt.Sprintf("%s=%v", v.Name(), t))
		}
		sort.Strings(parts)
		return fmt.Sprintf("%d/%d|%s", s.b.Index, s.from, strings.Join(parts, ","))
	}
	seen := map[string]bool{}
	var work []state
	cp := func(m map[ssa.Value]bool) map[ssa.Value]bool {
		out := map[ssa.Value]bool{}
		for k, v := range m {
			out[k] = v
		}
		return out
	}
	if start == nil {
		work = append(work, state{f.Blocks[0], 0, cp(facts)})
	} else {
		b := start.Block()
		for i, ins := range b.Instrs {
			if ins == start {
				work = append(work, state{b, i + 1, cp(facts)})
			}
		}
	}
	steps := 0
	for len(work) > 0 && steps < 20000 {
		steps++
		s := work[len(work)-1]
		work = work[:len(work)-1]
		k := key(s)
		if seen[k] {
			continue
		}
		seen[k] = true
		stopped := false
		for _, ins := range s.b.Instrs[s.from:] {
			if avoid != nil && avoid(ins) {
				stopped = true
				break
			}
			if target(ins) {
				return true
			}
		}
		if stopped {
			continue
		}
		enter := func(succ *ssa.BasicBlock, add map[ssa.Value]bool) {
			nf := cp(s.facts)
			if succ.Dominates(s.b) {
				nf = map[ssa.Value]bool{} // back edge: the loop redefines its values
			}
			for v, t := range add {
				nf[v] = t
			}
			// phis of succ for the edge from s.b
			pi := -1
			for i, pr := range succ.Preds {
				if pr == s.b {
					pi = i
				}
			}
			if pi >= 0 {
				for _, ins := range succ.Instrs {
					ph, ok := ins.(*ssa.Phi)
					if !ok {
						break
					}
					if !isBoolType(ph.Type()) {
						continue
					}
					delete(nf, ph)
					if t, ok := known(nf, ph.Edges[pi]); ok {
						nf[ph] = t
					}
				}
			}
			work = append(work, state{succ, 0, nf})
		}
		switch t := s.b.Instrs[len(s.b.Instrs)-1].(type) {
		case *ssa.If:
			val, ok := known(s.facts, t.Cond)
			learn := func(side bool) map[ssa.Value]bool {
				m := map[ssa.Value]bool{t.Cond: side}
				if u, isNot := t.Cond.(*ssa.UnOp); isNot && u.Op == token.NOT {
					m[u.X] = !side
				}
				return m
			}
			if !ok || val {
				enter(s.b.Succs[0], learn(true))
			}
			if !ok || !val {
				enter(s.b.Succs[1], learn(false))
			}
		default:
			for _, succ := range s.b.Succs {
				enter(succ, nil)
			}
		}
	}
	return false
}

func known2(facts map[ssa.Value]bool, v ssa.Value) (bool, bool) {
	if k, ok := v.(*ssa.Const); ok && k.Value != nil && isBoolType(k.Type()) {
		return k.Value.String() == "true", true
	}
	t, ok := facts[v]
	return t, ok
}
