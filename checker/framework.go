package main

import (
	"encoding/json"
	"fmt"
	"os"
	"path/filepath"
	"sort"
	"strings"
	"time"
)

type Verdict string

const (
	OK        Verdict = "ok"
	Flag      Verdict = "flagged" // rule says the clause is broken at this construct (raw)
	Undecided Verdict = "undecided"
	// after classification against the committed tables:
	Exception Verdict = "exception"
	Known     Verdict = "known-finding"
	Baseline  Verdict = "baseline"
	Violation Verdict = "violation"
)

// Obligation is one instance of one rule.
type Obligation struct {
	Rule       string   `json:"rule"`
	Key        string   `json:"key"` // stable, no line numbers
	Pos        string   `json:"pos"`
	Verdict    Verdict  `json:"verdict"`
	Detail     string   `json:"detail,omitempty"`
	Witness    []string `json:"witness,omitempty"`
	Reason     string   `json:"reason,omitempty"` // from the table that classified it
	Nontrivial bool     `json:"-"`
	Variant    string   `json:"variant,omitempty"` // GOOS of the build variant that produced it (thorough tier)
	Shape      string   `json:"shape,omitempty"`   // name-independent address (see shapes.go)
	ShapeSeed  string   `json:"-"`
	LooseSeed  string   `json:"-"`                     // parameter-count-insensitive seed of a recursive cycle
	LocalSeed  string   `json:"-"`                     // fingerprint of the construct itself (a loop's blocks)
	ShapeLocal string   `json:"shape_local,omitempty"` // rule ~ function name ~ construct fingerprint ~ ordinal
	LocalSize  int      `json:"-"`                     // instructions in the construct
	ShapePkg   string   `json:"shape_pkg,omitempty"`   // rule ~ package ~ construct fingerprint ~ ordinal (large constructs only)
	ByShape    bool     `json:"matched_by_shape,omitempty"`
}

// Check collects the obligations of one property run.
type Check struct {
	Prop        string
	Tier        string
	P           *Program
	Obs         []*Obligation
	Counts      map[string]int // what was analysed
	Explanation string
	Assumptions []string
	Notes       []string
	seen        map[string]int
}

func NewCheck(prop, tier string, p *Program) *Check {
	return &Check{Prop: prop, Tier: tier, P: p, Counts: map[string]int{}, seen: map[string]int{}}
}

// Ob records an obligation. Duplicate keys get an ordinal suffix so every
// obligation stays individually addressable.
func (c *Check) Ob(rule, key, pos string, v Verdict, detail string, witness ...string) *Obligation {
	full := rule + "|" + key
	c.seen[full]++
	if n := c.seen[full]; n > 1 {
		full = fmt.Sprintf("%s#%d", full, n)
	}
	o := &Obligation{Rule: rule, Key: full, Pos: pos, Verdict: v, Detail: detail, Witness: witness, Nontrivial: true}
	c.Obs = append(c.Obs, o)
	return o
}

func (c *Check) Okf(rule, key, pos, format string, a ...interface{}) *Obligation {
	return c.Ob(rule, key, pos, OK, fmt.Sprintf(format, a...))
}
func (c *Check) Flagf(rule, key, pos, format string, a ...interface{}) *Obligation {
	return c.Ob(rule, key, pos, Flag, fmt.Sprintf(format, a...))
}
func (c *Check) Undecidedf(rule, key, pos, format string, a ...interface{}) *Obligation {
	return c.Ob(rule, key, pos, Undecided, fmt.Sprintf(format, a...))
}

// Cond records ok or flagged depending on cond.
func (c *Check) Cond(cond bool, rule, key, pos, okDetail, badDetail string) *Obligation {
	if cond {
		return c.Ob(rule, key, pos, OK, okDetail)
	}
	return c.Ob(rule, key, pos, Flag, badDetail)
}

// ---- tables ---------------------------------------------------------------

type tableRow struct {
	Property string `json:"property"`
	Key      string `json:"key"`
	Reason   string `json:"reason,omitempty"`
	// known findings only
	Status string `json:"status,omitempty"` // "known" | "fixed"
	What   string `json:"what,omitempty"`
	Input  string `json:"input,omitempty"`
	Commit string `json:"commit,omitempty"`
	// name-independent address of the construct the row was written for
	Shape string `json:"shape,omitempty"`
	// same function name, same construct (by its own fingerprint): survives edits
	// elsewhere in the function and a renamed construct
	ShapeLocal string `json:"shape_local,omitempty"`
	// same package, same construct, for constructs large enough to be unmistakable:
	// survives the construct being moved into another function of the package
	ShapePkg string `json:"shape_pkg,omitempty"`
}

type Tables struct {
	Exceptions []tableRow                `json:"-"`
	Known      []tableRow                `json:"-"`
	Baseline   []tableRow                `json:"-"`
	Floors     map[string]map[string]int `json:"-"`
}

func verifDir() string {
	if d := os.Getenv("VERIF_DIR"); d != "" {
		return d
	}
	exe, err := os.Executable()
	if err == nil {
		d := filepath.Dir(filepath.Dir(exe))
		if _, err := os.Stat(filepath.Join(d, "tables")); err == nil {
			return d
		}
	}
	return "/verif"
}

func readJSON(path string, v interface{}) error {
	b, err := os.ReadFile(path)
	if err != nil {
		if os.IsNotExist(err) {
			return nil
		}
		return err
	}
	return json.Unmarshal(b, v)
}

func knownOnly(rows []tableRow) []tableRow {
	var out []tableRow
	for _, r := range rows {
		if r.Status != "fixed" {
			out = append(out, r)
		}
	}
	return out
}

func LoadTables() (*Tables, error) {
	t := &Tables{Floors: map[string]map[string]int{}}
	d := filepath.Join(verifDir(), "tables")
	if err := readJSON(filepath.Join(d, "exceptions.json"), &t.Exceptions); err != nil {
		return nil, fmt.Errorf("exceptions.json: %w", err)
	}
	if err := readJSON(filepath.Join(d, "known_findings.json"), &t.Known); err != nil {
		return nil, fmt.Errorf("known_findings.json: %w", err)
	}
	if err := readJSON(filepath.Join(d, "baseline.json"), &t.Baseline); err != nil {
		return nil, fmt.Errorf("baseline.json: %w", err)
	}
	if err := readJSON(filepath.Join(d, "floors.json"), &t.Floors); err != nil {
		return nil, fmt.Errorf("floors.json: %w", err)
	}
	return t, nil
}

// findRow: a row naming the property wins over a wildcard ("*") row.
func findRow(rows []tableRow, prop, key string) *tableRow {
	return findRowMode(rows, prop, key, 0)
}

// mode 1: only rows that name the property; mode 2: only wildcard rows; 0: both (named first).
func findRowMode(rows []tableRow, prop, key string, mode int) *tableRow {
	if mode != 2 {
		for i := range rows {
			r := &rows[i]
			if r.Key == key && r.Property != "*" && (r.Property == prop || strings.Contains(","+r.Property+",", ","+prop+",")) {
				return r
			}
		}
	}
	if mode != 1 {
		for i := range rows {
			r := &rows[i]
			if r.Key == key && r.Property == "*" {
				return r
			}
		}
	}
	return nil
}

// Classify maps raw verdicts to final ones using the committed tables and
// applies the floors.
func (c *Check) Classify(t *Tables) {
	c.assignShapes()
	live := map[string]bool{}
	for _, o := range c.Obs {
		live[o.Key] = true
	}
	// a row whose key matches nothing on this run but whose shape matches o: the
	// same code under another name
	byShape := func(rows []tableRow, o *Obligation) *tableRow {
		if o.Shape == "" && o.ShapeLocal == "" && o.ShapePkg == "" {
			return nil
		}
		for _, mode := range []int{1, 2} {
			for i := range rows {
				r := &rows[i]
				if live[r.Key] {
					continue
				}
				if !(r.Shape != "" && r.Shape == o.Shape) && !(r.ShapeLocal != "" && r.ShapeLocal == o.ShapeLocal) && !(r.ShapePkg != "" && r.ShapePkg == o.ShapePkg) {
					continue
				}
				named := r.Property != "*" && (r.Property == c.Prop || strings.Contains(","+r.Property+",", ","+c.Prop+","))
				if (mode == 1 && named) || (mode == 2 && r.Property == "*") {
					return r
				}
			}
		}
		return nil
	}
	// a row whose key matches nothing on this run, for the same rule and the same
	// construct in a function that is now a caller of o's function (its only caller,
	// up to three steps away, or a direct caller in the same package while the
	// named function is kept as a wrapper): the construct was moved into a helper
	// of the function the row names
	byMove := func(rows []tableRow, o *Obligation) *tableRow {
		op := strings.SplitN(o.Key, "|", 3)
		if len(op) != 3 || c.P == nil {
			return nil
		}
		for _, mode := range []int{1, 2} {
			for i := range rows {
				r := &rows[i]
				if live[r.Key] {
					continue
				}
				rp := strings.SplitN(r.Key, "|", 3)
				if len(rp) != 3 || rp[0] != op[0] || rp[2] != op[2] || rp[1] == op[1] {
					continue
				}
				named := r.Property != "*" && (r.Property == c.Prop || strings.Contains(","+r.Property+",", ","+c.Prop+","))
				if !((mode == 1 && named) || (mode == 2 && r.Property == "*")) {
					continue
				}
				if c.P.onlyHelperOf(op[1], rp[1]) || c.P.directCallee(op[1], rp[1]) {
					return r
				}
			}
		}
		return nil
	}
	// a row for the same rule and construct in a function of the same package and
	// the same bare name, when the function the row names no longer exists: a
	// function turned into a method (or back, or moved to another receiver)
	exists := map[string]bool{}
	if c.P != nil {
		for _, f := range c.P.RepoFuncs() {
			exists[fnName(f)] = true
		}
	}
	byBareName := func(rows []tableRow, o *Obligation) *tableRow {
		op := strings.SplitN(o.Key, "|", 3)
		if len(op) != 3 || c.P == nil {
			return nil
		}
		opkg, obare := fnPkgBare(op[1])
		if obare == "" {
			return nil
		}
		for _, mode := range []int{1, 2} {
			for i := range rows {
				r := &rows[i]
				if live[r.Key] {
					continue
				}
				rp := strings.SplitN(r.Key, "|", 3)
				if len(rp) != 3 || rp[0] != op[0] || rp[2] != op[2] || rp[1] == op[1] || exists[rp[1]] {
					continue
				}
				named := r.Property != "*" && (r.Property == c.Prop || strings.Contains(","+r.Property+",", ","+c.Prop+","))
				if !((mode == 1 && named) || (mode == 2 && r.Property == "*")) {
					continue
				}
				if rpkg, rbare := fnPkgBare(rp[1]); rpkg == opkg && rbare == obare {
					return r
				}
			}
		}
		return nil
	}
	for _, o := range c.Obs {
		switch o.Verdict {
		case Flag:
			o.Verdict = Violation
			for _, mode := range []int{1, 2} { // rows naming this property first, then wildcard rows
				if r := findRowMode(knownOnly(t.Known), c.Prop, o.Key, mode); r != nil {
					o.Verdict, o.Reason = Known, r.What
					recordShape("known_findings", r, o)
				} else if r := findRowMode(t.Exceptions, c.Prop, o.Key, mode); r != nil {
					o.Verdict, o.Reason = Exception, r.Reason
					recordShape("exceptions", r, o)
				} else if r := findRowMode(t.Baseline, c.Prop, o.Key, mode); r != nil {
					o.Verdict, o.Reason = Baseline, r.Reason
					recordShape("baseline", r, o)
				} else {
					continue
				}
				break
			}
			if o.Verdict == Violation {
				if r := byShape(knownOnly(t.Known), o); r != nil {
					o.Verdict, o.Reason, o.ByShape = Known, r.What+" [row "+r.Key+" matched by shape: same code under another name]", true
				} else if r := byShape(t.Exceptions, o); r != nil {
					o.Verdict, o.Reason, o.ByShape = Exception, r.Reason+" [row "+r.Key+" matched by shape: same code under another name]", true
				} else if r := byShape(t.Baseline, o); r != nil {
					o.Verdict, o.Reason, o.ByShape = Baseline, r.Reason+" [row "+r.Key+" matched by shape]", true
				} else if r := byMove(knownOnly(t.Known), o); r != nil {
					o.Verdict, o.Reason, o.ByShape = Known, r.What+" [row "+r.Key+": the construct now sits in a helper only that function calls]", true
				} else if r := byMove(t.Exceptions, o); r != nil {
					o.Verdict, o.Reason, o.ByShape = Exception, r.Reason+" [row "+r.Key+": the construct now sits in a helper only that function calls]", true
				} else if r := byBareName(knownOnly(t.Known), o); r != nil {
					o.Verdict, o.Reason, o.ByShape = Known, r.What+" [row "+r.Key+": the function is now a method (or a function) of the same name in the same package]", true
				} else if r := byBareName(t.Exceptions, o); r != nil {
					o.Verdict, o.Reason, o.ByShape = Exception, r.Reason+" [row "+r.Key+": the function is now a method (or a function) of the same name in the same package]", true
				}
			}
		case Undecided:
			// An undecided obligation may be excepted by name with a reason
			// (an idiom confirmed by reading); otherwise it fails.
			if r := findRow(t.Exceptions, c.Prop, o.Key); r != nil {
				o.Verdict, o.Reason = Exception, r.Reason
				recordShape("exceptions", r, o)
			} else if r := byShape(t.Exceptions, o); r != nil {
				o.Verdict, o.Reason, o.ByShape = Exception, r.Reason+" [row "+r.Key+" matched by shape: same code under another name]", true
			}
		}
	}
	flushShapes()
	// floors: number of obligations per rule must not fall below what was
	// confirmed by hand.
	perRule := map[string]int{}
	for _, o := range c.Obs {
		perRule[o.Rule]++
	}
	if fl := t.Floors[c.Prop]; fl != nil {
		rules := make([]string, 0, len(fl))
		for r := range fl {
			rules = append(rules, r)
		}
		sort.Strings(rules)
		for _, r := range rules {
			if perRule[r] < fl[r] {
				c.Obs = append(c.Obs, &Obligation{Rule: "FLOOR", Key: "FLOOR|" + r, Pos: "-", Verdict: Violation,
					Detail:     fmt.Sprintf("rule %s discovered %d instances, floor confirmed by hand is %d: the rule no longer sees constructs it must see", r, perRule[r], fl[r]),
					Nontrivial: true})
			} else {
				c.Obs = append(c.Obs, &Obligation{Rule: "FLOOR", Key: "FLOOR|" + r, Pos: "-", Verdict: OK,
					Detail: fmt.Sprintf("rule %s: %d instances ≥ floor %d", r, perRule[r], fl[r])})
			}
		}
	}
}

// ---- evidence ---------------------------------------------------------------

type evidence struct {
	PropertyID  string                 `json:"property_id"`
	Tier        string                 `json:"tier"`
	Seed        int                    `json:"seed"`
	Level       string                 `json:"level"`
	Coverage    map[string]interface{} `json:"coverage"`
	Assumptions []string               `json:"assumptions"`
	WallS       float64                `json:"wall_s"`
	Violations  int                    `json:"violations"`
}

// Finish classifies, writes evidence and replay files, prints the verdict
// lines and returns the exit code.
func (c *Check) Finish(t *Tables, start time.Time, extra map[string]interface{}) int {
	return c.finish(t, start, extra, false)
}

func (c *Check) finish(t *Tables, start time.Time, extra map[string]interface{}, classified bool) int {
	if !classified {
		c.Classify(t)
	}
	vd := verifDir()
	if dryRun {
		vd = filepath.Join(os.TempDir(), fmt.Sprintf("syslcheck-dry-%d", os.Getpid()))
		defer os.RemoveAll(vd)
	}
	evDir := filepath.Join(vd, "evidence")
	_ = os.MkdirAll(filepath.Join(evDir, "replay"), 0o755)
	// remove stale replay files of this property
	if old, _ := filepath.Glob(filepath.Join(evDir, "replay", c.Prop+"-*.json")); old != nil {
		for _, f := range old {
			_ = os.Remove(f)
		}
	}
	counts := map[Verdict]int{}
	perRule := map[string]map[Verdict]int{}
	distinct := map[string]bool{}
	for _, o := range c.Obs {
		counts[o.Verdict]++
		if perRule[o.Rule] == nil {
			perRule[o.Rule] = map[Verdict]int{}
		}
		perRule[o.Rule][o.Verdict]++
		if o.Nontrivial {
			distinct[o.Key] = true
		}
	}
	var viol []*Obligation
	for _, o := range c.Obs {
		if o.Verdict == Violation || o.Verdict == Undecided {
			viol = append(viol, o)
		}
	}
	// samples: every non-ok obligation first (bounded), then ok ones.
	var samples []*Obligation
	for _, o := range c.Obs {
		if o.Verdict != OK && len(samples) < 40 {
			samples = append(samples, o)
		}
	}
	perRuleSeen := map[string]int{}
	for _, o := range c.Obs {
		if o.Verdict == OK && perRuleSeen[o.Rule] < 3 && len(samples) < 70 {
			perRuleSeen[o.Rule]++
			samples = append(samples, o)
		}
	}
	rules := map[string]interface{}{}
	for r, m := range perRule {
		mm := map[string]int{}
		for v, n := range m {
			mm[string(v)] = n
		}
		rules[r] = mm
	}
	discharged := counts[OK] + counts[Exception]
	cov := map[string]interface{}{
		"explanation":         c.Explanation,
		"obligations":         len(c.Obs),
		"discharged":          discharged,
		"evaluations":         len(c.Obs),
		"distinct_nontrivial": len(distinct),
		"rule":                "one evaluation per obligation (rule instance discovered in /repo's current source); distinct = distinct obligation keys (rule|function|construct), non-trivial = the evaluation inspected at least one path, call site, store or table row",
		"samples":             samples,
		"analysed":            c.Counts,
		"per_rule":            rules,
		"verdicts": map[string]int{"ok": counts[OK], "exception": counts[Exception], "known_finding": counts[Known],
			"baseline_unconfirmed": counts[Baseline], "violation": counts[Violation], "undecided": counts[Undecided]},
		"notes":      c.Notes,
		"exhaustive": true,
		"trusted_base": []string{"go/types", "go/ssa", "go/cfg", "x/tools VTA call graph v0.29.0",
			"committed tables under /verif/tables (exceptions with reasons, known findings, floors)"},
		"checker_cmd": fmt.Sprintf("./run.sh %s %s", c.Prop, c.Tier),
	}
	for k, v := range extra {
		cov[k] = v
	}
	seed := 0
	fmt.Sscanf(os.Getenv("VERIF_SEED"), "%d", &seed)
	ev := evidence{PropertyID: c.Prop, Tier: c.Tier, Seed: seed, Level: "other", Coverage: cov,
		Assumptions: c.Assumptions, WallS: time.Since(start).Seconds(), Violations: len(viol)}
	if ev.Assumptions == nil {
		ev.Assumptions = []string{}
	}
	b, _ := json.MarshalIndent(ev, "", " ")
	if err := os.WriteFile(filepath.Join(evDir, c.Prop+".json"), append(b, '\n'), 0o644); err != nil {
		fmt.Printf("VIOLATION property=%s replay=- (cannot write evidence: %v)\n", c.Prop, err)
		return 1
	}
	// summary
	fmt.Printf("property %s tier %s: %d obligations: ok=%d exception=%d known-finding=%d baseline=%d violation=%d undecided=%d (%.1fs)\n",
		c.Prop, c.Tier, len(c.Obs), counts[OK], counts[Exception], counts[Known], counts[Baseline], counts[Violation], counts[Undecided],
		time.Since(start).Seconds())
	var ks []string
	for k := range c.Counts {
		ks = append(ks, k)
	}
	sort.Strings(ks)
	var parts []string
	for _, k := range ks {
		parts = append(parts, fmt.Sprintf("%s=%d", k, c.Counts[k]))
	}
	fmt.Printf("analysed: %s\n", strings.Join(parts, " "))
	var rs []string
	for r := range perRule {
		rs = append(rs, r)
	}
	sort.Strings(rs)
	for _, r := range rs {
		var ps []string
		for _, v := range []Verdict{OK, Exception, Known, Baseline, Violation, Undecided} {
			if n := perRule[r][v]; n > 0 {
				ps = append(ps, fmt.Sprintf("%s=%d", v, n))
			}
		}
		fmt.Printf("  rule %-28s %s\n", r, strings.Join(ps, " "))
	}
	for _, o := range c.Obs {
		if o.Verdict == Known {
			fmt.Printf("KNOWN-FINDING: property=%s %s at %s — %s\n", c.Prop, o.Key, o.Pos, o.Reason)
		}
	}
	if sub := os.Getenv("VERIF_SHOW"); sub != "" {
		for _, o := range c.Obs {
			if strings.Contains(o.Key, sub) {
				fmt.Printf("  show %s: %s at %s — %s\n", o.Verdict, o.Key, o.Pos, o.Detail)
			}
		}
	}
	if os.Getenv("VERIF_VERBOSE") != "" {
		for _, o := range c.Obs {
			if o.Verdict == Exception || o.Verdict == Baseline {
				fmt.Printf("  %s: %s at %s — %s [%s]\n", o.Verdict, o.Key, o.Pos, o.Detail, o.Reason)
			}
		}
	}
	for i, o := range viol {
		rp := filepath.Join(evDir, "replay", fmt.Sprintf("%s-%d.json", c.Prop, i+1))
		rb, _ := json.MarshalIndent(map[string]interface{}{"property": c.Prop, "obligation": o}, "", " ")
		_ = os.WriteFile(rp, append(rb, '\n'), 0o644)
		fmt.Printf("  %s %s at %s: %s\n", o.Verdict, o.Key, o.Pos, o.Detail)
		if os.Getenv("VERIF_SHOW_SHAPES") != "" {
			fmt.Printf("    shape=%s local=%s pkg=%s\n", o.Shape, o.ShapeLocal, o.ShapePkg)
		}
		for _, w := range o.Witness {
			fmt.Printf("      %s\n", w)
		}
		fmt.Printf("VIOLATION property=%s replay=%s\n", c.Prop, rp)
	}
	if len(viol) > 0 {
		return 1
	}
	return 0
}

// setLocal records the fingerprint and size of the construct an obligation is about.
func (o *Obligation) setLocal(seed string, size int) *Obligation {
	o.LocalSeed, o.LocalSize = seed, size
	return o
}

// fnPkgBare splits a function name as printed in keys — "pkg/x.f", "(*pkg/x.T).m",
// "(pkg/x.T).m$1" — into its package and its bare name (closure suffix kept).
func fnPkgBare(name string) (string, string) {
	i := strings.LastIndex(name, ".")
	if i < 0 {
		return "", ""
	}
	owner, bare := name[:i], name[i+1:]
	if strings.HasPrefix(owner, "(") && strings.HasSuffix(owner, ")") {
		owner = strings.TrimSuffix(strings.TrimPrefix(strings.TrimPrefix(owner, "("), "*"), ")")
		if j := strings.LastIndex(owner, "."); j >= 0 {
			owner = owner[:j]
		}
	}
	return owner, bare
}
