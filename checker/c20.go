package main

import (
	"go/types"
	"sort"
	"strings"

	"golang.org/x/tools/go/ssa"
)

func init() { register("C20", LoadWhole, checkC20) }

// commandExecutes discovers the Execute methods of all implementers of
// cmdutils.Command in cmd/sysl.
func commandExecutes(p *Program) []*ssa.Function {
	cu := p.Pkg("pkg/cmdutils")
	if cu == nil {
		return nil
	}
	obj := cu.Types.Scope().Lookup("Command")
	if obj == nil {
		return nil
	}
	iface, _ := obj.Type().Underlying().(*types.Interface)
	var out []*ssa.Function
	for _, pk := range p.Repo {
		sc := pk.Types.Scope()
		for _, n := range sc.Names() {
			tn, ok := sc.Lookup(n).(*types.TypeName)
			if !ok {
				continue
			}
			nt, ok := tn.Type().(*types.Named)
			if !ok {
				continue
			}
			if _, isI := nt.Underlying().(*types.Interface); isI {
				continue
			}
			pt := types.NewPointer(nt)
			if !types.Implements(pt, iface) {
				continue
			}
			sel := p.SSA.MethodSets.MethodSet(pt).Lookup(pk.Types, "Execute")
			if sel == nil {
				continue
			}
			if f := p.SSA.MethodValue(sel); f != nil {
				out = append(out, f)
			}
		}
	}
	sort.Slice(out, func(i, j int) bool { return fnName(out[i]) < fnName(out[j]) })
	return out
}

// interactive / server commands are outside C20's quantifier (they do not
// "end with output"): lsp, repl, test-rig.
func c20Excluded(f *ssa.Function) bool {
	n := fnName(f)
	return strings.Contains(n, "lspCmd") || strings.Contains(n, "replCmd") || strings.Contains(n, "testRigCmd")
}

func checkC20(c *Check) {
	p := c.P
	c.Explanation = "C20 (structural clauses): from (*cmdRunner).Run and the Execute method of every cmdutils.Command implementer (discovered from go/types; lsp, repl and test-rig excluded as non-terminating by design), every explicit panic, must-helper call, non-constant regexp.MustCompile and process-exit call (os.Exit, log/logrus Fatal*) in repository code reachable in the whole-program VTA call graph must be protected by a recover barrier on every call path (exits cannot be), sit in the default arm of an exhaustive oneof type switch, or be listed with a reason; unchecked by-name model look-ups whose result is dereferenced (R-DEREF) and recursive cycles that follow names without a guard (R-REC) are the dangling-reference and stack-exhaustion crash classes the statement names. New sites fail the check; sites present on the pinned tree are each an exception (argued unreachable), a known finding (reproduced) or an unconfirmed baseline row."
	c.Assumptions = append(c.Assumptions,
		"VTA call graph over-approximates dynamic dispatch; reflection-based calls not followed",
		"implicit runtime panics other than the R-DEREF patterns (arbitrary index arithmetic, nil maps, third-party type assertions) and loop termination are not decided",
		"arr.ai scripts (.arraiz bundles) are opaque")
	var entries []*ssa.Function
	if f := p.lookupFunc("cmd/sysl", "cmdRunner.Run"); f != nil {
		entries = append(entries, f)
	}
	n := 0
	var excluded []*ssa.Function
	for _, f := range commandExecutes(p) {
		if c20Excluded(f) {
			excluded = append(excluded, f)
			continue
		}
		n++
		entries = append(entries, f)
	}
	// the interactive evaluator debugger (eval.repl) is outside the quantifier
	// (found by role: the methods of the pkg/eval type that holds an interactive
	// line reader, a *bufio.Scanner or *bufio.Reader field)
	for _, f := range p.RepoFuncs() {
		if fnPkgPath(f) != repoMod+"/pkg/eval" || f.Parent() != nil || f.Signature.Recv() == nil {
			continue
		}
		rn := namedOf(f.Signature.Recv().Type())
		if rn == nil {
			continue
		}
		st, ok := rn.Underlying().(*types.Struct)
		if !ok {
			continue
		}
		for i := 0; i < st.NumFields(); i++ {
			if typeIs(st.Field(i).Type(), "bufio", "Scanner") || typeIs(st.Field(i).Type(), "bufio", "Reader") {
				excluded = append(excluded, f)
				break
			}
		}
	}
	c.Counts["command_execute_entries"] = n
	if n < 15 || len(entries) < 16 {
		c.Undecidedf("ANCHOR", "commands", "-", "found only %d cmdutils.Command implementers (expected ≥15) or cmdRunner.Run missing", n)
		return
	}
	c.Okf("ANCHOR", "commands", "-", "%d command Execute entries + cmdRunner.Run", n)
	guardExitOK = true
	defer func() { guardExitOK = false }()
	res := runGuard(p, entries, excluded...)
	reportGuard(c, "UNGUARDED-SITE", res)
	runRec(c, "RECURSION", entries, nil, excluded...)
	runDeref(c, "UNCHECKED-LOOKUP", entries, res, nil, excluded...)
	// an error bound to a variable and never read: the command goes on with the
	// nil/zero results of the failed call
	scope := map[*ssa.Function]bool{}
	for f := range res.All {
		if isRepoFn(f) {
			for _, g := range withClosures(f) {
				scope[g] = true
			}
		}
	}
	// a command that waits for ever does not end: locks and semaphore tokens are
	// given back on every path and not held across a call that can take them again
	c.Counts["blocking_resources"] = blockingResources(c, "RESOURCE-PAIR", "HELD-ACROSS-NESTING", scope)
	c.Counts["goroutines_started_in_loops"] = goroutineLoopVars(c, "GOROUTINE-LOOPVAR", scope)
	c.Okf("GOROUTINE-LOOPVAR", "scan", "-", "%d reachable repository functions scanned for goroutines started in loops: %d found and evaluated", len(scope), c.Counts["goroutines_started_in_loops"])
	c.Okf("RESOURCE-PAIR", "scan", "-", "%d reachable repository functions scanned for locks and semaphore tokens: %d acquisitions found and evaluated", len(scope), c.Counts["blocking_resources"])
	c.Okf("HELD-ACROSS-NESTING", "scan", "-", "%d reachable repository functions scanned for locks and semaphore tokens: %d acquisitions found and evaluated", len(scope), c.Counts["blocking_resources"])
	c.Counts["nesting_counters"] = counterPairs(c, "COUNTER-PAIR", scope) + saturatingCounters(c, "COUNTER-PAIR", scope)
	c.Okf("COUNTER-PAIR", "scan", "-", "%d reachable repository functions scanned for nesting counters: %d found and evaluated", len(scope), c.Counts["nesting_counters"])
	nDead := deadErrors(c, "DEAD-ERROR", scope)
	c.Counts["dead_error_assignments"] = nDead
	c.Okf("DEAD-ERROR", "scan", "-", "%d reachable repository functions scanned for error results bound to a variable that is never read: %d found", len(scope), nDead)
}
