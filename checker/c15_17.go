package main

import (
	"fmt"
	"go/ast"
	"go/token"
	"go/types"
	"sort"
	"strings"

	"golang.org/x/tools/go/ssa"
)

func init() {
	register("C15", LoadWhole, checkC15)
	register("C16", LoadWhole, checkC16)
	register("C17", LoadWhole, checkC17)
}

const dmPkg = repoMod + "/pkg/datamodeldiagram"

func isEmitCall(i ssa.Instruction) bool {
	cl, ok := i.(ssa.CallInstruction)
	if !ok {
		return false
	}
	o := calleeObj(cl)
	if o == nil {
		return false
	}
	_, em := depEmit(o, cl)
	return em
}

func checkC15(c *Check) {
	p := c.P
	c.Explanation = "C15 (thin structural clauses): the tuple drawer consults every collection-wrapper kind the compiler can produce (set, sequence, list) before deciding whether a field is a reference; the top-level dispatcher has a branch for relation, tuple, primitive alias and enum types; in both field loops every way round the loop writes the field's line (no field is skipped silently) and the loops run over sorted name slices; no explicit panic, unchecked by-name look-up, unguarded recursion or unordered iteration reaching output is reachable from the data-model generators. Counts of classes and relationship lines are not decided."
	entries := funcsNamed(c, "pkg/datamodeldiagram.GenerateDataModels", "pkg/datamodeldiagram.GenerateDataModelsWithProjectMannerModule", "pkg/datamodeldiagram.GenerateDataModelsWithPureModule")
	if len(entries) < 3 {
		return
	}
	runGenEngines(c, genOpts{entries: entries, order: true, guard: true, deref: true, rec: true, modelRO: true})
	tkinds := oneofKinds(p, "isType_Type")
	// drawers by role: methods of DataModelView taking a *sysl.Type_Tuple / *sysl.Type_Relation
	var tupleDrawer, relDrawer, dispatcher *ssa.Function
	for _, f := range methodsOfType(p, "pkg/datamodeldiagram", "DataModelView") {
		if f.Parent() != nil {
			continue
		}
		for _, prm := range f.Params {
			if typeIs(prm.Type(), syslPkg, "Type_Tuple") {
				tupleDrawer = f
			}
			if typeIs(prm.Type(), syslPkg, "Type_Relation") {
				relDrawer = f
			}
		}
		// dispatcher: calls both drawers
	}
	for _, f := range methodsOfType(p, "pkg/datamodeldiagram", "DataModelView") {
		callsT, callsR := false, false
		eachCall(f, func(cl ssa.CallInstruction) {
			if sc := staticCallee(cl); sc != nil {
				if sc == tupleDrawer {
					callsT = true
				}
				if sc == relDrawer {
					callsR = true
				}
			}
		})
		if callsT && callsR {
			dispatcher = f
		}
	}
	if tupleDrawer == nil || relDrawer == nil || dispatcher == nil {
		c.Undecidedf("ANCHOR", "drawers", "-", "tuple drawer / relation drawer / dispatcher of DataModelView not found by role")
		return
	}
	// (1) wrapper kinds in the tuple drawer
	cov := kindsCovered(withClosures(tupleDrawer), tkinds)
	nW := 0
	for _, k := range tkinds {
		// collection wrappers: payload is *Type or contains a *Type field
		wrapper := false
		if k.Payload != nil {
			if k.Payload.Obj().Name() == "Type" {
				wrapper = true
			} else if st, ok := k.Payload.Underlying().(*types.Struct); ok {
				for i := 0; i < st.NumFields(); i++ {
					if n := namedOf(st.Field(i).Type()); n != nil && n.Obj().Name() == "Type" && k.Name != "Type_Tuple_" && k.Name != "Type_Relation_" && k.Name != "Type_OneOf_" {
						if _, isPtr := st.Field(i).Type().(*types.Pointer); isPtr {
							wrapper = true
						}
					}
				}
			}
		}
		if !wrapper || !k.Producible {
			continue
		}
		nW++
		_, ok := cov[k.Name]
		c.Cond(ok, "WRAPPER-KINDS", fmt.Sprintf("%s|looks through %s", fnName(tupleDrawer), k.Name), p.pos(tupleDrawer.Pos()),
			"the tuple drawer unwraps this collection kind before classifying the field",
			fmt.Sprintf("the tuple drawer never looks through %s: a field that is a %s of a drawn type gets no relationship line", k.Name, strings.ToLower(strings.TrimPrefix(k.Name, "Type_"))))
	}
	if nW < 2 {
		c.Undecidedf("WRAPPER-KINDS", "kinds", "-", "only %d producible collection-wrapper kinds computed", nW)
	}
	// (2) dispatcher branches
	dcov := kindsCovered(withClosures(dispatcher), tkinds)
	for _, need := range []string{"Type_Relation_", "Type_Tuple_", "Type_Primitive_", "Type_Enum_"} {
		_, ok := dcov[need]
		c.Cond(ok, "DISPATCH", fmt.Sprintf("%s|%s", fnName(dispatcher), need), p.pos(dispatcher.Pos()),
			"the dispatcher has a branch for this type kind", fmt.Sprintf("the dispatcher has no branch for %s: such types are never drawn", need))
	}
	// (3) field loops: every iteration writes a line
	for _, d := range []*ssa.Function{tupleDrawer, relDrawer} {
		n := 0
		for _, b := range d.Blocks {
			// loop headers of index loops
			isHeader := false
			for _, pr := range b.Preds {
				if b.Dominates(pr) {
					isHeader = true
				}
			}
			if !isHeader {
				continue
			}
			// body entry: the successor inside the loop
			iff, ok := b.Instrs[len(b.Instrs)-1].(*ssa.If)
			if !ok {
				continue
			}
			_ = iff
			body := b.Succs[0]
			// only loops that read the AttrDefs map (field loops)
			readsAttr := false
			seen := map[*ssa.BasicBlock]bool{}
			var scan func(x *ssa.BasicBlock)
			scan = func(x *ssa.BasicBlock) {
				if seen[x] || x == b {
					return
				}
				seen[x] = true
				for _, ins := range x.Instrs {
					if lk, ok := ins.(*ssa.Lookup); ok {
						if _, fld, _, ok := loadedField(lk.X); ok && fld == "AttrDefs" {
							readsAttr = true
						}
					}
				}
				for _, s := range x.Succs {
					if b.Dominates(s) {
						scan(s)
					}
				}
			}
			scan(body)
			if !readsAttr || len(body.Instrs) == 0 {
				continue
			}
			n++
			// for every back edge: can it be reached from the body entry without an emit call?
			first := body.Instrs[0]
			k := 0
			for _, bp := range b.Preds {
				if !b.Dominates(bp) {
					continue
				}
				k++
				last := bp.Instrs[len(bp.Instrs)-1]
				silent := false
				if !isEmitCall(first) {
					if first == last {
						silent = true
					} else {
						_, silent = reachAvoiding(first, func(x ssa.Instruction) bool { return x == last }, isEmitCall)
						if isEmitCall(last) {
							silent = false
						}
					}
				}
				c.Cond(!silent, "FIELD-LOOP", fmt.Sprintf("%s|field written before continuing", fnName(d)), p.pos(last.Pos()),
					"this way round the field loop writes a line for the field",
					"this way round the field loop writes nothing: such fields are missing from the class")
			}
		}
		if n == 0 {
			c.Undecidedf("FIELD-LOOP", fnName(d), p.pos(d.Pos()), "no loop over the fields (AttrDefs) found in the drawer")
		}
	}
}

func checkC16(c *Check) {
	p := c.P
	c.Explanation = "C16 (structural clauses): the reference-depth computation must terminate (its self-call with unchanged arguments has no progress guard: reported); table and column emission order must not depend on map iteration or on colliding line-number keys (R-ORDER: reported); foreign-key references are indexed without a length test (R-DEREF: reported); no explicit panic is reachable from the script generators. Dependency order of the emitted tables and the effect of delta scripts are not decided (they need an interpreter for the emitted DDL)."
	var entries []*ssa.Function
	for _, f := range methodsOfType(p, "pkg/database", "ScriptView") {
		if f.Parent() == nil && (f.Name() == "GenerateDatabaseScriptCreate" || f.Name() == "ProcessModSysls") {
			entries = append(entries, f)
		}
	}
	// the exported helpers of the package the two generators call (the depth
	// computation is one: callers outside the package may start there too)
	nGen := len(entries)
	seenEntry := map[*ssa.Function]bool{}
	for _, e := range entries[:nGen] {
		seenEntry[e] = true
	}
	for _, e := range entries[:nGen] {
		eachCall(e, func(cl ssa.CallInstruction) {
			sc := staticCallee(cl)
			if sc != nil && !seenEntry[sc] && sc.Parent() == nil && sc.Signature.Recv() == nil &&
				fnPkgPath(sc) == repoMod+"/pkg/database" && ast.IsExported(sc.Name()) {
				seenEntry[sc] = true
				entries = append(entries, sc)
			}
		})
	}
	if nGen < 2 || len(entries) < 3 {
		c.Undecidedf("ANCHOR", "database entries", "-", "ScriptView.GenerateDatabaseScriptCreate / ProcessModSysls and the exported depth computation they call not found")
		return
	}
	runGenEngines(c, genOpts{entries: entries, order: true, guard: true, deref: true, rec: true, modelRO: true})
	c16DepthIsMax(c)
	c16RecordOnAllPaths(c)
	// each script is the content of a buffer held in the view: it must be empty
	// when the generation of one application's script starts
	nb := freshBuffers(c, "FRESH-BUFFER", func(f *ssa.Function) bool {
		return fnPkgPath(f) == repoMod+"/pkg/database" || strings.Contains(c.P.fnFile(f), "cmd_databasescript")
	})
	c.Counts["buffer_returning_call_sites"] = nb
	if nb < 3 {
		c.Undecidedf("FRESH-BUFFER", "call sites", "-", "expected the calls of the two script generators, found %d", nb)
	}
	// delta path: sorted by name (information: the modify path must sort its table list)
	sorted := false
	var modif []*ssa.Function
	seenMod := map[*ssa.Function]bool{}
	for _, f := range methodsOfType(p, "pkg/database", "ScriptView") {
		if strings.Contains(strings.ToLower(f.Name()), "modif") {
			modif = append(modif, f)
			seenMod[f] = true
		}
	}
	// with the steps of the modify path it hands its work to (same package)
	for k := 0; k < len(modif); k++ {
		eachCall(modif[k], func(cl ssa.CallInstruction) {
			if isSanitiserCall(cl) {
				sorted = true
			}
			sc := staticCallee(cl)
			if sc == nil || !isRepoFn(sc) {
				return
			}
			if strings.Contains(strings.ToLower(sc.Name()), "sort") {
				sorted = true
			}
			if !seenMod[sc] && fnPkgPath(sc) == repoMod+"/pkg/database" {
				seenMod[sc] = true
				modif = append(modif, sc)
			}
		})
	}
	c.Cond(sorted, "DELTA-ORDER", "modify path sorts its tables", "-", "the delta path orders its table/column lists with an explicit sort", "the delta path no longer sorts its table/column lists")
}

func checkC17(c *Check) {
	p := c.P
	c.Explanation = "C17 (structural clauses): no append in pkg/arrai/relmod extends a slice parameter (or a slice held by a parameter's object) and retains the result in another object — the shape behind 'sibling statements share one position path'; normalizeStatement has a case for every producible statement kind and hands on the nested statements of every block kind (so rows for nested statements exist); every explicit panic reachable from Normalize / BuildTransformInput is under a recover barrier that returns an error; appends performed under map iteration land in relations tagged unordered, nothing ordered is fed from one; no unchecked by-name look-up or unguarded recursion. Row-for-row completeness is not decided."
	entries := funcsNamed(c, "pkg/arrai/relmod.Normalize")
	for _, f := range p.RepoFuncs() {
		if fnPkgPath(f) == repoMod+"/pkg/arrai/transform" && f.Parent() == nil && (f.Name() == "BuildTransformInput" || f.Name() == "buildTransformInput") {
			entries = append(entries, f)
		}
	}
	if len(entries) == 1 {
		// by role: the functions of pkg/arrai/transform that call Normalize
		for _, f := range p.RepoFuncs() {
			if fnPkgPath(f) != repoMod+"/pkg/arrai/transform" || f.Parent() != nil || strings.HasSuffix(p.fnFile(f), "_test.go") {
				continue
			}
			eachCall(f, func(cl ssa.CallInstruction) {
				if sc := staticCallee(cl); sc != nil && sc == entries[0] {
					entries = append(entries, f)
				}
			})
		}
	}
	if len(entries) < 1 {
		return
	}
	runGenEngines(c, genOpts{entries: entries, order: true, guard: true, deref: true, rec: true, modelRO: true})
	// the command that hands the relational model to the script: a refusal by
	// Normalize must reach the user, not be overwritten
	cmdFns := map[*ssa.Function]bool{}
	for _, f := range p.RepoFuncs() {
		if strings.HasSuffix(p.fnFile(f), "cmd/sysl/cmd_transform.go") {
			cmdFns[f] = true
		}
	}
	if len(cmdFns) == 0 {
		c.Undecidedf("ANCHOR", "transform command", "-", "no function of cmd/sysl/cmd_transform.go loaded")
	}
	c.Counts["transform_command_functions"] = len(cmdFns)
	c.Counts["transform_command_dead_errors"] = deadErrors(c, "DEAD-ERROR", cmdFns)
	c17RowOnAllPaths(c)
	c10Appends(c, repoMod+"/pkg/arrai/relmod", "RETAINED-APPEND")
	var ns []*ssa.Function
	if f := p.FuncByName("pkg/arrai/relmod.normalizeStatement"); f != nil {
		ns = withClosures(f)
	} else {
		// by role: the function of the package that is handed a statement and
		// comes back to itself (directly or from a closure of its own)
		for _, g := range p.RepoFuncs() {
			if fnPkgPath(g) != repoMod+"/pkg/arrai/relmod" || g.Parent() != nil || ns != nil {
				continue
			}
			takes := false
			for _, prm := range g.Params {
				if typeIs(prm.Type(), syslPkg, "Statement") {
					takes = true
				}
			}
			if !takes {
				continue
			}
			for _, h := range withClosures(g) {
				eachCall(h, func(cl ssa.CallInstruction) {
					if staticCallee(cl) == g {
						ns = withClosures(g)
					}
				})
			}
		}
	}
	runStmtKinds(c, "STMT-KINDS", "normalizeStatement", ns)
	// type kinds in normalizeType / field types: coverage of producible type kinds
	var nt []*ssa.Function
	for _, n := range []string{"pkg/arrai/relmod.normalizeType", "pkg/arrai/relmod.parseFieldType", "pkg/arrai/relmod.normalizeField"} {
		if f := p.FuncByName(n); f != nil {
			// with the helpers of the package it hands the type on to
			for g := range repoReach(p, f) {
				if fnPkgPath(g) == fnPkgPath(f) {
					nt = append(nt, g)
				}
			}
		}
	}
	if len(nt) == 0 {
		// by role: the functions of the package that are handed a type, with the
		// helpers of the package they hand it on to
		seenT := map[*ssa.Function]bool{}
		for _, f := range p.RepoFuncs() {
			if fnPkgPath(f) != repoMod+"/pkg/arrai/relmod" || f.Parent() != nil || strings.HasSuffix(p.fnFile(f), "_test.go") {
				continue
			}
			takes := false
			for _, prm := range f.Params {
				if typeIs(prm.Type(), syslPkg, "Type") {
					takes = true
				}
			}
			if !takes {
				continue
			}
			for g := range repoReach(p, f) {
				if fnPkgPath(g) == fnPkgPath(f) && !seenT[g] {
					seenT[g] = true
					nt = append(nt, g)
				}
			}
		}
	}
	sort.Slice(nt, func(i, j int) bool { return fnName(nt[i]) < fnName(nt[j]) })
	if len(nt) > 0 {
		tk := oneofKinds(p, "isType_Type")
		cov := kindsCovered(nt, tk)
		for _, k := range tk {
			if !k.Producible || k.Name == "Type_NoType_" {
				continue
			}
			_, ok := cov[k.Name]
			c.Cond(ok, "TYPE-KINDS", "relmod types|"+k.Name, p.pos(nt[0].Pos()),
				"the type normaliser has a case for this type kind",
				fmt.Sprintf("the type normaliser has no case for %s, which the compiler produces: such types/fields are missing from the relational model", k.Name))
		}
	} else {
		c.Undecidedf("TYPE-KINDS", "normalizeType", "-", "type normaliser not found")
	}
	// a recover barrier on the way from Normalize to the converters turns their
	// panics into Normalize's error (the barrier's quality is decided by the guard
	// engine: it must assign the guarded function's named error result)
	if f := p.FuncByName("pkg/arrai/relmod.Normalize"); f != nil {
		var holder *ssa.Function
		silent := ""
		var fns []*ssa.Function
		for g := range repoReach(p, f) {
			if fnPkgPath(g) == fnPkgPath(f) {
				fns = append(fns, g)
			}
		}
		sort.Slice(fns, func(i, j int) bool { return fnName(fns[i]) < fnName(fns[j]) })
		for _, g := range fns {
			if len(recoverBarriers(g)) > 0 && holder == nil {
				holder = g
			}
			eachInstr(g, func(_ *ssa.BasicBlock, i ssa.Instruction) {
				if d, ok := i.(*ssa.Defer); ok {
					if why, bad := silentGuards[d]; bad {
						silent = fnName(g) + ": " + why
					}
				}
			})
		}
		detail := "no reporting recover barrier between Normalize and the converters: Normalize no longer converts converter panics into an error"
		if silent != "" {
			detail = "Normalize no longer converts converter panics into an error — " + silent
		}
		c.Cond(holder != nil && silent == "", "REFUSE-WITH-ERROR", fnName(f)+"|panic becomes an error", p.pos(f.Pos()),
			"converter panics are recovered and assigned to the named error result on the way from Normalize", detail)
	}
}

var _ = token.NoPos

// c16DepthIsMax: tables are emitted by depth, and a table's depth must exceed
// the depth of every table it refers to. In the function that derives a depth
// from the completed depths of the referenced tables (found by role: a
// pkg/database function returning an int that is computed as "looked-up depth of
// another table + 1" inside a loop over the columns), every assignment of the
// result inside the loop has to be control-dependent on a comparison of the new
// value with the running one (the running maximum). A plain assignment makes
// the depth that of the column visited last, and a table can then be created
// before one it refers to.
func c16DepthIsMax(c *Check) {
	p := c.P
	n := 0
	for _, f := range p.RepoFuncs() {
		if fnPkgPath(f) != repoMod+"/pkg/database" || f.Parent() != nil || strings.HasSuffix(p.fnFile(f), "_test.go") {
			continue
		}
		hasInt := false
		for i := 0; i < f.Signature.Results().Len(); i++ {
			if b, ok := f.Signature.Results().At(i).Type().Underlying().(*types.Basic); ok && b.Kind() == types.Int {
				hasInt = true
			}
		}
		if !hasInt {
			continue
		}
		// candidate new depths: (lookup in a map[string]int) + 1
		eachInstr(f, func(_ *ssa.BasicBlock, i ssa.Instruction) {
			bin, ok := i.(*ssa.BinOp)
			if !ok || bin.Op != token.ADD {
				return
			}
			if k, isK := constInt(bin.Y); !isK || k != 1 {
				return
			}
			lk, ok := bin.X.(*ssa.Lookup)
			if !ok {
				return
			}
			if mt, ok := lk.X.Type().Underlying().(*types.Map); !ok || !types.Identical(mt.Elem(), types.Typ[types.Int]) {
				return
			}
			// where does the new depth go? into a phi of the result variable
			if bin.Referrers() == nil {
				return
			}
			n++
			key := fnName(f) + "|depth is the maximum over the referenced tables"
			compared := false
			assigned := false
			for _, r := range *bin.Referrers() {
				switch y := r.(type) {
				case *ssa.BinOp:
					if y.Op == token.GTR || y.Op == token.LSS || y.Op == token.GEQ || y.Op == token.LEQ {
						// the other operand must be the running value (a phi)
						other := y.X
						if other == ssa.Value(bin) {
							other = y.Y
						}
						if _, isPhi := other.(*ssa.Phi); isPhi {
							// and the assignment must depend on it
							for _, br := range branchesOn(y) {
								_ = br
								compared = true
							}
						}
					}
				case *ssa.Phi:
					assigned = true
				case *ssa.Store:
					assigned = true
				}
			}
			if !assigned {
				return
			}
			// with a comparison present, the phi that receives the new value must be
			// fed from the branch the comparison controls
			c.Cond(compared, "DEPTH-IS-MAX", key, p.pos(bin.Pos()),
				"the new depth replaces the running depth only after being compared with it",
				"the depth derived from a referenced table is assigned without being compared with the running depth: the table's depth becomes that of the column visited last, and it can be created before a table it refers to")
		})
	}
	c.Counts["depth_updates"] = n
	if n == 0 {
		c.Undecidedf("DEPTH-IS-MAX", "pkg/database", "-", "no depth computation (completed depth of a referenced table + 1) found: unresolved anchor")
	}
}

// c16RecordOnAllPaths: the column writers record the SQL type of every column
// they handle in the map handed to them (foreign-key columns later read the
// type of the column they refer to from it). In every pkg/database function
// that updates a map[string]string parameter, each path from entry to a return
// passes such an update: an early return that skips it leaves later columns
// without a type.
func c16RecordOnAllPaths(c *Check) {
	p := c.P
	n := 0
	for _, f := range p.RepoFuncs() {
		if fnPkgPath(f) != repoMod+"/pkg/database" || f.Parent() != nil || strings.HasSuffix(p.fnFile(f), "_test.go") || len(f.Blocks) == 0 {
			continue
		}
		// a column writer: it is handed the column's type
		handlesColumn := false
		for _, prm := range f.Params {
			if typeIs(prm.Type(), syslPkg, "Type") {
				handlesColumn = true
			}
		}
		if !handlesColumn {
			continue
		}
		for _, prm := range f.Params {
			mt, ok := prm.Type().Underlying().(*types.Map)
			if !ok || !types.Identical(mt.Key(), types.Typ[types.String]) || !types.Identical(mt.Elem(), types.Typ[types.String]) {
				continue
			}
			isUpd := func(i ssa.Instruction) bool {
				mu, ok := i.(*ssa.MapUpdate)
				return ok && unspill(mu.Map) == ssa.Value(prm)
			}
			has := false
			eachInstr(f, func(_ *ssa.BasicBlock, i ssa.Instruction) {
				if isUpd(i) {
					has = true
				}
			})
			if !has {
				continue
			}
			n++
			key := fmt.Sprintf("%s|%s recorded on every path", fnName(f), prm.Name())
			entry := f.Blocks[0].Instrs[0]
			if isUpd(entry) {
				c.Okf("RECORD-ON-ALL-PATHS", key, p.pos(f.Pos()), "recorded first thing")
				continue
			}
			if ret, bad := reachAvoiding(entry, isReturn, isUpd); bad {
				c.Flagf("RECORD-ON-ALL-PATHS", key, p.pos(ret.Pos()), "the return at %s is reachable without recording the column in %s: a foreign-key column that refers to this column later finds no type for it", p.pos(ret.Pos()), prm.Name())
			} else {
				c.Okf("RECORD-ON-ALL-PATHS", key, p.pos(f.Pos()), "every path to a return records the column in %s", prm.Name())
			}
		}
	}
	c.Counts["column_writers_with_type_map"] = n
	if n == 0 {
		c.Undecidedf("RECORD-ON-ALL-PATHS", "pkg/database", "-", "no column writer that records into a map[string]string parameter found: unresolved anchor")
	}
}

// c17RowOnAllPaths: a normaliser that files a row for the construct it is given
// (an append to a relation of the schema) does so on every path on which it
// reports success. A `return nil` that leaves before the append accepts the model
// and silently drops the construct from the relational image.
func c17RowOnAllPaths(c *Check) {
	p := c.P
	n := 0
	var fns []*ssa.Function
	for _, f := range p.RepoFuncs() {
		if fnPkgPath(f) == repoMod+"/pkg/arrai/relmod" && f.Parent() == nil && !strings.HasSuffix(p.fnFile(f), "_test.go") && len(f.Blocks) > 0 {
			fns = append(fns, f)
		}
	}
	sort.Slice(fns, func(i, j int) bool { return fnName(fns[i]) < fnName(fns[j]) })
	for _, f := range fns {
		ei := errorResultIndex(f.Signature)
		if ei < 0 {
			continue
		}
		directRow := func(i ssa.Instruction) bool {
			st, ok := i.(*ssa.Store)
			if !ok || appendCall(st.Val) == nil {
				return false
			}
			own, _, _, ok := fieldOfAddr(st.Addr)
			return ok && own != nil && own.Obj().Name() == "Schema"
		}
		// a loop that files a row per element counts at its header (no element, no
		// row to file); a call of a function of the package that files rows counts too
		loopHeads := map[ssa.Instruction]bool{}
		eachInstr(f, func(b *ssa.BasicBlock, i ssa.Instruction) {
			if !directRow(i) {
				return
			}
			loop := enclosingLoop(b)
			for lb := range loop {
				for _, pr := range lb.Preds {
					if !loop[pr] && len(lb.Instrs) > 0 {
						loopHeads[lb.Instrs[0]] = true
					}
				}
			}
		})
		isRow := func(i ssa.Instruction) bool {
			if directRow(i) || loopHeads[i] {
				return true
			}
			if cl, ok := i.(*ssa.Call); ok {
				if h := cl.Call.StaticCallee(); h != nil && h != f && fnPkgPath(h) == fnPkgPath(f) && len(h.Blocks) > 0 {
					files := false
					for g := range repoReach(p, h) {
						if g == f {
							continue
						}
						eachInstr(g, func(_ *ssa.BasicBlock, j ssa.Instruction) {
							if directRow(j) {
								files = true
							}
						})
					}
					return files
				}
			}
			return false
		}
		// rows filed directly in the entry region (not inside a loop over children)
		var rows []ssa.Instruction
		eachInstr(f, func(b *ssa.BasicBlock, i ssa.Instruction) {
			if directRow(i) && len(enclosingLoop(b)) == 0 {
				rows = append(rows, i)
			}
		})
		if len(rows) == 0 {
			continue
		}
		n++
		isOKReturn := func(i ssa.Instruction) bool {
			ret, ok := i.(*ssa.Return)
			if !ok || ret.Block() == f.Recover {
				return false
			}
			vals, cell := returnValues(ret)
			return !cell[ei] && isNilConst(vals[ei])
		}
		entry := f.Blocks[0].Instrs[0]
		nBad := 0
		for _, b := range f.Blocks {
			ret := b.Instrs[len(b.Instrs)-1]
			if !isOKReturn(ret) {
				continue
			}
			// is this particular return reachable from the entry without a row?
			if _, bad := reachAvoiding(entry, func(i ssa.Instruction) bool { return i == ret }, isRow); !bad || isRow(entry) {
				continue
			}
			nBad++
			// name the return by the test that leads to it (the nearest dominating branch)
			when := "unconditionally"
			for d := b; d != nil; d = d.Idom() {
				if id := d.Idom(); id != nil {
					if iff, ok := id.Instrs[len(id.Instrs)-1].(*ssa.If); ok {
						side := "false"
						if id.Succs[0] == d || id.Succs[0].Dominates(d) {
							side = "true"
						}
						when = "when " + condText(iff.Cond) + " is " + side
						break
					}
				}
			}
			key := fmt.Sprintf("%s|success without a row %s", fnName(f), when)
			c.Flagf("ROW-ON-ALL-PATHS", key, p.pos(ret.Pos()), "this success return is reachable without the append that files the construct's row (%s): the model is accepted and the construct is missing from the relational image", p.pos(rows[0].Pos()))
		}
		if nBad == 0 {
			c.Okf("ROW-ON-ALL-PATHS", fmt.Sprintf("%s|a row is filed on every successful path", fnName(f)), p.pos(rows[0].Pos()), "every path to a nil-error return passes the append of the row")
		}
	}
	c.Counts["row_filing_normalisers"] = n
	if n < 3 {
		c.Undecidedf("ROW-ON-ALL-PATHS", "pkg/arrai/relmod", "-", "expected several normalisers that append a row to the schema, found %d", n)
	}
}

// condText: a short, name-stable description of a branch condition.
func condText(v ssa.Value) string {
	switch x := v.(type) {
	case *ssa.BinOp:
		return operandText(x.X) + " " + x.Op.String() + " " + operandText(x.Y)
	case *ssa.UnOp:
		return x.Op.String() + operandText(x.X)
	}
	return operandText(v)
}

func operandText(v ssa.Value) string {
	v = unspill(v)
	switch x := v.(type) {
	case *ssa.Const:
		if x.Value == nil {
			return "nil"
		}
		return x.Value.ExactString()
	case *ssa.Call:
		if o := calleeObj(x); o != nil {
			return o.Name() + "()"
		}
		return "call"
	case *ssa.Extract:
		return operandText(x.Tuple) + "#" + fmt.Sprint(x.Index)
	}
	if _, fld, _, ok := loadedField(v); ok {
		return "." + fld
	}
	if isErrorType(v.Type()) {
		return "err"
	}
	return "value"
}
