package main

import (
	"fmt"
	"go/token"
	"go/types"
	"sort"
	"strings"

	"golang.org/x/tools/go/ssa"
)

// FRESH-BUFFER
//
// Several generators accumulate their output in a strings.Builder / bytes.Buffer
// held in a field of a long-lived view object and return `field.String()`. The
// result is "the output of this call" only if the buffer was empty when the call
// started. The rule: at every call of such a function, on every path from the
// caller's entry, the buffer was emptied (Reset on the same object's field) or
// the object was created by a constructor after the last call that wrote to the
// buffer — forward must-analysis over the caller's CFG, so a call repeated in a
// loop needs its freshener inside the loop. A caller whose entry path is not
// fresh and whose object is its own parameter inherits the obligation (its call
// sites are checked instead).

type bufField struct {
	owner *types.Named
	field string
}

type bufFn struct {
	fn    *ssa.Function
	param int // index into fn.Params of the object that holds the buffer
	bf    bufField
}

func isBufferType(t types.Type) bool {
	if p, ok := t.Underlying().(*types.Pointer); ok {
		t = p.Elem()
	}
	return typeIs(t, "strings", "Builder") || typeIs(t, "bytes", "Buffer")
}

// bufferOf: v is (a load of) a buffer field of some object; returns the field
// and the object value.
func bufferOf(v ssa.Value) (bufField, ssa.Value, bool) {
	v = unspill(v)
	// &obj.buf (value field) or *(&obj.buf) (pointer field)
	if fa, ok := v.(*ssa.FieldAddr); ok && isBufferType(fa.Type()) {
		if own, fld, base, ok := fieldOfAddr(fa); ok && own != nil {
			return bufField{own, fld}, base, true
		}
	}
	if own, fld, base, ok := loadedField(v); ok && own != nil && isBufferType(v.Type()) {
		return bufField{own, fld}, base, true
	}
	return bufField{}, nil, false
}

func objParamIndex(f *ssa.Function, v ssa.Value) int {
	v = unspill(v)
	for {
		switch x := v.(type) {
		case *ssa.UnOp:
			if x.Op == token.MUL {
				v = unspill(x.X)
				continue
			}
		case *ssa.FieldAddr:
			// an embedded view: &outer.inner
			v = unspill(x.X)
			continue
		}
		break
	}
	for i, prm := range f.Params {
		if prm == v {
			return i
		}
	}
	return -1
}

// bufMethodCall: a method call on a buffer; returns the method name, the buffer
// field and the object.
func bufMethodCall(i ssa.Instruction) (string, bufField, ssa.Value, bool) {
	ci, ok := i.(ssa.CallInstruction)
	if !ok {
		return "", bufField{}, nil, false
	}
	o := calleeObj(ci)
	if o == nil || o.Pkg() == nil || len(ci.Common().Args) == 0 {
		return "", bufField{}, nil, false
	}
	if rt := recvType(o); rt == nil || !isBufferType(rt) {
		return "", bufField{}, nil, false
	}
	bf, base, ok := bufferOf(ci.Common().Args[0])
	if !ok {
		return "", bufField{}, nil, false
	}
	return o.Name(), bf, base, true
}

func freshBuffers(c *Check, rule string, inScope func(*ssa.Function) bool) int {
	p := c.P
	// 1. direct writers of each buffer field, and functions returning its content
	writers := map[bufField]map[*ssa.Function]bool{}
	var G []bufFn
	inG := map[*ssa.Function]bool{}
	for _, f := range p.RepoFuncs() {
		if p.isGeneratedFile(p.fnFile(f)) {
			continue
		}
		eachInstr(f, func(_ *ssa.BasicBlock, i ssa.Instruction) {
			name, bf, _, ok := bufMethodCall(i)
			if ok {
				switch name {
				case "String", "Len", "Reset", "Cap", "Bytes":
				default:
					if writers[bf] == nil {
						writers[bf] = map[*ssa.Function]bool{}
					}
					writers[bf][f] = true
				}
			}
			// the buffer handed to fmt.Fprint* / io.WriteString as the writer
			if ci, isCall := i.(ssa.CallInstruction); isCall && !ok {
				if o := calleeObj(ci); o != nil && o.Pkg() != nil && (o.Pkg().Path() == "fmt" || o.Pkg().Path() == "io") && len(ci.Common().Args) > 0 {
					a := ci.Common().Args[0]
					if mi, isMI := a.(*ssa.MakeInterface); isMI {
						a = mi.X
					}
					if bf, _, ok := bufferOf(a); ok {
						if writers[bf] == nil {
							writers[bf] = map[*ssa.Function]bool{}
						}
						writers[bf][f] = true
					}
				}
			}
		})
		for _, b := range f.Blocks {
			ret, ok := b.Instrs[len(b.Instrs)-1].(*ssa.Return)
			if !ok {
				continue
			}
			vals, _ := returnValues(ret)
			for _, v := range vals {
				call, ok := v.(*ssa.Call)
				if !ok {
					continue
				}
				name, bf, base, ok := bufMethodCall(call)
				if !ok || name != "String" {
					continue
				}
				if pi := objParamIndex(f, base); pi >= 0 && !inG[f] {
					inG[f] = true
					G = append(G, bufFn{f, pi, bf})
				}
			}
		}
	}
	// functions that can reach a writer of the field
	canWrite := map[bufField]map[*ssa.Function]bool{}
	for bf, ws := range writers {
		canWrite[bf] = map[*ssa.Function]bool{}
		for _, f := range p.RepoFuncs() {
			for g := range repoReach(p, f) {
				if ws[g] {
					canWrite[bf][f] = true
					break
				}
			}
		}
	}
	// a constructor: a repository function that returns a newly allocated owner
	isCtor := func(v ssa.Value, bf bufField) bool {
		call, ok := unspill(v).(*ssa.Call)
		if !ok {
			return false
		}
		sc := normFn(p, call.Call.StaticCallee())
		if sc == nil || !isRepoFn(sc) || len(sc.Blocks) == 0 {
			return false
		}
		fresh := false
		eachInstr(sc, func(_ *ssa.BasicBlock, i ssa.Instruction) {
			if al, ok := i.(*ssa.Alloc); ok && al.Heap {
				if n := namedOf(al.Type().Underlying().(*types.Pointer).Elem()); n == bf.owner {
					fresh = true
				}
			}
		})
		return fresh
	}
	n := 0
	emit := false
	var pass func() bool
	pass = func() bool {
		grew := false
		for k := 0; k < len(G); k++ {
			g := G[k]
			type site struct {
				f  *ssa.Function
				ci ssa.CallInstruction
			}
			var sites []site
			for _, f := range p.RepoFuncs() {
				if p.isGeneratedFile(p.fnFile(f)) {
					continue
				}
				eachCall(f, func(ci ssa.CallInstruction) {
					if normFn(p, ci.Common().StaticCallee()) == g.fn {
						sites = append(sites, site{f, ci})
					}
				})
			}
			sort.Slice(sites, func(i, j int) bool { return p.pos(sites[i].ci.Pos()) < p.pos(sites[j].ci.Pos()) })
			for _, s := range sites {
				f := s.f
				if g.param >= len(s.ci.Common().Args) {
					continue
				}
				obj := s.ci.Common().Args[g.param]
				objKey := exprKey(obj, 0)
				sameObj := func(v ssa.Value) bool { return v != nil && exprKey(v, 0) == objKey }
				fresh := func(i ssa.Instruction) bool {
					if freshensBuffer(i, g.bf, sameObj) {
						return true
					}
					// a helper method of the object that empties or replaces the buffer
					if ci, ok := i.(ssa.CallInstruction); ok {
						if _, isDefer := i.(*ssa.Defer); !isDefer {
							if h := normFn(p, ci.Common().StaticCallee()); h != nil && isRepoFn(h) && len(h.Blocks) > 0 && len(h.Blocks) <= 8 {
								for ai, a := range ci.Common().Args {
									if sameObj(a) && ai < len(h.Params) && helperFreshens(h, h.Params[ai], g.bf) {
										return true
									}
								}
							}
						}
					}
					if v, ok := i.(ssa.Value); ok && v == unspill(obj) && isCtor(v, g.bf) {
						return true
					}
					// obj = ctor(); spilled into a cell
					if st, ok := i.(*ssa.Store); ok && isCtor(st.Val, g.bf) {
						if u, ok := obj.(*ssa.UnOp); ok && u.Op == token.MUL && u.X == st.Addr {
							return true
						}
					}
					return false
				}
				// a completed generation: a call of a function that returns the buffer's
				// content (this call included); what the caller itself writes between the
				// freshener and the call belongs to this generation
				dirty := func(i ssa.Instruction) bool {
					ci, ok := i.(ssa.CallInstruction)
					if !ok {
						return false
					}
					if _, isDefer := i.(*ssa.Defer); isDefer {
						return false
					}
					callee := normFn(p, ci.Common().StaticCallee())
					if callee == nil || !inG[callee] {
						return false
					}
					for _, a := range ci.Common().Args {
						if sameObj(a) {
							return true
						}
					}
					return false
				}
				hs := mustHold(f, fresh, dirty)
				key := fmt.Sprintf("%s|%s starts from an empty %s.%s", fnName(f), fnName(g.fn), g.bf.owner.Obj().Name(), g.bf.field)
				if !inScope(f) && !inScope(g.fn) {
					continue
				}
				if emit {
					n++
				}
				if hs.At(s.ci) {
					if emit {
						c.Okf(rule, key, p.pos(s.ci.Pos()), "on every path to this call the buffer was reset, or its owner newly constructed, after the last call that returned its content")
					}
					continue
				}
				// the caller hands on its own parameter and returns the result, or relies
				// on its own caller: the obligation moves to the caller's call sites
				if pi := objParamIndex(f, obj); pi >= 0 && f.Parent() == nil {
					anyDirtyBefore := false
					eachInstr(f, func(_ *ssa.BasicBlock, i ssa.Instruction) {
						if dirty(i) && i != s.ci.(ssa.Instruction) && canReach(i, s.ci, fresh) {
							anyDirtyBefore = true
						}
					})
					loops := canReach(s.ci, s.ci, fresh)
					if !anyDirtyBefore && !loops {
						if emit {
							c.Okf(rule, key, p.pos(s.ci.Pos()), "the buffer is that of the caller's own parameter and no generation completes before this call: the caller's call sites carry the obligation")
						}
						if !inG[f] {
							inG[f] = true
							grew = true
							G = append(G, bufFn{f, pi, g.bf})
						}
						continue
					}
				}
				if emit {
					c.Flagf(rule, key, p.pos(s.ci.Pos()), "%s returns the whole content of %s.%s, and a path reaches this call on which the buffer still holds what an earlier call wrote (no Reset, no new %s since the earlier call returned it): the output of this call is prefixed with the earlier output",
						fnName(g.fn), g.bf.owner.Obj().Name(), g.bf.field, g.bf.owner.Obj().Name())
				}
			}
		}
		return grew
	}
	for pass() {
	}
	emit = true
	pass()
	return n
}

// freshensBuffer: i empties the buffer field bf of the object accepted by
// sameObj — Reset, or the assignment of a newly created buffer to the field.
func freshensBuffer(i ssa.Instruction, bf bufField, sameObj func(ssa.Value) bool) bool {
	if name, f2, base, ok := bufMethodCall(i); ok && name == "Reset" && f2 == bf && sameObj(base) {
		return true
	}
	st, ok := i.(*ssa.Store)
	if !ok {
		return false
	}
	own, fld, base, ok := fieldOfAddr(st.Addr)
	if !ok || own != bf.owner || fld != bf.field || !sameObj(base) {
		return false
	}
	switch v := st.Val.(type) {
	case *ssa.Alloc:
		return true // &strings.Builder{} / new(bytes.Buffer)
	case *ssa.UnOp:
		// a zero value: *new(T) with no store into it
		if al, ok := v.X.(*ssa.Alloc); ok && v.Op == token.MUL {
			for _, r := range *al.Referrers() {
				if _, isStore := r.(*ssa.Store); isStore {
					return false
				}
			}
			return true
		}
	case *ssa.Call:
		if o := calleeObj(v); o != nil && o.Pkg() != nil && (o.Pkg().Path() == "bytes" || o.Pkg().Path() == "strings") && strings.HasPrefix(o.Name(), "New") {
			return len(v.Call.Args) == 0
		}
	}
	return false
}

// helperFreshens: every path through h empties the buffer field of its
// parameter obj.
func helperFreshens(h *ssa.Function, obj *ssa.Parameter, bf bufField) bool {
	same := func(v ssa.Value) bool { return unspill(v) == ssa.Value(obj) }
	hs := mustHold(h, func(i ssa.Instruction) bool { return freshensBuffer(i, bf, same) }, func(ssa.Instruction) bool { return false })
	n := 0
	for _, b := range h.Blocks {
		if ret, ok := b.Instrs[len(b.Instrs)-1].(*ssa.Return); ok && b != h.Recover {
			n++
			if !hs.At(ret) {
				return false
			}
		}
	}
	return n > 0
}
