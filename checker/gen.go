package main

import (
	"fmt"
	"go/ast"
	"go/constant"
	"go/token"
	"go/types"
	"sort"
	"strings"

	"golang.org/x/tools/go/callgraph"
	"golang.org/x/tools/go/ssa"
)

// Generic driver for the generator properties (C11–C17): the shared engines
// over the functions reachable from the property's library entry points.

type genOpts struct {
	entries []*ssa.Function
	order   bool
	guard   bool
	deref   bool
	rec     bool
	modelRO bool // the generator must not write into the model it is handed
}

func reachSet(p *Program, entries []*ssa.Function) map[*ssa.Function]bool {
	r := reachable(p.CallGraph(), entries, func(e *callgraph.Edge) bool { return false })
	in := map[*ssa.Function]bool{}
	for f := range r {
		if isRepoFn(f) {
			in[f] = true
			for _, a := range withClosures(f) {
				in[a] = true
			}
		}
	}
	return in
}

func runGenEngines(c *Check, o genOpts) map[*ssa.Function]bool {
	p := c.P
	in := reachSet(p, o.entries)
	c.Counts["entry_points"] = len(o.entries)
	c.Counts["reachable_repo_functions"] = len(in)
	var names []string
	for _, e := range o.entries {
		names = append(names, fnName(e))
	}
	sort.Strings(names)
	c.Notes = append(c.Notes, "entries: "+strings.Join(names, ", "))
	var res *guardResult
	if o.guard {
		res = runGuard(p, o.entries)
		reportGuard(c, "UNGUARDED-SITE", res)
	}
	if o.rec {
		runRec(c, "RECURSION", o.entries, nil)
	}
	if o.deref {
		runDeref(c, "UNCHECKED-LOOKUP", o.entries, res, nil)
	}
	nLost := lostUpdates(c, "LOST-UPDATE", in)
	c.Counts["copied_element_updates"] = nLost
	c.Okf("LOST-UPDATE", "scan", "-", "%d reachable repository functions scanned for field writes on copies of container elements: %d found and evaluated", len(in), nLost)
	c.Counts["memo_entries_filed"] = memoOnFailure(c, "MEMO-ON-FAILURE", in)
	c.Okf("MEMO-ON-FAILURE", "scan", "-", "%d reachable repository functions scanned for look-up-or-compute tables filled by functions that can fail: %d entries filed, each evaluated", len(in), c.Counts["memo_entries_filed"])
	nMemo := memoKeys(c, "MEMO-KEY", in)
	c.Counts["memo_tables"] = nMemo
	c.Okf("MEMO-KEY", "scan", "-", "%d reachable repository functions scanned for look-up-or-compute tables: %d found and evaluated", len(in), nMemo)
	nCnt := counterPairs(c, "COUNTER-PAIR", in) + saturatingCounters(c, "COUNTER-PAIR", in)
	c.Counts["counter_entry_deletes"] = nCnt
	c.Okf("COUNTER-PAIR", "scan", "-", "%d reachable repository functions scanned for deletes from per-key nesting counters: %d found and evaluated", len(in), nCnt)
	c.Counts["short_circuited_calls_in_loops"] = skippedEffects(c, "SKIPPED-EFFECT", in)
	c.Okf("SKIPPED-EFFECT", "scan", "-", "%d reachable repository functions scanned for `flag = flag || f(x)` in loops: %d found and evaluated", len(in), c.Counts["short_circuited_calls_in_loops"])
	c.Counts["block_walkers"] = blockKindsAgree(c, "BLOCK-KINDS", in)
	c.Okf("BLOCK-KINDS", "scan", "-", "%d reachable repository functions scanned for functions that distinguish two or more block kinds: %d found and evaluated", len(in), c.Counts["block_walkers"])
	c.Counts["goroutines_started_in_loops"] = goroutineLoopVars(c, "GOROUTINE-LOOPVAR", in)
	c.Okf("GOROUTINE-LOOPVAR", "scan", "-", "%d reachable repository functions scanned for goroutines started in loops: %d found and evaluated", len(in), c.Counts["goroutines_started_in_loops"])
	// errors of the generator's own functions (same packages as its entry points)
	// are returned or tested with a failing branch: a nested failure that is logged
	// and skipped leaves partial output behind a success
	{
		pk := map[string]bool{}
		for _, e := range o.entries {
			pk[fnPkgPath(e)] = true
		}
		pk[repoMod+"/pkg/cmdutils"] = true // the visitors, labelers and writers the diagram generators share
		var own []*ssa.Function
		for f := range in {
			if pk[fnPkgPath(f)] && !p.isGeneratedFile(p.fnFile(f)) {
				own = append(own, f)
			}
		}
		sort.Slice(own, func(i, j int) bool { return fnName(own[i]) < fnName(own[j]) })
		if o.modelRO {
			c.Counts["model_writes"] = modelWrites(c, "MODEL-READ-ONLY", own)
			c.Okf("MODEL-READ-ONLY", "scan", "-", "%d functions of the generator's packages scanned for writes into model objects they did not create: %d found", len(own), c.Counts["model_writes"])
		}
		c.Counts["generator_error_calls"] = errFlow(c, "ERR-FLOW", own, true)
		c.Okf("ERR-FLOW", "scan", "-", "%d functions of the generator's packages scanned for calls of repository functions that return an error: %d found and judged", len(own), c.Counts["generator_error_calls"])
	}
	nDead := deadErrors(c, "DEAD-ERROR", in)
	c.Counts["dead_error_assignments"] = nDead
	c.Okf("DEAD-ERROR", "scan", "-", "%d reachable repository functions scanned for error results bound to a variable that is never read: %d found", len(in), nDead)
	if o.order {
		e := newOrderEngine(p)
		runOrder(c, "MAP-ORDER", e, func(f *ssa.Function) bool { return in[f] })
		nondetSources(c, "NONDET-SOURCE", func(f *ssa.Function) bool { return in[f] })
	}
	return in
}

// funcsNamed returns repo functions by stable names; missing names are reported.
func funcsNamed(c *Check, names ...string) []*ssa.Function {
	var out []*ssa.Function
	for _, n := range names {
		f := c.P.FuncByName(n)
		if f == nil {
			c.Undecidedf("ANCHOR", n, "-", "entry point %s not found: unresolved anchor", n)
			continue
		}
		out = append(out, f)
	}
	return out
}

// methodsOfType returns all methods of pkg.Type (value and pointer receivers).
func methodsOfType(p *Program, pkg, typ string) []*ssa.Function {
	pk := p.Pkg(pkg)
	if pk == nil {
		return nil
	}
	obj, _ := pk.Types.Scope().Lookup(typ).(*types.TypeName)
	if obj == nil {
		return nil
	}
	n, _ := obj.Type().(*types.Named)
	if n == nil {
		return nil
	}
	var out []*ssa.Function
	for _, m := range p.methodsOf(n) {
		out = append(out, withClosures(m)...)
	}
	return out
}

// ---- R-PAIR helpers ------------------------------------------------------------------

// isSuccessReturn: a return whose error result is the nil constant (or that
// has no error result).
func isSuccessReturn(i ssa.Instruction) bool {
	r, ok := i.(*ssa.Return)
	if !ok {
		return false
	}
	for _, res := range r.Results {
		if isErrorType(res.Type()) && !isNilConst(res) {
			return false
		}
	}
	return true
}

func methodCallNamed(i ssa.Instruction, pkgPath, typ, name string) bool {
	cl, ok := i.(ssa.CallInstruction)
	if !ok {
		return false
	}
	if _, isDefer := i.(*ssa.Defer); isDefer {
		return false
	}
	return callIs(cl, pkgPath, typ+"."+name)
}

// pairOnSuccessPaths: after every `open`, each path to a success return passes `close`.
func pairOnSuccessPaths(c *Check, rule string, fns []*ssa.Function, what string, open, close func(ssa.Instruction) bool) int {
	p := c.P
	n := 0
	for _, f := range fns {
		eachInstr(f, func(_ *ssa.BasicBlock, i ssa.Instruction) {
			if !open(i) {
				return
			}
			n++
			key := fmt.Sprintf("%s|%s", fnName(f), what)
			if ret, bad := reachAvoiding(i, isSuccessReturn, close); bad {
				c.Flagf(rule, key, p.pos(i.Pos()), "a success path reaches the return at %s without the matching close: %s stays unbalanced in the emitted diagram", p.pos(ret.Pos()), what)
			} else {
				c.Okf(rule, key, p.pos(i.Pos()), "every success path from the open passes the matching close")
			}
		})
	}
	return n
}

// lockPairs: for every non-deferred sync Lock/RLock call in fns, each path to a
// return passes the matching Unlock on the same mutex expression (or a deferred
// Unlock is registered). A lock left held on one exit blocks every later
// acquirer: the compile never terminates.
func lockPairs(c *Check, rule string, fns map[*ssa.Function]bool) int {
	p := c.P
	n := 0
	var list []*ssa.Function
	for f := range fns {
		list = append(list, f)
	}
	sort.Slice(list, func(i, j int) bool { return fnName(list[i]) < fnName(list[j]) })
	mutexCall := func(i ssa.Instruction, names ...string) (string, bool) {
		cl, ok := i.(ssa.CallInstruction)
		if !ok {
			return "", false
		}
		o := calleeObj(cl)
		if o == nil || o.Pkg() == nil || o.Pkg().Path() != "sync" || len(cl.Common().Args) == 0 {
			return "", false
		}
		for _, nm := range names {
			if o.Name() == nm {
				return exprKey(cl.Common().Args[0], 0), true
			}
		}
		return "", false
	}
	for _, f := range list {
		if p.isGeneratedFile(p.fnFile(f)) {
			continue
		}
		eachInstr(f, func(_ *ssa.BasicBlock, i ssa.Instruction) {
			if _, isDefer := i.(*ssa.Defer); isDefer {
				return
			}
			mu, ok := mutexCall(i, "Lock", "RLock")
			if !ok {
				return
			}
			n++
			key := fmt.Sprintf("%s|lock %s released on all paths", fnName(f), clipKey(mu))
			deferred := false
			eachInstr(f, func(_ *ssa.BasicBlock, j ssa.Instruction) {
				if d, isDefer := j.(*ssa.Defer); isDefer {
					if m2, ok := mutexCall(d, "Unlock", "RUnlock"); ok && m2 == mu {
						deferred = true
					}
				}
			})
			if deferred {
				c.Okf(rule, key, p.pos(i.Pos()), "a deferred unlock of the same mutex covers every exit")
				return
			}
			off := func(j ssa.Instruction) bool {
				if _, isDefer := j.(*ssa.Defer); isDefer {
					return false
				}
				m2, ok := mutexCall(j, "Unlock", "RUnlock")
				return ok && m2 == mu
			}
			if ret, bad := reachAvoiding(i, isReturn, off); bad {
				c.Flagf(rule, key, p.pos(i.Pos()), "a path from this lock reaches the return at %s without unlocking: every later acquirer blocks forever and the command never ends", p.pos(ret.Pos()))
			} else {
				c.Okf(rule, key, p.pos(i.Pos()), "every path from the lock to a return passes the unlock of the same mutex")
			}
		})
	}
	return n
}

// ---- blocking resources: channel tokens and mutexes ------------------------------

// resKey identifies a blocking resource by the struct field that holds it
// (owner type + field), so that the same semaphore is recognised through a
// parameter in one function and a captured variable in a closure.
func resKey(v ssa.Value) string {
	v = unspill(v)
	if g, ok := loadsGlobal(v); ok && g.Pkg != nil {
		return shortPkg(g.Pkg.Pkg.Path()) + "." + g.Name()
	}
	if own, fld, _, ok := loadedField(v); ok && own != nil {
		return own.Obj().Name() + "." + fld
	}
	if own, fld, _, ok := fieldOfAddr(v); ok && own != nil {
		return own.Obj().Name() + "." + fld
	}
	return exprKey(v, 0)
}

type acquisition struct {
	ins  ssa.Instruction
	key  string
	kind string // "token" (channel send) | "lock"
}

func acquisitionsIn(f *ssa.Function) []acquisition {
	var out []acquisition
	eachInstr(f, func(_ *ssa.BasicBlock, i ssa.Instruction) {
		switch x := i.(type) {
		case *ssa.Send:
			// a semaphore: a channel kept in a struct field or in a package variable
			// (a channel created locally is a rendezvous, decided elsewhere)
			if _, _, _, isField := loadedField(unspill(x.Chan)); isField {
				out = append(out, acquisition{i, resKey(x.Chan), "token"})
			} else if g, isGlobal := loadsGlobal(unspill(x.Chan)); isGlobal && g.Pkg != nil && isRepoPkg(g.Pkg.Pkg) {
				out = append(out, acquisition{i, resKey(x.Chan), "token"})
			}
		case *ssa.Call:
			if o := calleeObj(x); o != nil && o.Pkg() != nil && o.Pkg().Path() == "sync" && (o.Name() == "Lock" || o.Name() == "RLock") && len(x.Call.Args) > 0 {
				out = append(out, acquisition{i, resKey(x.Call.Args[0]), "lock"})
			}
		}
	})
	return out
}

func isRelease(i ssa.Instruction, a acquisition) bool {
	switch x := i.(type) {
	case *ssa.UnOp:
		return a.kind == "token" && x.Op == token.ARROW && resKey(x.X) == a.key
	case *ssa.Call:
		if a.kind == "lock" {
			if o := calleeObj(x); o != nil && o.Pkg() != nil && o.Pkg().Path() == "sync" && (o.Name() == "Unlock" || o.Name() == "RUnlock") && len(x.Call.Args) > 0 {
				return resKey(x.Call.Args[0]) == a.key
			}
		}
	}
	return false
}

// deferredRelease: a defer registered in f (before or after the acquisition —
// it runs at function exit) whose callee, or closure body, releases a.
func deferredRelease(f *ssa.Function, a acquisition) bool {
	found := false
	eachInstr(f, func(_ *ssa.BasicBlock, i ssa.Instruction) {
		d, ok := i.(*ssa.Defer)
		if !ok {
			return
		}
		if a.kind == "lock" {
			if o := calleeObj(d); o != nil && o.Pkg() != nil && o.Pkg().Path() == "sync" && (o.Name() == "Unlock" || o.Name() == "RUnlock") && len(d.Call.Args) > 0 && resKey(d.Call.Args[0]) == a.key {
				found = true
			}
		}
		var body *ssa.Function
		if mc, ok := d.Call.Value.(*ssa.MakeClosure); ok {
			body, _ = mc.Fn.(*ssa.Function)
		} else if fn, ok := d.Call.Value.(*ssa.Function); ok && fn.Parent() != nil {
			body = fn // a function literal that captures nothing
		}
		if body != nil {
			eachInstr(body, func(_ *ssa.BasicBlock, j ssa.Instruction) {
				if isRelease(j, a) {
					found = true
				}
			})
		}
	})
	return found
}

// repoReach: repository functions reachable from f through static calls and
// through every closure created along the way (closures handed to go, defer,
// errgroup.Go … are assumed to run).
func repoReach(p *Program, f *ssa.Function) map[*ssa.Function]bool {
	seen := map[*ssa.Function]bool{}
	var visit func(g *ssa.Function)
	visit = func(g *ssa.Function) {
		if g == nil || seen[g] || len(g.Blocks) == 0 || !isRepoFn(g) {
			return
		}
		seen[g] = true
		eachInstr(g, func(_ *ssa.BasicBlock, i ssa.Instruction) {
			if ci, ok := i.(ssa.CallInstruction); ok {
				visit(normFn(p, ci.Common().StaticCallee()))
			}
			if mc, ok := i.(*ssa.MakeClosure); ok {
				if fn, ok := mc.Fn.(*ssa.Function); ok {
					visit(fn)
				}
			}
		})
	}
	visit(f)
	return seen
}

// blockingResources checks, for every channel-token send and mutex lock in fns:
//
//	pairRule: every path from the acquisition to a return passes the release (or
//	          a deferred release exists) — a token or lock leaked on one exit
//	          starves every later acquirer;
//	holdRule: while it is held, no call can reach another acquisition of the
//	          same resource — a recursive walk that keeps its token while it
//	          waits for its children deadlocks once the nesting exceeds the
//	          capacity (for a mutex: at once).
func blockingResources(c *Check, pairRule, holdRule string, fns map[*ssa.Function]bool) int {
	p := c.P
	var list []*ssa.Function
	for f := range fns {
		list = append(list, f)
	}
	sort.Slice(list, func(i, j int) bool { return fnName(list[i]) < fnName(list[j]) })
	n := 0
	for _, f := range list {
		if p.isGeneratedFile(p.fnFile(f)) {
			continue
		}
		for _, a := range acquisitionsIn(f) {
			n++
			what := map[string]string{"token": "token taken from " + a.key, "lock": "lock on " + a.key}[a.kind]
			deferred := deferredRelease(f, a)
			if pairRule != "" {
				key := fmt.Sprintf("%s|%s released on all paths", fnName(f), what)
				if deferred {
					c.Okf(pairRule, key, p.pos(a.ins.Pos()), "a deferred release covers every exit")
				} else if ret, bad := reachAvoiding(a.ins, isReturn, func(j ssa.Instruction) bool { return isRelease(j, a) }); bad {
					c.Flagf(pairRule, key, p.pos(a.ins.Pos()), "a path from here reaches the return at %s without giving the %s back: later acquirers block forever and the command never ends", p.pos(ret.Pos()), a.kind)
				} else {
					c.Okf(pairRule, key, p.pos(a.ins.Pos()), "every path to a return passes the release")
				}
			}
			if holdRule != "" {
				key := fmt.Sprintf("%s|%s not held across a nested acquisition", fnName(f), what)
				bad := ""
				// calls reachable from the acquisition before a release (all later calls when the release is deferred)
				eachInstr(f, func(_ *ssa.BasicBlock, j ssa.Instruction) {
					if bad != "" || j == a.ins {
						return
					}
					ci, ok := j.(ssa.CallInstruction)
					if !ok {
						return
					}
					if _, isDefer := j.(*ssa.Defer); isDefer {
						return
					}
					callee := normFn(p, ci.Common().StaticCallee())
					var targets []*ssa.Function
					if callee != nil && isRepoFn(callee) {
						targets = append(targets, callee)
					}
					for _, arg := range ci.Common().Args { // closures handed to the callee
						if fn, ok := stripFuncValue(arg); ok {
							targets = append(targets, fn)
						}
					}
					if len(targets) == 0 {
						return
					}
					held := false
					if deferred {
						held = canReach(a.ins, j, nil)
					} else {
						held = canReach(a.ins, j, func(k ssa.Instruction) bool { return isRelease(k, a) })
					}
					if !held {
						return
					}
					for _, tg := range targets {
						for g := range repoReach(p, tg) {
							for _, b := range acquisitionsIn(g) {
								if b.key == a.key && b.kind == a.kind {
									bad = fmt.Sprintf("the call at %s runs while it is held and reaches %s, which acquires it again at %s", p.pos(j.Pos()), fnName(g), p.pos(b.ins.Pos()))
								}
							}
						}
					}
				})
				c.Cond(bad == "", holdRule, key, p.pos(a.ins.Pos()),
					"no call made while it is held can reach another acquisition of the same resource",
					"nested acquisition while held: "+bad+" — the walk deadlocks once its nesting exceeds the capacity")
			}
		}
	}
	return n
}

func clipKey(s string) string {
	if len(s) > 40 {
		return s[:40]
	}
	return s
}

var _ = token.NoPos

// lostUpdates: a struct value copied out of a map or slice (`e, ok := m[k]`,
// `for _, e := range xs`) is a copy: a field written on the copy and never read
// again, nor stored back, is an update that is lost — the container keeps the
// old value. (In the data-model diagram the per-target relationship counters
// are kept this way.)
func lostUpdates(c *Check, rule string, in map[*ssa.Function]bool) int {
	p := c.P
	var list []*ssa.Function
	for f := range in {
		list = append(list, f)
	}
	sort.Slice(list, func(i, j int) bool { return fnName(list[i]) < fnName(list[j]) })
	n := 0
	for _, f := range list {
		if p.isGeneratedFile(p.fnFile(f)) || strings.HasSuffix(p.fnFile(f), "_test.go") {
			continue
		}
		eachInstr(f, func(_ *ssa.BasicBlock, i ssa.Instruction) {
			al, ok := i.(*ssa.Alloc)
			if !ok || al.Heap || al.Referrers() == nil {
				return
			}
			if _, isStruct := al.Type().(*types.Pointer).Elem().Underlying().(*types.Struct); !isStruct {
				return
			}
			// initialised from an element of a container?
			fromElem := false
			var fieldStores []*ssa.Store
			var reads []ssa.Instruction
			for _, r := range *al.Referrers() {
				switch x := r.(type) {
				case *ssa.Store:
					if x.Addr == ssa.Value(al) {
						if derives(x.Val, func(v ssa.Value) bool {
							switch v.(type) {
							case *ssa.Lookup, *ssa.Next:
								return true
							case *ssa.IndexAddr:
								return true
							}
							return false
						}, nil) {
							fromElem = true
						}
					} else {
						reads = append(reads, r) // the struct value stored elsewhere: escapes as a value
					}
				case *ssa.UnOp:
					reads = append(reads, r)
				case *ssa.FieldAddr:
					if x.Referrers() != nil {
						for _, r2 := range *x.Referrers() {
							if st, ok := r2.(*ssa.Store); ok && st.Addr == ssa.Value(x) {
								fieldStores = append(fieldStores, st)
							} else {
								reads = append(reads, r2)
							}
						}
					}
				default:
					reads = append(reads, r) // address taken, call argument…: assume read
				}
			}
			if !fromElem || len(fieldStores) == 0 {
				return
			}
			for _, st := range fieldStores {
				n++
				_, fld, _, _ := fieldOfAddr(st.Addr)
				key := fmt.Sprintf("%s|update of copied element .%s is kept", fnName(f), fld)
				used := false
				for _, rd := range reads {
					if rd == ssa.Instruction(st) {
						continue
					}
					if canReach(st, rd, nil) {
						used = true
					}
				}
				c.Cond(used, rule, key, p.pos(st.Pos()),
					"the modified copy is read or stored back afterwards",
					fmt.Sprintf("field %s is written on a copy of a container element and the copy is never read or stored back: the update is lost (the container keeps the old value)", fld))
			}
		})
	}
	return n
}

// memoKeys: a memo table answers from the table when the key was seen before.
// That is only right when the key carries everything the remembered value was
// computed from. For every function that returns a looked-up map element on
// the hit path and files a computed value under the same key on the miss path,
// the parameters the stored value depends on must all be among those the key
// depends on; otherwise a later call with the same key and another context gets
// the first caller's answer.
func memoKeys(c *Check, rule string, in map[*ssa.Function]bool) int {
	p := c.P
	var list []*ssa.Function
	for f := range in {
		list = append(list, f)
	}
	sort.Slice(list, func(i, j int) bool { return fnName(list[i]) < fnName(list[j]) })
	n := 0
	for _, f := range list {
		if p.isGeneratedFile(p.fnFile(f)) || strings.HasSuffix(p.fnFile(f), "_test.go") {
			continue
		}
		var lookups []*ssa.Lookup
		var updates []*ssa.MapUpdate
		eachInstr(f, func(_ *ssa.BasicBlock, i ssa.Instruction) {
			switch x := i.(type) {
			case *ssa.Lookup:
				if _, isMap := x.X.Type().Underlying().(*types.Map); isMap && x.CommaOk {
					lookups = append(lookups, x)
				}
			case *ssa.MapUpdate:
				updates = append(updates, x)
			}
		})
		for _, lk := range lookups {
			// hit path returns the element
			returned := false
			if lk.Referrers() != nil {
				for _, r := range *lk.Referrers() {
					ex, ok := r.(*ssa.Extract)
					if !ok || ex.Index != 0 || ex.Referrers() == nil {
						continue
					}
					for _, r2 := range *ex.Referrers() {
						switch y := r2.(type) {
						case *ssa.Return:
							returned = true
						case *ssa.Store: // copied into the named result / a local then returned
							if _, isAl := y.Addr.(*ssa.Alloc); isAl {
								returned = true
							}
						}
					}
				}
			}
			if !returned {
				continue
			}
			for _, mu := range updates {
				if exprKey(mu.Map, 0) != exprKey(lk.X, 0) || exprKey(mu.Key, 0) != exprKey(lk.Index, 0) {
					continue
				}
				if _, isParam := unspill(mu.Value).(*ssa.Parameter); isParam {
					continue // put-if-absent of a value the caller hands in: a container operation, nothing is computed here
				}
				n++
				key := fmt.Sprintf("%s|memo key carries what the entry depends on", fnName(f))
				dk := paramDeps(mu.Key)
				dm := paramDeps(mu.Map)
				var missing []string
				for prm := range paramDeps(mu.Value) {
					if !dk[prm] && !dm[prm] {
						missing = append(missing, prm.Name())
					}
				}
				sort.Strings(missing)
				c.Cond(len(missing) == 0, rule, key, p.pos(mu.Pos()),
					"every parameter the remembered value is computed from also determines its key",
					fmt.Sprintf("the value remembered here is computed from parameter(s) %s, which the key does not depend on: a later call with the same key and a different %s is answered with the first caller's value", strings.Join(missing, ", "), strings.Join(missing, "/")))
			}
		}
	}
	return n
}

// paramDeps: the parameters (and captured variables) v depends on by data flow,
// through loads, selections, arithmetic, look-ups, calls (arguments) and the
// fields of local struct variables.
func paramDeps(v ssa.Value) map[*ssa.Parameter]bool {
	out := map[*ssa.Parameter]bool{}
	seen := map[ssa.Value]bool{}
	var rec func(v ssa.Value, d int)
	rec = func(v ssa.Value, d int) {
		if v == nil || seen[v] || d > 60 {
			return
		}
		seen[v] = true
		switch x := v.(type) {
		case *ssa.Parameter:
			out[x] = true
		case *ssa.Call:
			for _, a := range x.Call.Args {
				rec(a, d+1)
			}
			if _, isFn := x.Call.Value.(*ssa.Function); !isFn {
				if _, isB := x.Call.Value.(*ssa.Builtin); !isB {
					rec(x.Call.Value, d+1)
				}
			}
		case *ssa.Phi:
			for _, e := range x.Edges {
				rec(e, d+1)
			}
		case *ssa.Extract:
			rec(x.Tuple, d+1)
		case *ssa.UnOp:
			rec(x.X, d+1)
		case *ssa.BinOp:
			rec(x.X, d+1)
			rec(x.Y, d+1)
		case *ssa.Lookup:
			rec(x.X, d+1)
			rec(x.Index, d+1)
		case *ssa.Index:
			rec(x.X, d+1)
			rec(x.Index, d+1)
		case *ssa.IndexAddr:
			rec(x.X, d+1)
			rec(x.Index, d+1)
		case *ssa.FieldAddr:
			rec(x.X, d+1)
		case *ssa.Field:
			rec(x.X, d+1)
		case *ssa.Slice:
			rec(x.X, d+1)
		case *ssa.Convert:
			rec(x.X, d+1)
		case *ssa.ChangeType:
			rec(x.X, d+1)
		case *ssa.MakeInterface:
			rec(x.X, d+1)
		case *ssa.ChangeInterface:
			rec(x.X, d+1)
		case *ssa.TypeAssert:
			rec(x.X, d+1)
		case *ssa.MakeClosure:
			for _, b := range x.Bindings {
				rec(b, d+1)
			}
		case *ssa.Alloc:
			if x.Referrers() == nil {
				return
			}
			for _, r := range *x.Referrers() {
				switch y := r.(type) {
				case *ssa.Store:
					if y.Addr == ssa.Value(x) {
						rec(y.Val, d+1)
					}
				case *ssa.FieldAddr:
					if y.Referrers() != nil {
						for _, r2 := range *y.Referrers() {
							if st, ok := r2.(*ssa.Store); ok && st.Addr == ssa.Value(y) {
								rec(st.Val, d+1)
							}
						}
					}
				case *ssa.IndexAddr:
					if y.Referrers() != nil {
						for _, r2 := range *y.Referrers() {
							if st, ok := r2.(*ssa.Store); ok && st.Addr == ssa.Value(y) {
								rec(st.Val, d+1)
							}
						}
					}
				}
			}
		}
	}
	rec(v, 0)
	return out
}

// deadErrors (DEAD-ERROR): the error result of a call is bound to a named
// variable (the left-hand side is looked up in the syntax tree: the blank
// identifier is a deliberate discard) and is never read: it is overwritten by a later assignment, or the function ends,
// before any test. The cell form — the variable is captured or address-taken, so
// the error is stored into an Alloc — is matched when a path leads from the
// store to another store into the same cell (or to a return) with no load of
// the cell and no call that could read it in between.
func deadErrors(c *Check, rule string, fns map[*ssa.Function]bool) int {
	p := c.P
	var list []*ssa.Function
	for f := range fns {
		list = append(list, f)
	}
	sort.Slice(list, func(i, j int) bool { return fnName(list[i]) < fnName(list[j]) })
	n := 0
	for _, f := range list {
		if p.isGeneratedFile(p.fnFile(f)) {
			continue
		}
		eachInstr(f, func(_ *ssa.BasicBlock, i ssa.Instruction) {
			ex, ok := i.(*ssa.Extract)
			if !ok || !isErrorType(ex.Type()) {
				return
			}
			call, ok := ex.Tuple.(*ssa.Call)
			if !ok {
				return
			}
			callee := "dynamic callee"
			if o := calleeObj(call); o != nil {
				callee = shortObj(o)
			} else if sc := staticCallee(call); sc != nil {
				callee = fnName(sc)
			}
			key := fmt.Sprintf("%s|error of %s", fnName(f), callee)
			refs := ex.Referrers()
			live := false
			var cellStore *ssa.Store
			if refs != nil {
				for _, r := range *refs {
					if _, isDbg := r.(*ssa.DebugRef); isDbg {
						continue
					}
					if st, ok := r.(*ssa.Store); ok && st.Val == ssa.Value(ex) {
						if _, isAlloc := st.Addr.(*ssa.Alloc); isAlloc && len(*refs) == 1 {
							cellStore = st
							continue
						}
					}
					live = true
				}
			}
			if live {
				return
			}
			if blankLHS(f, call, ex.Index) {
				return // `x, _ = f()`: a deliberate discard, the business of ERR-FLOW where claimed
			}
			if cellStore == nil {
				n++
				c.Flagf(rule, key, p.pos(call.Pos()), "the error returned by %s is assigned to a variable that is never read afterwards (overwritten or dropped before any test): a failure of %s goes unnoticed and its other results are used as if valid", callee, callee)
				return
			}
			// cell form: is there a path from the store to a later store into the same
			// cell / to a return that reads nothing?
			cell := cellStore.Addr.(*ssa.Alloc)
			escapes := false
			if cell.Referrers() != nil {
				for _, r := range *cell.Referrers() {
					switch x := r.(type) {
					case *ssa.Store:
						if x.Addr != ssa.Value(cell) {
							escapes = true
						}
					case *ssa.UnOp, *ssa.DebugRef:
					default:
						escapes = true // captured by a closure, address passed on
					}
				}
			}
			if escapes {
				return
			}
			reads := func(j ssa.Instruction) bool {
				u, ok := j.(*ssa.UnOp)
				return ok && u.Op == token.MUL && u.X == ssa.Value(cell)
			}
			overwrite := func(j ssa.Instruction) bool {
				st, ok := j.(*ssa.Store)
				return ok && st.Addr == ssa.Value(cell) && st != cellStore
			}
			if w, bad := reachAvoiding(cellStore, overwrite, reads); bad {
				n++
				c.Flagf(rule, key, p.pos(call.Pos()), "the error returned by %s is overwritten at %s on a path that never reads it: a failure of %s goes unnoticed", callee, p.pos(w.Pos()), callee)
			}
		})
	}
	return n
}

// blankLHS: in the assignment whose right-hand side is this call, the idx-th
// left-hand side is the blank identifier (or the call is not the sole
// right-hand side of an assignment/definition at all).
func blankLHS(f *ssa.Function, call *ssa.Call, idx int) bool {
	syn := f.Syntax()
	if syn == nil {
		return true
	}
	found, blank := false, false
	ast.Inspect(syn, func(n ast.Node) bool {
		if found || n == nil {
			return false
		}
		check := func(lhs []ast.Expr, rhs []ast.Expr) {
			if len(rhs) != 1 || idx >= len(lhs) {
				return
			}
			ce, ok := ast.Unparen(rhs[0]).(*ast.CallExpr)
			if !ok || ce.Lparen != call.Pos() {
				return
			}
			found = true
			if id, ok := lhs[idx].(*ast.Ident); ok && id.Name == "_" {
				blank = true
			}
		}
		switch x := n.(type) {
		case *ast.AssignStmt:
			check(x.Lhs, x.Rhs)
		case *ast.ValueSpec:
			var lhs []ast.Expr
			for _, id := range x.Names {
				lhs = append(lhs, id)
			}
			check(lhs, x.Values)
		}
		return true
	})
	return !found || blank
}

// counterPairs (COUNTER-PAIR): a map[K]integer held in a struct field that some
// function increments per key (`m[k]++`) is a nesting counter. An entry may be
// removed (`delete(m, k)`) only where its count is known to be exhausted: on the
// outcome `m[k] == 0` / `m[k] <= 0` (after the decrement) or `m[k] == 1` (the last
// one, instead of the decrement). An unconditional delete, or one on the non-zero
// outcome, drops the outer levels of a nested acquisition.
func counterPairs(c *Check, rule string, fns map[*ssa.Function]bool) int {
	p := c.P
	type fkey struct {
		own *types.Named
		fld string
	}
	counters := map[fkey]bool{}
	isIntMap := func(v ssa.Value) (fkey, bool) {
		own, fld, _, ok := loadedField(v)
		if !ok || own == nil {
			return fkey{}, false
		}
		m, ok := v.Type().Underlying().(*types.Map)
		if !ok {
			return fkey{}, false
		}
		b, ok := m.Elem().Underlying().(*types.Basic)
		if !ok || b.Info()&types.IsInteger == 0 {
			return fkey{}, false
		}
		return fkey{own, fld}, true
	}
	for _, f := range p.RepoFuncs() {
		eachInstr(f, func(_ *ssa.BasicBlock, i ssa.Instruction) {
			mu, ok := i.(*ssa.MapUpdate)
			if !ok {
				return
			}
			k, ok := isIntMap(mu.Map)
			if !ok {
				return
			}
			bin, ok := mu.Value.(*ssa.BinOp)
			if !ok || bin.Op != token.ADD {
				return
			}
			if one, ok := constInt(bin.Y); !ok || one != 1 {
				return
			}
			if lk, ok := bin.X.(*ssa.Lookup); ok && !lk.CommaOk {
				if k2, ok := isIntMap(lk.X); ok && k2 == k {
					counters[k] = true
				}
			}
		})
	}
	n := 0
	var list []*ssa.Function
	for f := range fns {
		list = append(list, f)
	}
	sort.Slice(list, func(i, j int) bool { return fnName(list[i]) < fnName(list[j]) })
	for _, f := range list {
		eachInstr(f, func(_ *ssa.BasicBlock, i ssa.Instruction) {
			call, ok := i.(*ssa.Call)
			if !ok {
				return
			}
			if b, ok := call.Call.Value.(*ssa.Builtin); !ok || b.Name() != "delete" || len(call.Call.Args) != 2 {
				return
			}
			k, ok := isIntMap(call.Call.Args[0])
			if !ok || !counters[k] {
				return
			}
			// `for k := range m { delete(m, k) }` empties the table: a reset between
			// two independent walks, not the release of one level
			if ex, ok := call.Call.Args[1].(*ssa.Extract); ok && ex.Index == 1 {
				if nx, ok := ex.Tuple.(*ssa.Next); ok {
					if rg, ok := nx.Iter.(*ssa.Range); ok {
						if k2, ok := isIntMap(rg.X); ok && k2 == k {
							return
						}
					}
				}
			}
			n++
			keyExpr := exprKey(call.Call.Args[1], 0)
			exhausted := false
			eachInstr(f, func(_ *ssa.BasicBlock, j ssa.Instruction) {
				bin, ok := j.(*ssa.BinOp)
				if !ok || exhausted {
					return
				}
				var v ssa.Value
				var kc int64
				if kk, ok := constInt(bin.Y); ok {
					v, kc = bin.X, kk
				} else if kk, ok := constInt(bin.X); ok {
					v, kc = bin.Y, kk
				} else {
					return
				}
				// the counter value: a look-up of the same entry (or the comma-ok value)
				if ex, ok := v.(*ssa.Extract); ok && ex.Index == 0 {
					v = ex.Tuple
				}
				lk, ok := v.(*ssa.Lookup)
				if !ok {
					return
				}
				if k2, ok := isIntMap(lk.X); !ok || k2 != k || exprKey(lk.Index, 0) != keyExpr {
					return
				}
				okOutcome := func(trueSide bool) bool {
					switch {
					case bin.Op == token.EQL && (kc == 0 || kc == 1):
						return trueSide
					case bin.Op == token.NEQ && (kc == 0 || kc == 1):
						return !trueSide
					case bin.Op == token.LEQ && (kc == 0 || kc == 1):
						return trueSide
					case bin.Op == token.LSS && (kc == 1 || kc == 2):
						return trueSide
					case bin.Op == token.GTR && (kc == 0 || kc == 1):
						return !trueSide
					case bin.Op == token.GEQ && (kc == 1 || kc == 2):
						return !trueSide
					}
					return false
				}
				for _, br := range branchesOn(bin) {
					for _, side := range []bool{true, false} {
						succ, other := br.TrueSucc, br.FalseSucc
						if !side {
							succ, other = other, succ
						}
						if !okOutcome(side) {
							continue
						}
						if (succ == call.Block() || succ.Dominates(call.Block())) && len(succ.Preds) == 1 && !other.Dominates(call.Block()) {
							exhausted = true
						}
					}
				}
			})
			key := fmt.Sprintf("%s|entry of counter %s.%s removed only when exhausted", fnName(f), k.own.Obj().Name(), k.fld)
			c.Cond(exhausted, rule, key, p.pos(call.Pos()),
				"the delete runs only on the outcome where the entry's count is 0 or 1",
				fmt.Sprintf("%s.%s counts nested acquisitions per key (it is incremented elsewhere); this delete is not tied to the count being exhausted, so releasing an inner level forgets the outer ones", k.own.Obj().Name(), k.fld))
		})
	}
	return n
}

// goroutineLoopVars (GOROUTINE-LOOPVAR): a closure started on a goroutine (go
// statement, errgroup.Group.Go) inside a loop reads a variable that is allocated
// once outside the loop and assigned in every iteration — the loop variable
// itself under the pre-1.22 semantics this module is built with, or a variable
// declared before the loop. By the time the goroutine runs the variable may hold
// a later iteration's value, and the read races with the loop's next write.
func goroutineLoopVars(c *Check, rule string, fns map[*ssa.Function]bool) int {
	p := c.P
	var list []*ssa.Function
	for f := range fns {
		list = append(list, f)
	}
	sort.Slice(list, func(i, j int) bool { return fnName(list[i]) < fnName(list[j]) })
	n := 0
	for _, f := range list {
		if p.isGeneratedFile(p.fnFile(f)) {
			continue
		}
		eachInstr(f, func(_ *ssa.BasicBlock, i ssa.Instruction) {
			var mc *ssa.MakeClosure
			switch x := i.(type) {
			case *ssa.Go:
				mc, _ = x.Call.Value.(*ssa.MakeClosure)
			case ssa.CallInstruction:
				if _, ok := isGroupCall(i, "Go"); ok {
					for _, a := range x.Common().Args {
						if m, ok := a.(*ssa.MakeClosure); ok {
							mc = m
						}
					}
				}
			}
			if mc == nil {
				return
			}
			fn, _ := mc.Fn.(*ssa.Function)
			loop := enclosingLoop(mc.Block())
			if fn == nil || len(loop) == 0 {
				return
			}
			n++
			bad := ""
			for k, b := range mc.Bindings {
				al, ok := b.(*ssa.Alloc)
				if !ok || loop[al.Block()] || al.Referrers() == nil || k >= len(fn.FreeVars) {
					continue
				}
				assignedInLoop := false
				for _, r := range *al.Referrers() {
					if st, ok := r.(*ssa.Store); ok && st.Addr == ssa.Value(al) && loop[st.Block()] {
						assignedInLoop = true
					}
				}
				if !assignedInLoop {
					continue
				}
				// the goroutine reads it
				fv := fn.FreeVars[k]
				reads := false
				if fv.Referrers() != nil {
					for _, r := range *fv.Referrers() {
						if u, ok := r.(*ssa.UnOp); ok && u.Op == token.MUL {
							reads = true
						}
					}
				}
				if reads {
					bad = fmt.Sprintf("variable %s is allocated once outside the loop and assigned in every iteration; the goroutine reads it after the loop has moved on", al.Comment)
				}
			}
			key := fmt.Sprintf("%s|goroutine started in a loop reads only per-iteration values", fnName(fn))
			c.Cond(bad == "", rule, key, p.pos(fn.Pos()),
				"every variable the goroutine reads is declared inside the loop body, passed as an argument, or not assigned by the loop",
				"the goroutine shares a variable with the loop that spawns it: "+bad+" (wrong value and a data race)")
		})
	}
	return n
}

// saturatingCounters (COUNTER-PAIR, second clause): an integer field that one
// function increments and another decrements is a nesting depth. If the
// increment is skipped once the field has reached a constant cap (a saturating
// increment) while the decrement is exact, the two stop matching beyond the cap:
// the depth reaches zero too early and whatever guards the underflow fires.
func saturatingCounters(c *Check, rule string, fns map[*ssa.Function]bool) int {
	p := c.P
	type fkey struct {
		own *types.Named
		fld string
	}
	type site struct {
		st *ssa.Store
		f  *ssa.Function
	}
	incs, decs := map[fkey][]site{}, map[fkey][]site{}
	for _, f := range p.RepoFuncs() {
		if p.isGeneratedFile(p.fnFile(f)) {
			continue
		}
		eachInstr(f, func(_ *ssa.BasicBlock, i ssa.Instruction) {
			st, ok := i.(*ssa.Store)
			if !ok {
				return
			}
			own, fld, _, ok := fieldOfAddr(st.Addr)
			if !ok || own == nil || !isIntType(st.Val.Type()) {
				return
			}
			bin, ok := st.Val.(*ssa.BinOp)
			if !ok || (bin.Op != token.ADD && bin.Op != token.SUB) {
				return
			}
			if one, ok := constInt(bin.Y); !ok || one != 1 {
				return
			}
			if o2, f2, _, ok := loadedField(bin.X); !ok || o2 != own || f2 != fld {
				return
			}
			k := fkey{own, fld}
			if bin.Op == token.ADD {
				incs[k] = append(incs[k], site{st, f})
			} else {
				decs[k] = append(decs[k], site{st, f})
			}
		})
	}
	n := 0
	var keys []fkey
	for k := range incs {
		if len(decs[k]) > 0 {
			keys = append(keys, k)
		}
	}
	sort.Slice(keys, func(i, j int) bool {
		return keys[i].own.Obj().Name()+"."+keys[i].fld < keys[j].own.Obj().Name()+"."+keys[j].fld
	})
	for _, k := range keys {
		for _, s := range incs[k] {
			if !fns[s.f] {
				continue
			}
			n++
			capped := ""
			eachInstr(s.f, func(_ *ssa.BasicBlock, i ssa.Instruction) {
				bin, ok := i.(*ssa.BinOp)
				if !ok || capped != "" {
					return
				}
				switch bin.Op {
				case token.LSS, token.LEQ, token.GTR, token.GEQ, token.NEQ, token.EQL:
				default:
					return
				}
				var kv int64
				var fv ssa.Value
				if kk, ok := constInt(bin.Y); ok {
					kv, fv = kk, bin.X
				} else if kk, ok := constInt(bin.X); ok {
					kv, fv = kk, bin.Y
				} else {
					return
				}
				if o2, f2, _, ok := loadedField(fv); !ok || o2 != k.own || f2 != k.fld || kv <= 0 {
					return
				}
				for _, br := range branchesOn(bin) {
					tIn := br.TrueSucc == s.st.Block() || br.TrueSucc.Dominates(s.st.Block())
					fIn := br.FalseSucc == s.st.Block() || br.FalseSucc.Dominates(s.st.Block())
					if tIn != fIn {
						capped = fmt.Sprintf("the increment is skipped depending on a comparison of the field with %d", kv)
					}
				}
			})
			key := fmt.Sprintf("%s|every level counted in %s.%s", fnName(s.f), k.own.Obj().Name(), k.fld)
			c.Cond(capped == "", rule, key, p.pos(s.st.Pos()),
				"the increment is unconditional with respect to the counter's own value: increments and decrements match",
				fmt.Sprintf("%s.%s is decremented exactly elsewhere (%s) but %s: beyond the cap the levels no longer match and the counter underflows", k.own.Obj().Name(), k.fld, fnName(decs[k][0].f), capped))
		}
	}
	return n
}

// memoOnFailure (MEMO-ON-FAILURE): a function with an error result that keeps a
// look-up-or-compute table (a map it also looks up, or a sync.Map it also Loads
// from) must not file an entry on a path on which it returns a non-nil error —
// in particular not from a deferred closure, which runs on every exit — or the
// next call with the same key is answered with the failed computation's
// (empty) value and no error.
func memoOnFailure(c *Check, rule string, fns map[*ssa.Function]bool) int {
	p := c.P
	var list []*ssa.Function
	for f := range fns {
		if f.Parent() == nil {
			list = append(list, f)
		}
	}
	sort.Slice(list, func(i, j int) bool { return fnName(list[i]) < fnName(list[j]) })
	n := 0
	isErrReturn := func(f *ssa.Function, ei int) func(ssa.Instruction) bool {
		return func(i ssa.Instruction) bool {
			ret, ok := i.(*ssa.Return)
			if !ok || ret.Block() == f.Recover || ei >= len(ret.Results) {
				return false
			}
			vals, cell := returnValues(ret)
			return cell[ei] || !isNilConst(vals[ei])
		}
	}
	for _, f := range list {
		if p.isGeneratedFile(p.fnFile(f)) || strings.HasSuffix(p.fnFile(f), "_test.go") {
			continue
		}
		ei := errorResultIndex(f.Signature)
		if ei < 0 {
			continue
		}
		// tables looked up in f whose hit is handed back to the caller (a memo, not
		// a visited set)
		tables := map[string]bool{}
		flowsToReturn := func(v ssa.Value) bool {
			seen := map[ssa.Value]bool{}
			var walk func(v ssa.Value, d int) bool
			walk = func(v ssa.Value, d int) bool {
				if v == nil || seen[v] || d > 6 || v.Referrers() == nil {
					return false
				}
				seen[v] = true
				for _, r := range *v.Referrers() {
					switch y := r.(type) {
					case *ssa.Return:
						return true
					case *ssa.Store:
						if _, isAl := y.Addr.(*ssa.Alloc); isAl && y.Val == v {
							return true // copied into the (named) result
						}
					case *ssa.Extract:
						if y.Index == 0 && walk(y, d+1) {
							return true
						}
					case *ssa.TypeAssert:
						if walk(y, d+1) {
							return true
						}
					case *ssa.Phi:
						if walk(y, d+1) {
							return true
						}
					case *ssa.MakeInterface:
						if walk(y, d+1) {
							return true
						}
					}
				}
				return false
			}
			return walk(v, 0)
		}
		eachInstr(f, func(_ *ssa.BasicBlock, i ssa.Instruction) {
			switch x := i.(type) {
			case *ssa.Lookup:
				if _, isMap := x.X.Type().Underlying().(*types.Map); isMap && x.CommaOk && flowsToReturn(x) {
					// a table that outlives the call: reached through a parameter, a captured
					// variable or a package variable (a map made in this call is scratch space)
					outlives := false
					for _, r := range rootsOf(x.X) {
						if r.Kind == rGlobal || r.Kind == rParam || r.Kind == rFree {
							outlives = true
						}
					}
					if outlives {
						tables[exprKey(x.X, 0)] = true
					}
				}
			case *ssa.Call:
				if o := calleeObj(x); o != nil && objIs(o, "sync", "Map.Load") && len(x.Call.Args) > 0 && flowsToReturn(x) {
					tables["sync:"+exprKey(x.Call.Args[0], 0)] = true
				}
			}
		})
		if len(tables) == 0 {
			continue
		}
		isStore := func(i ssa.Instruction) (string, bool) {
			switch x := i.(type) {
			case *ssa.MapUpdate:
				if tables[exprKey(x.Map, 0)] {
					return exprKeyShort(x.Map), true
				}
			case ssa.CallInstruction:
				if o := calleeObj(x); o != nil && (objIs(o, "sync", "Map.Store") || objIs(o, "sync", "Map.LoadOrStore")) && len(x.Common().Args) > 0 {
					if tables["sync:"+exprKey(x.Common().Args[0], 0)] {
						return exprKeyShort(x.Common().Args[0]), true
					}
				}
			}
			return "", false
		}
		for _, g := range withClosures(f) {
			eachInstr(g, func(_ *ssa.BasicBlock, i ssa.Instruction) {
				tbl, ok := isStore(i)
				if !ok {
					return
				}
				n++
				key := fmt.Sprintf("%s|nothing is remembered in %s when the computation fails", fnName(f), tbl)
				if g != f {
					// inside a closure: deferred ⇒ runs on every exit, the error exits included
					deferred := false
					eachInstr(f, func(_ *ssa.BasicBlock, j ssa.Instruction) {
						if d, ok := j.(*ssa.Defer); ok {
							if mc, ok := d.Call.Value.(*ssa.MakeClosure); ok && mc.Fn == ssa.Value(g) {
								deferred = true
							}
							if fn, ok := d.Call.Value.(*ssa.Function); ok && fn == g {
								deferred = true
							}
						}
					})
					if !deferred {
						c.Okf(rule, key, p.pos(i.Pos()), "the entry is filed by a closure that is not a deferred exit hook of the function")
						return
					}
					// acceptable when the store is guarded by a nil test of the error result
					guarded := false
					eachInstr(g, func(_ *ssa.BasicBlock, j ssa.Instruction) {
						bin, ok := j.(*ssa.BinOp)
						if !ok || (bin.Op != token.EQL && bin.Op != token.NEQ) || !(isNilConst(bin.X) || isNilConst(bin.Y)) {
							return
						}
						other := bin.X
						if isNilConst(other) {
							other = bin.Y
						}
						if !isErrorType(other.Type()) {
							return
						}
						for _, br := range branchesOn(bin) {
							nilSucc := br.TrueSucc
							if bin.Op == token.NEQ {
								nilSucc = br.FalseSucc
							}
							if nilSucc == i.Block() || nilSucc.Dominates(i.Block()) {
								guarded = true
							}
						}
					})
					c.Cond(guarded, rule, key, p.pos(i.Pos()),
						"the deferred hook files the entry only when the error result is nil",
						"the entry is filed by a deferred closure, which also runs when the function returns an error: the failed computation's result is remembered and the next call with this key succeeds with it")
					return
				}
				ret, bad := reachAvoiding(i, isErrReturn(f, ei), nil)
				detail := ""
				if bad {
					detail = fmt.Sprintf("after the entry is filed a path still leads to the error return at %s: a computation that fails later leaves its entry behind", p.pos(ret.Pos()))
				}
				c.Cond(!bad, rule, key, p.pos(i.Pos()), "no path leads from filing the entry to a non-nil error return", detail)
			})
		}
	}
	return n
}

// skippedEffects (SKIPPED-EFFECT): `done = done || f(x)` inside a loop, where f
// changes what it is given: once one element made the flag true, f is not called
// for the remaining elements and their part of the work is silently left out
// (the intended form evaluates f first: `done = f(x) || done`). Matched on SSA: a
// loop-carried bool whose update is a phi of the constant true, on the edge taken
// when the flag is already set, and the result of a call made on the other edge;
// the callee (a repository function) writes through a parameter, directly or in
// a function it calls.
func skippedEffects(c *Check, rule string, fns map[*ssa.Function]bool) int {
	p := c.P
	var list []*ssa.Function
	for f := range fns {
		list = append(list, f)
	}
	sort.Slice(list, func(i, j int) bool { return fnName(list[i]) < fnName(list[j]) })
	writesMemo := map[*ssa.Function]int{}
	var writes func(f *ssa.Function, d int) bool
	writes = func(f *ssa.Function, d int) bool {
		if f == nil || len(f.Blocks) == 0 || !isRepoFn(f) || d > 3 {
			return false
		}
		if v, ok := writesMemo[f]; ok {
			return v == 1
		}
		writesMemo[f] = 0
		res := false
		eachInstr(f, func(_ *ssa.BasicBlock, i ssa.Instruction) {
			var addr ssa.Value
			switch x := i.(type) {
			case *ssa.Store:
				addr = x.Addr
			case *ssa.MapUpdate:
				addr = x.Map
			case *ssa.Call:
				if h := normFn(p, x.Call.StaticCallee()); h != nil && h != f && writes(h, d+1) {
					res = true
				}
				return
			default:
				return
			}
			for _, r := range rootsOf(addr) {
				if r.Kind == rParam || r.Kind == rFree || r.Kind == rGlobal {
					res = true
				}
			}
		})
		if res {
			writesMemo[f] = 1
		}
		return res
	}
	n := 0
	for _, f := range list {
		if p.isGeneratedFile(p.fnFile(f)) {
			continue
		}
		eachInstr(f, func(b *ssa.BasicBlock, i ssa.Instruction) {
			ph, ok := i.(*ssa.Phi)
			if !ok || !isBoolType(ph.Type()) || len(ph.Edges) != 2 || len(enclosingLoop(b)) == 0 {
				return
			}
			// one edge: constant true coming from a block that branches on the carried flag
			for k := 0; k < 2; k++ {
				if !isConstBool(ph.Edges[k], true) {
					continue
				}
				call, ok := ph.Edges[1-k].(*ssa.Call)
				if !ok {
					continue
				}
				pred := b.Preds[k]
				iff, ok := pred.Instrs[len(pred.Instrs)-1].(*ssa.If)
				if !ok {
					continue
				}
				flag, ok := iff.Cond.(*ssa.Phi)
				if !ok {
					continue
				}
				// the flag is carried round the loop and updated by ph
				carried := false
				for _, e := range flag.Edges {
					if e == ssa.Value(ph) {
						carried = true
					}
				}
				callee := normFn(p, call.Call.StaticCallee())
				if !carried || callee == nil {
					continue
				}
				n++
				key := fmt.Sprintf("%s|%s is called for every element", fnName(f), fnName(callee))
				c.Cond(!writes(callee, 0), rule, key, p.pos(call.Pos()),
					"the call skipped once the flag is set has no effect on what it is given",
					fmt.Sprintf("`flag = flag || %s(…)` in a loop: once one element set the flag, %s — which writes through its arguments — is no longer called for the remaining elements", callee.Name(), callee.Name()))
			}
		})
	}
	return n
}

// pathCutsets (PATH-CUTSET): strings.Trim/TrimLeft/TrimRight take a *set* of
// characters. A constant cutset of two or more different characters that
// contains a path character ('.' or '/') — TrimLeft(name, "./") — removes every
// leading dot and slash, not the prefix "./": ".shared/x.sysl" becomes
// "shared/x.sysl", another file. Every call of the three functions in the
// selected packages is an obligation; cutsets of white space, of one character
// or without path characters are in order. A cutset that is not a constant is
// not judged.
func pathCutsets(c *Check, rule string, sel func(pkgPath string) bool) int {
	p := c.P
	n, scanned := 0, 0
	for _, f := range p.RepoFuncs() {
		if !sel(fnPkgPath(f)) || p.isGeneratedFile(p.fnFile(f)) || len(f.Blocks) == 0 {
			continue
		}
		scanned++
		k := 0
		eachCall(f, func(cl ssa.CallInstruction) {
			o := calleeObj(cl)
			if o == nil || o.Pkg() == nil || o.Pkg().Path() != "strings" || (o.Name() != "Trim" && o.Name() != "TrimLeft" && o.Name() != "TrimRight") {
				return
			}
			args := cl.Common().Args
			if len(args) != 2 {
				return
			}
			k++
			key := fmt.Sprintf("%s|strings.%s#%d", fnName(f), o.Name(), k)
			cs, ok := args[1].(*ssa.Const)
			if !ok || cs.Value == nil || cs.Value.Kind() != constant.String {
				c.Okf(rule, key, p.pos(cl.Pos()), "cutset is not a constant: not judged")
				return
			}
			n++
			set := constant.StringVal(cs.Value)
			distinct := map[rune]bool{}
			pathy := false
			for _, r := range set {
				distinct[r] = true
				if r == '.' || r == '/' || r == '\\' {
					pathy = true
				}
			}
			c.Cond(!(pathy && len(distinct) >= 2), rule, key, p.pos(cl.Pos()),
				fmt.Sprintf("cutset %q is one character, white space, or has no path character", set),
				fmt.Sprintf("strings.%s with the cutset %q removes every leading/trailing character of that set, not the prefix/suffix %q: a name such as \".shared/x\" or \"../x\" loses its dots and names another file", o.Name(), set, set))
		})
	}
	c.Okf(rule, "scan", "-", "%d functions scanned for strings.Trim* with a constant cutset: %d found and judged", scanned, n)
	return n
}

// modelWrites (MODEL-READ-ONLY): a generator is handed the model to read. A
// store into a field of a pkg/sysl message, an update of a map or an append to a
// list held in one, whose target belongs to an object the function did not
// create (it is reached from a parameter, a captured variable or a package
// variable), changes the model for every later user: the next generator run in
// the same process, the next view of the same command. Every such write in the
// generator's own packages is an obligation.
func modelWrites(c *Check, rule string, own []*ssa.Function) int {
	p := c.P
	n := 0
	var isModelField func(addr ssa.Value) (string, bool)
	isModelField = func(addr ssa.Value) (string, bool) {
		for d := 0; d < 6 && addr != nil; d++ {
			switch x := addr.(type) {
			case *ssa.Phi:
				// `m := obj.Attrs; if m == nil { m = map…{} }`: the model's map on one edge
				for _, e := range x.Edges {
					if _, isPhi := e.(*ssa.Phi); isPhi {
						continue
					}
					if n, ok := isModelField(e); ok {
						return n, true
					}
				}
				return "", false
			case *ssa.FieldAddr:
				if own, fld, _, ok := fieldOfAddr(x); ok && own != nil && own.Obj().Pkg() != nil && own.Obj().Pkg().Path() == syslPkg {
					return own.Obj().Name() + "." + fld, true
				}
				addr = x.X
			case *ssa.IndexAddr:
				addr = x.X
			case *ssa.UnOp:
				addr = x.X
			default:
				return "", false
			}
		}
		return "", false
	}
	for _, f := range own {
		k := map[string]int{}
		eachInstr(f, func(_ *ssa.BasicBlock, i ssa.Instruction) {
			var target ssa.Value
			switch x := i.(type) {
			case *ssa.Store:
				target = x.Addr
			case *ssa.MapUpdate:
				target = x.Map
			default:
				return
			}
			name, ok := isModelField(target)
			if !ok {
				return
			}
			foreign := false
			for _, r := range rootsOf(target) {
				if r.Kind == rParam || r.Kind == rFree || r.Kind == rGlobal {
					foreign = true
				}
			}
			if !foreign {
				return
			}
			n++
			k[name]++
			key := fmt.Sprintf("%s|writes %s", fnName(f), name)
			if k[name] > 1 {
				key = fmt.Sprintf("%s#%d", key, k[name])
			}
			c.Flagf(rule, key, p.pos(i.Pos()), "the generator writes into %s of a model object it was handed (not one it created): the model is changed for the next run or view in the same process", name)
		})
	}
	return n
}

// explicitBlank: the call's (first) result is assigned to the blank identifier
// in an assignment statement — `_ = f.Close()` — not merely dropped.
func explicitBlank(f *ssa.Function, call *ssa.Call) bool {
	syn := f.Syntax()
	if syn == nil {
		return false
	}
	res := false
	ast.Inspect(syn, func(n ast.Node) bool {
		as, ok := n.(*ast.AssignStmt)
		if !ok || len(as.Rhs) != 1 {
			return true
		}
		ce, ok := ast.Unparen(as.Rhs[0]).(*ast.CallExpr)
		if !ok || ce.Lparen != call.Pos() {
			return true
		}
		all := len(as.Lhs) > 0
		for _, l := range as.Lhs {
			if id, ok := l.(*ast.Ident); !ok || id.Name != "_" {
				all = false
			}
		}
		res = all
		return false
	})
	return res
}
