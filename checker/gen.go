package main

import (
	"fmt"
	"go/token"
	"go/types"
	"sort"
	"strings"

	"golang.org/x/tools/go/callgraph"
	"golang.org/x/tools/go/ssa"
)

// Generic driver for the generator properties (C11–C17): the shared engines
// over the functions reachable from the property's library entry points.

type genOpts struct {
	entries []*ssa.Function
	order   bool
	guard   bool
	deref   bool
	rec     bool
}

func reachSet(p *Program, entries []*ssa.Function) map[*ssa.Function]bool {
	r := reachable(p.CallGraph(), entries, func(e *callgraph.Edge) bool { return false })
	in := map[*ssa.Function]bool{}
	for f := range r {
		if isRepoFn(f) {
			in[f] = true
			for _, a := range withClosures(f) {
				in[a] = true
			}
		}
	}
	return in
}

func runGenEngines(c *Check, o genOpts) map[*ssa.Function]bool {
	p := c.P
	in := reachSet(p, o.entries)
	c.Counts["entry_points"] = len(o.entries)
	c.Counts["reachable_repo_functions"] = len(in)
	var names []string
	for _, e := range o.entries {
		names = append(names, fnName(e))
	}
	sort.Strings(names)
	c.Notes = append(c.Notes, "entries: "+strings.Join(names, ", "))
	var res *guardResult
	if o.guard {
		res = runGuard(p, o.entries)
		reportGuard(c, "UNGUARDED-SITE", res)
	}
	if o.rec {
		runRec(c, "RECURSION", o.entries, nil)
	}
	if o.deref {
		runDeref(c, "UNCHECKED-LOOKUP", o.entries, res, nil)
	}
	if o.order {
		e := newOrderEngine(p)
		runOrder(c, "MAP-ORDER", e, func(f *ssa.Function) bool { return in[f] })
		nondetSources(c, "NONDET-SOURCE", func(f *ssa.Function) bool { return in[f] })
	}
	return in
}

// funcsNamed returns repo functions by stable names; missing names are reported.
func funcsNamed(c *Check, names ...string) []*ssa.Function {
	var out []*ssa.Function
	for _, n := range names {
		f := c.P.FuncByName(n)
		if f == nil {
			c.Undecidedf("ANCHOR", n, "-", "entry point %s not found: unresolved anchor", n)
			continue
		}
		out = append(out, f)
	}
	return out
}

// methodsOfType returns all methods of pkg.Type (value and pointer receivers).
func methodsOfType(p *Program, pkg, typ string) []*ssa.Function {
	pk := p.Pkg(pkg)
	if pk == nil {
		return nil
	}
	obj, _ := pk.Types.Scope().Lookup(typ).(*types.TypeName)
	if obj == nil {
		return nil
	}
	n, _ := obj.Type().(*types.Named)
	if n == nil {
		return nil
	}
	var out []*ssa.Function
	for _, m := range p.methodsOf(n) {
		out = append(out, withClosures(m)...)
	}
	return out
}

// ---- R-PAIR helpers ------------------------------------------------------------------

// isSuccessReturn: a return whose error result is the nil constant (or that
// has no error result).
func isSuccessReturn(i ssa.Instruction) bool {
	r, ok := i.(*ssa.Return)
	if !ok {
		return false
	}
	for _, res := range r.Results {
		if isErrorType(res.Type()) && !isNilConst(res) {
			return false
		}
	}
	return true
}

func methodCallNamed(i ssa.Instruction, pkgPath, typ, name string) bool {
	cl, ok := i.(ssa.CallInstruction)
	if !ok {
		return false
	}
	if _, isDefer := i.(*ssa.Defer); isDefer {
		return false
	}
	return callIs(cl, pkgPath, typ+"."+name)
}

// pairOnSuccessPaths: after every `open`, each path to a success return passes `close`.
func pairOnSuccessPaths(c *Check, rule string, fns []*ssa.Function, what string, open, close func(ssa.Instruction) bool) int {
	p := c.P
	n := 0
	for _, f := range fns {
		eachInstr(f, func(_ *ssa.BasicBlock, i ssa.Instruction) {
			if !open(i) {
				return
			}
			n++
			key := fmt.Sprintf("%s|%s", fnName(f), what)
			if ret, bad := reachAvoiding(i, isSuccessReturn, close); bad {
				c.Flagf(rule, key, p.pos(i.Pos()), "a success path reaches the return at %s without the matching close: %s stays unbalanced in the emitted diagram", p.pos(ret.Pos()), what)
			} else {
				c.Okf(rule, key, p.pos(i.Pos()), "every success path from the open passes the matching close")
			}
		})
	}
	return n
}

// lockPairs: for every non-deferred sync Lock/RLock call in fns, each path to a
// return passes the matching Unlock on the same mutex expression (or a deferred
// Unlock is registered). A lock left held on one exit blocks every later
// acquirer: the compile never terminates.
func lockPairs(c *Check, rule string, fns map[*ssa.Function]bool) int {
	p := c.P
	n := 0
	var list []*ssa.Function
	for f := range fns {
		list = append(list, f)
	}
	sort.Slice(list, func(i, j int) bool { return fnName(list[i]) < fnName(list[j]) })
	mutexCall := func(i ssa.Instruction, names ...string) (string, bool) {
		cl, ok := i.(ssa.CallInstruction)
		if !ok {
			return "", false
		}
		o := calleeObj(cl)
		if o == nil || o.Pkg() == nil || o.Pkg().Path() != "sync" || len(cl.Common().Args) == 0 {
			return "", false
		}
		for _, nm := range names {
			if o.Name() == nm {
				return exprKey(cl.Common().Args[0], 0), true
			}
		}
		return "", false
	}
	for _, f := range list {
		if p.isGeneratedFile(p.fnFile(f)) {
			continue
		}
		eachInstr(f, func(_ *ssa.BasicBlock, i ssa.Instruction) {
			if _, isDefer := i.(*ssa.Defer); isDefer {
				return
			}
			mu, ok := mutexCall(i, "Lock", "RLock")
			if !ok {
				return
			}
			n++
			key := fmt.Sprintf("%s|lock %s released on all paths", fnName(f), clipKey(mu))
			deferred := false
			eachInstr(f, func(_ *ssa.BasicBlock, j ssa.Instruction) {
				if d, isDefer := j.(*ssa.Defer); isDefer {
					if m2, ok := mutexCall(d, "Unlock", "RUnlock"); ok && m2 == mu {
						deferred = true
					}
				}
			})
			if deferred {
				c.Okf(rule, key, p.pos(i.Pos()), "a deferred unlock of the same mutex covers every exit")
				return
			}
			off := func(j ssa.Instruction) bool {
				if _, isDefer := j.(*ssa.Defer); isDefer {
					return false
				}
				m2, ok := mutexCall(j, "Unlock", "RUnlock")
				return ok && m2 == mu
			}
			if ret, bad := reachAvoiding(i, isReturn, off); bad {
				c.Flagf(rule, key, p.pos(i.Pos()), "a path from this lock reaches the return at %s without unlocking: every later acquirer blocks forever and the command never ends", p.pos(ret.Pos()))
			} else {
				c.Okf(rule, key, p.pos(i.Pos()), "every path from the lock to a return passes the unlock of the same mutex")
			}
		})
	}
	return n
}

func clipKey(s string) string {
	if len(s) > 40 {
		return s[:40]
	}
	return s
}

var _ = token.NoPos
