package main

import (
	"fmt"
	"go/token"
	"go/types"
	"sort"
	"strings"

	"golang.org/x/tools/go/ssa"
)

func init() { register("C10", LoadWhole, checkC10) }

const evalPkg = repoMod + "/pkg/eval"

// tableFuncs folds the functions registered as values of a package-level map
// literal (operator dispatch tables).
func tableFuncs(p *Program, pkgPath, global string) []*ssa.Function {
	sp := p.SSAPkgs[pkgPath]
	if sp == nil {
		return nil
	}
	g, _ := sp.Members[global].(*ssa.Global)
	if g == nil {
		return nil
	}
	seen := map[*ssa.Function]bool{}
	var out []*ssa.Function
	eachInstr(sp.Func("init"), func(_ *ssa.BasicBlock, i ssa.Instruction) {
		st, ok := i.(*ssa.Store)
		if !ok || st.Addr != ssa.Value(g) {
			return
		}
		mm, ok := st.Val.(*ssa.MakeMap)
		if !ok {
			return
		}
		for _, r := range *mm.Referrers() {
			mu, ok := r.(*ssa.MapUpdate)
			if !ok {
				continue
			}
			v := mu.Value
			for d := 0; d < 4; d++ {
				switch x := v.(type) {
				case *ssa.ChangeType:
					v = x.X
				case *ssa.MakeInterface:
					v = x.X
				case *ssa.MakeClosure:
					v = x.Fn
				}
			}
			if f, ok := v.(*ssa.Function); ok && !seen[f] {
				seen[f] = true
				out = append(out, f)
			}
		}
	})
	sort.Slice(out, func(i, j int) bool { return fnName(out[i]) < fnName(out[j]) })
	return out
}

// name of the table of the iterating operators, found by role on each run
var c10ExprTable string

// c10EvalObj: name of the evaluator object's type, found by role on each run.
var c10EvalObj = "exprEval"

func checkC10(c *Check) {
	p := c.P
	c.Explanation = "C10 (structural clauses of purity): (1) every function registered in the evaluator's operator tables (valueFunctions, exprFunctions, unaryFunctions — folded from the map literals) treats its *sysl.Value operands as read-only: its bottom-up effect summary (same engine as R-ORDER) contains no store, map update or append through an operand; the only scope write allowed to a table function is a binding under its scope-variable parameter; (2) no append in pkg/eval extends a slice that was loaded from a field of a pointer parameter unless the result is stored back to that same field, and no append on a slice parameter has its result retained in another object (the aliasing shapes behind 'list concatenation corrupts its left operand'); (3) every scope-variable binding is followed on all paths by its deletion, and the dispatch site of the table-driven iterating operators saves the previous binding before the call and restores it after the deletion; (4) the set-typed transform path appends through a function whose append is control-dependent on a failed equality scan, and the set-union operator builds its result from the keys of Go maps; (5) no map iteration in pkg/eval reaches list or string construction unsorted (R-ORDER). Agreement with the expression semantics is not decided."
	c.Assumptions = append(c.Assumptions,
		"values are mutated only through the patterns the effect summary sees (stores, map updates, appends, copy); reflection in goFuncs.go is outside the operator tables",
		"non-terminating user programs are outside the property")
	if p.SSAPkgs[evalPkg] == nil {
		c.Undecidedf("ANCHOR", "pkg/eval", "-", "package not found")
		return
	}
	e := newOrderEngine(p)
	tables := map[string][]*ssa.Function{}
	total := 0
	// the operator tables, by role: package variables of pkg/eval that are maps of
	// functions over *sysl.Value. The table of the iterating operators (where,
	// flatten, …) is the one whose functions take a scope and the name of the scope
	// variable; the binary table takes two values, the unary table one. The roles
	// keep the names the tables have on the pinned tree.
	roleOf := map[string]string{}
	if sp := p.SSAPkgs[evalPkg]; sp != nil {
		var names []string
		for n := range sp.Members {
			names = append(names, n)
		}
		sort.Strings(names)
		for _, n := range names {
			g, ok := sp.Members[n].(*ssa.Global)
			if !ok {
				continue
			}
			m, ok := g.Type().(*types.Pointer).Elem().Underlying().(*types.Map)
			if !ok {
				continue
			}
			sig, ok := m.Elem().Underlying().(*types.Signature)
			if !ok {
				continue
			}
			nVal, hasScope, hasName := 0, false, false
			for i := 0; i < sig.Params().Len(); i++ {
				t := sig.Params().At(i).Type()
				switch {
				case typeIs(t, syslPkg, "Value"):
					nVal++
				case isScopeType(t):
					hasScope = true
				case isStringType(t):
					hasName = true
				}
			}
			switch {
			case hasScope && hasName:
				roleOf["exprFunctions"] = n
			case nVal == 2:
				roleOf["valueFunctions"] = n
			case nVal == 1:
				roleOf["unaryFunctions"] = n
			}
		}
	}
	c10ExprTable = roleOf["exprFunctions"]
	for _, g := range []string{"valueFunctions", "exprFunctions", "unaryFunctions"} {
		if roleOf[g] != "" {
			tables[g] = tableFuncs(p, evalPkg, roleOf[g])
		}
		total += len(tables[g])
	}
	// the evaluator object, by role: the struct of the package that the iterating
	// operators of the table take as their first parameter
	c10EvalObj = "exprEval"
	for _, f := range tables["exprFunctions"] {
		if len(f.Params) > 0 {
			if n := namedOf(f.Params[0].Type()); n != nil && n.Obj().Pkg() != nil && n.Obj().Pkg().Path() == evalPkg {
				if _, isStruct := n.Underlying().(*types.Struct); isStruct {
					c10EvalObj = n.Obj().Name()
				}
			}
		}
	}
	c.Counts["table_functions"] = total
	if len(tables["valueFunctions"]) < 20 || len(tables["exprFunctions"]) < 5 {
		c.Undecidedf("ANCHOR", "operator tables", "-", "operator tables could not be folded (valueFunctions=%d exprFunctions=%d unaryFunctions=%d)",
			len(tables["valueFunctions"]), len(tables["exprFunctions"]), len(tables["unaryFunctions"]))
		return
	}
	// (1) operand purity
	for _, g := range []string{"exprFunctions", "unaryFunctions", "valueFunctions"} {
		for _, f := range tables[g] {
			key := fmt.Sprintf("%s|%s", g, fnName(f))
			s := e.sum[f]
			if s == nil {
				c.Undecidedf("OPERAND-PURITY", key, p.pos(f.Pos()), "no summary for table function")
				continue
			}
			bad := ""
			ids := make([]string, 0, len(s.effects))
			for id := range s.effects {
				ids = append(ids, id)
			}
			sort.Strings(ids)
			for _, id := range ids {
				ef := s.effects[id]
				if ef.Root < 0 || ef.Root >= len(f.Params) {
					continue
				}
				prm := f.Params[ef.Root]
				switch {
				case typeIs(prm.Type(), syslPkg, "Value") || typeIs(prm.Type(), syslPkg, "Expr"):
					if bad == "" {
						bad = fmt.Sprintf("%s through operand %s (%s)", ef.Kind, prm.Name(), ef.Why)
					}
				case typeIs(prm.Type(), evalPkg, "Scope"):
					// only bindings under the scope-variable parameter
					okKey := ef.Kind == "mapset" && ef.Key >= 0 && ef.Key < len(f.Params) && isStringType(f.Params[ef.Key].Type())
					if !okKey && ef.Kind != "unknown" && bad == "" {
						bad = fmt.Sprintf("%s on the caller's scope outside the scope-variable binding (%s)", ef.Kind, ef.Why)
					}
				}
			}
			if bad == "" {
				c.Okf("OPERAND-PURITY", key, p.pos(f.Pos()), "no write through a value operand (effect summary: %d effects, none on operands)", len(s.effects))
			} else {
				c.Flagf("OPERAND-PURITY", key, p.pos(f.Pos()), "a table-registered operator modifies its operand: %s — a value already bound to a variable changes", bad)
			}
		}
	}
	// (2) aliasing appends
	c10Appends(c, evalPkg, "RETAINED-APPEND")
	// (3) scope discipline
	c10Scope(c, tables)
	// (4) set construction
	c10Sets(c, tables)
	// (6) evaluator state
	c10State(c)
	// (5) order
	runOrder(c, "MAP-ORDER", e, func(f *ssa.Function) bool {
		return fnPkgPath(f) == evalPkg && !strings.HasSuffix(p.fnFile(f), "/debugger.go")
	})
}

// c10Appends: the two aliasing shapes of append (used for pkg/eval and, under
// C17, for pkg/arrai/relmod).
func c10Appends(c *Check, pkgPath, rule string) {
	p := c.P
	n := 0
	for _, f := range p.RepoFuncs() {
		if fnPkgPath(f) != pkgPath || p.isGeneratedFile(p.fnFile(f)) || strings.HasSuffix(p.fnFile(f), "/debugger.go") {
			continue
		}
		eachInstr(f, func(_ *ssa.BasicBlock, i ssa.Instruction) {
			call, ok := i.(*ssa.Call)
			if !ok || appendCall(call) == nil {
				return
			}
			n++
			base := call.Call.Args[0]
			key := fmt.Sprintf("%s|append", fnName(f))
			// shape A: base (possibly through a local struct field) is a slice loaded from a field of a pointer parameter
			var src ssa.Value
			derives(base, func(v ssa.Value) bool {
				ld, ok := v.(*ssa.UnOp)
				if !ok || ld.Op != token.MUL {
					return false
				}
				fa, ok := ld.X.(*ssa.FieldAddr)
				if !ok {
					return false
				}
				for _, r := range rootsOf(fa.X) {
					if r.Kind == rParam || r.Kind == rFree {
						src = ld
						return true
					}
				}
				return false
			}, nil)
			if src != nil {
				srcAddr := src.(*ssa.UnOp).X
				okBack := true
				nStores := 0
				for _, r := range *call.Referrers() {
					switch x := r.(type) {
					case *ssa.Store:
						nStores++
						if exprKey(x.Addr, 0) != exprKey(srcAddr, 0) {
							okBack = false
						}
					case *ssa.DebugRef:
					default:
						okBack = false
					}
				}
				if nStores == 0 {
					okBack = false
				}
				c.Cond(okBack, rule, key, p.pos(call.Pos()),
					"append extends a slice held in a field of a parameter and stores the result back to that same field",
					"append extends a slice that belongs to a parameter's object and keeps the result elsewhere: when the slice has spare capacity the new elements are written into the operand's array, so a later append on the same operand overwrites this result (or this one an earlier result)")
				return
			}
			// shape B: base is a slice parameter / captured slice; result retained in another object
			if prm, isP := unspill(base).(*ssa.Parameter); isP {
				retained := ""
				for _, r := range *call.Referrers() {
					switch x := r.(type) {
					case *ssa.Store:
						if _, _, _, isField := fieldOfAddr(x.Addr); isField {
							retained = "stored in a struct field"
						}
						if _, isIdx := x.Addr.(*ssa.IndexAddr); isIdx {
							retained = "stored in a slice/array element"
						}
					case *ssa.MapUpdate:
						retained = "stored in a map"
					case ssa.CallInstruction:
						if _, isB := x.Common().Value.(*ssa.Builtin); !isB {
							// passed on: retained if the callee stores it (summary not consulted: callers that pass it on are few)
							if sc := staticCallee(x); sc != nil && isRepoFn(sc) && sc != f {
								if storesParam(sc, x, call) {
									retained = "passed to " + sc.Name() + ", which stores it"
								}
							}
						}
					}
				}
				c.Cond(retained == "", rule, key, p.pos(call.Pos()),
					fmt.Sprintf("append on slice parameter %s: the result is returned or rebound, not retained elsewhere", prm.Name()),
					fmt.Sprintf("append on slice parameter %s whose result is %s: every call with the same argument and spare capacity shares one backing array, so results retained from sibling calls overwrite each other", prm.Name(), retained))
				return
			}
			c.Okf(rule, key, p.pos(call.Pos()), "append on a locally owned slice")
		})
	}
	c.Counts[rule+"_append_sites"] = n
}

// storesParam: callee retains the parameter that receives v: the value (also
// when spilled into a cell and read back, possibly inside a closure of the
// callee) is stored into a struct field, a map or a slice element.
func storesParam(callee *ssa.Function, site ssa.CallInstruction, v ssa.Value) bool {
	for ai, a := range site.Common().Args {
		if a != v || ai >= len(callee.Params) {
			continue
		}
		seen := map[ssa.Value]bool{}
		var retained func(val ssa.Value, d int) bool
		retained = func(val ssa.Value, d int) bool {
			if d > 8 || seen[val] || val.Referrers() == nil {
				return false
			}
			seen[val] = true
			for _, r := range *val.Referrers() {
				switch x := r.(type) {
				case *ssa.Store:
					if x.Val != val {
						continue
					}
					if _, _, _, isField := fieldOfAddr(x.Addr); isField {
						return true
					}
					if _, isIdx := x.Addr.(*ssa.IndexAddr); isIdx {
						return true
					}
					if al, ok := x.Addr.(*ssa.Alloc); ok {
						// spill cell: loads here and in closures capturing the cell
						for _, r2 := range *al.Referrers() {
							switch y := r2.(type) {
							case *ssa.UnOp:
								if retained(y, d+1) {
									return true
								}
							case *ssa.MakeClosure:
								fn, _ := y.Fn.(*ssa.Function)
								if fn == nil {
									continue
								}
								for k, bnd := range y.Bindings {
									if bnd == ssa.Value(al) && k < len(fn.FreeVars) {
										for _, r3 := range *fn.FreeVars[k].Referrers() {
											if ld, ok := r3.(*ssa.UnOp); ok && retained(ld, d+1) {
												return true
											}
										}
									}
								}
							}
						}
					}
				case *ssa.MapUpdate:
					if x.Value == val {
						return true
					}
				case *ssa.Phi:
					if retained(x, d+1) {
						return true
					}
				}
			}
			return false
		}
		if retained(callee.Params[ai], 0) {
			return true
		}
	}
	return false
}

func isScopeType(t types.Type) bool { return typeIs(t, evalPkg, "Scope") }

func c10Scope(c *Check, tables map[string][]*ssa.Function) {
	p := c.P
	inTable := map[*ssa.Function]bool{}
	for _, f := range tables["exprFunctions"] {
		inTable[f] = true
	}
	// helpers that only the table-dispatched iterators call (a loop shared by two
	// of them) run under the same dispatch site: its save/delete/restore covers them
	{
		callers := map[*ssa.Function]map[*ssa.Function]bool{}
		for _, g := range p.RepoFuncs() {
			if fnPkgPath(g) != evalPkg {
				continue
			}
			root := g
			for root.Parent() != nil {
				root = root.Parent()
			}
			eachInstr(g, func(_ *ssa.BasicBlock, i ssa.Instruction) {
				for _, op := range i.Operands(nil) {
					if op == nil || *op == nil {
						continue
					}
					if callee, ok := (*op).(*ssa.Function); ok && fnPkgPath(callee) == evalPkg && callee.Parent() == nil && callee != root {
						if callers[callee] == nil {
							callers[callee] = map[*ssa.Function]bool{}
						}
						callers[callee][root] = true
					}
				}
			})
		}
		for changed := true; changed; {
			changed = false
			for callee, cs := range callers {
				if inTable[callee] || len(cs) == 0 {
					continue
				}
				all := true
				for c := range cs {
					if !inTable[c] {
						all = false
					}
				}
				if all {
					inTable[callee] = true
					changed = true
				}
			}
		}
	}
	so := buildScopeOps(p)
	c.Counts["scope_slot_helpers"] = len(so.kind)
	// (a) binders outside the table: every binding under a scope-variable key is deleted on all paths
	nb := 0
	nw := 0
	for _, f := range p.RepoFuncs() {
		if fnPkgPath(f) != evalPkg || strings.HasSuffix(p.fnFile(f), "/debugger.go") {
			continue
		}
		eachInstr(f, func(_ *ssa.BasicBlock, i ssa.Instruction) {
			mu, ok := i.(*ssa.MapUpdate)
			if !ok || !isScopeType(mu.Map.Type()) {
				return
			}
			if _, isParam := unspill(mu.Map).(*ssa.Parameter); !isParam {
				return // a scope built locally (call scope, AddInt…)
			}
			// scope-variable key: a parameter named scopeVar, or loaded from a field named Scopevar
			isSV := false
			if prm, ok := unspill(mu.Key).(*ssa.Parameter); ok && strings.EqualFold(prm.Name(), "scopevar") {
				isSV = true
			}
			if derives(mu.Key, func(v ssa.Value) bool {
				_, fld, _, ok := loadedField(v)
				return ok && fld == "Scopevar"
			}, nil) {
				isSV = true
			}
			if !isSV {
				// Any other binding written into the scope the caller handed in
				// outlives the call: only a `let` may do that (the language binds
				// it for the rest of the enclosing transform), and a write-back
				// of a value read from the same key.
				if derives(mu.Value, func(v ssa.Value) bool {
					lk, ok := v.(*ssa.Lookup)
					return ok && isScopeType(lk.X.Type()) && exprKey(lk.Index, 0) == exprKey(mu.Key, 0)
				}, nil) {
					return
				}
				// (the scope's own methods are how its owner fills it)
				if r := f.Signature.Recv(); r != nil && isScopeType(r.Type()) {
					return
				}
				nw++
				isLet := derives(mu.Key, func(v ssa.Value) bool {
					own, fld, _, ok := loadedField(v)
					return ok && fld == "Let" && own != nil && strings.Contains(own.Obj().Name(), "Stmt_Let")
				}, nil)
				c.Cond(isLet, "SCOPE-WRITERS", fmt.Sprintf("%s|binding under %s", fnName(f), operandText(mu.Key)), p.pos(mu.Pos()),
					"a `let` binding: kept for the statements that follow, by the language's design",
					"evaluation code files a binding in the scope its caller handed in, under a key that is neither a scope variable (bound and unbound around an iteration) nor the name of a `let`: the caller's variable of that name is overwritten and the binding outlives the evaluation")
				return
			}
			// restoring a saved binding is not a new binding
			if derives(mu.Value, func(v ssa.Value) bool {
				lk, ok := v.(*ssa.Lookup)
				return ok && isScopeType(lk.X.Type()) && exprKey(lk.Index, 0) == exprKey(mu.Key, 0)
			}, nil) {
				return
			}
			nb++
			key := fmt.Sprintf("%s|scope variable released", fnName(f))
			if inTable[f] {
				c.Okf("SCOPE-DISCIPLINE", key, p.pos(mu.Pos()), "table-dispatched iterator: its binding is deleted and restored at the dispatch site (checked there)")
				return
			}
			del := func(x ssa.Instruction) bool {
				cl, ok := x.(*ssa.Call)
				if !ok {
					return false
				}
				b, ok := cl.Call.Value.(*ssa.Builtin)
				return ok && b.Name() == "delete" && exprKey(cl.Call.Args[1], 0) == exprKey(mu.Key, 0)
			}
			if ret, bad := reachAvoiding(mu, isReturn, del); bad {
				c.Flagf("SCOPE-DISCIPLINE", key, p.pos(mu.Pos()), "the scope variable bound here is still bound at the return at %s: it leaks into the enclosing evaluation", p.pos(ret.Pos()))
			} else {
				c.Okf("SCOPE-DISCIPLINE", key, p.pos(mu.Pos()), "every path from the binding to a return deletes the scope variable")
			}
			// the previous binding must be saved and written back by f or by one of its (transitive, static) callers in pkg/eval
			c.Cond(scopeSavedAndRestored(p, f, 0, map[*ssa.Function]bool{}, so), "SCOPE-DISCIPLINE", fmt.Sprintf("%s|outer binding restored", fnName(f)), p.pos(mu.Pos()),
				"the previous binding of the scope variable is saved before and written back after the iteration (here or in the calling evaluator)",
				"nobody saves and restores the previous binding of this scope variable: an outer variable with the same name is deleted by the iteration")
		})
	}
	// the same for bindings made through a slot object (slot.bind(v) … slot.unbind())
	for _, f := range p.RepoFuncs() {
		if fnPkgPath(f) != evalPkg || strings.HasSuffix(p.fnFile(f), "/debugger.go") || so.kind[f] != "" {
			continue
		}
		eachInstr(f, func(_ *ssa.BasicBlock, i ssa.Instruction) {
			kind, recv, cl := so.op(i)
			if kind != "bind" {
				return
			}
			name := so.slotName(recv)
			if name == nil {
				return
			}
			isSV := false
			if prm, ok := unspill(name).(*ssa.Parameter); ok && strings.EqualFold(prm.Name(), "scopevar") {
				isSV = true
			}
			if derives(name, func(v ssa.Value) bool {
				_, fld, _, ok := loadedField(v)
				return ok && fld == "Scopevar"
			}, nil) {
				isSV = true
			}
			if !isSV {
				return
			}
			nb++
			key := fmt.Sprintf("%s|scope variable released", fnName(f))
			if inTable[f] {
				c.Okf("SCOPE-DISCIPLINE", key, p.pos(cl.Pos()), "table-dispatched iterator: its binding is deleted and restored at the dispatch site (checked there)")
				return
			}
			nameKey := exprKey(name, 0)
			del := func(x ssa.Instruction) bool {
				if dc, ok := x.(*ssa.Call); ok {
					if b, ok := dc.Call.Value.(*ssa.Builtin); ok && b.Name() == "delete" && exprKey(dc.Call.Args[1], 0) == nameKey {
						return true
					}
				}
				if k, r, _ := so.op(x); k == "unbind" {
					if n := so.slotName(r); n != nil && exprKey(n, 0) == nameKey {
						return true
					}
				}
				return false
			}
			if ret, bad := reachAvoiding(cl, isReturn, del); bad {
				c.Flagf("SCOPE-DISCIPLINE", key, p.pos(cl.Pos()), "the scope variable bound here is still bound at the return at %s: it leaks into the enclosing evaluation", p.pos(ret.Pos()))
			} else {
				c.Okf("SCOPE-DISCIPLINE", key, p.pos(cl.Pos()), "every path from the binding to a return unbinds the scope variable")
			}
			c.Cond(scopeSavedAndRestored(p, f, 0, map[*ssa.Function]bool{}, so), "SCOPE-DISCIPLINE", fmt.Sprintf("%s|outer binding restored", fnName(f)), p.pos(cl.Pos()),
				"the previous binding of the scope variable is saved before and written back after the iteration (here or in the calling evaluator)",
				"nobody saves and restores the previous binding of this scope variable: an outer variable with the same name is deleted by the iteration")
		})
	}
	c.Counts["other_scope_writes"] = nw
	c.Okf("SCOPE-WRITERS", "scan", "-", "writes into a caller-supplied scope under a key that is not a scope variable: %d found and judged", nw)
	c.Counts["scope_variable_bindings"] = nb
	// (b) dispatch site: dynamic call of an exprFunctions entry
	nd := 0
	isTableEntry := func(v ssa.Value) bool {
		return derives(v, func(v ssa.Value) bool {
			lk, ok := v.(*ssa.Lookup)
			if !ok {
				return false
			}
			g, isG := loadsGlobal(lk.X)
			return isG && g.Name() == c10ExprTable
		}, nil)
	}
	// around: the discipline (save, delete, restore) evaluated in function f around
	// the instruction `call` for the scope-variable value sv
	around := func(f *ssa.Function, call ssa.Instruction, sv ssa.Value, key string) {
		svKey := exprKey(sv, 0)
		// save before
		var save *ssa.Lookup
		eachInstr(f, func(_ *ssa.BasicBlock, j ssa.Instruction) {
			if lk, ok := j.(*ssa.Lookup); ok && lk.CommaOk && isScopeType(lk.X.Type()) && exprKey(lk.Index, 0) == svKey && instrDominates(lk, call) {
				save = lk
			}
		})
		// … or through a slot object
		var hsave *ssa.Call
		if save == nil {
			eachInstr(f, func(_ *ssa.BasicBlock, j ssa.Instruction) {
				if k, r, cl := so.op(j); k == "save" && instrDominates(cl, call) {
					if n := so.slotName(r); n != nil && exprKey(n, 0) == svKey {
						hsave = cl
					}
				}
			})
		}
		c.Cond(save != nil || hsave != nil, "SCOPE-DISCIPLINE", key+"|previous binding saved", p.pos(call.Pos()),
			"the previous binding of the scope variable is read (comma-ok) before the operator runs",
			"the previous binding of the scope variable is not saved before the operator overwrites it")
		// delete after on all paths
		del := func(x ssa.Instruction) bool {
			cl, ok := x.(*ssa.Call)
			if !ok {
				return false
			}
			if k, r, _ := so.op(x); k == "unbind" {
				if n := so.slotName(r); n != nil && exprKey(n, 0) == svKey {
					return true
				}
			}
			b, ok := cl.Call.Value.(*ssa.Builtin)
			return ok && b.Name() == "delete" && exprKey(cl.Call.Args[1], 0) == svKey
		}
		_, leak := reachAvoiding(call, isReturn, del)
		c.Cond(!leak, "SCOPE-DISCIPLINE", key+"|binding deleted after the call", p.pos(call.Pos()),
			"every path from the operator call to a return deletes the scope variable",
			"a path from the operator call reaches a return without deleting the scope variable: `where`/`flatten` leak their scope variable")
		// restore: MapUpdate with saved value under the ok flag
		restored := false
		if save != nil {
			eachInstr(f, func(_ *ssa.BasicBlock, j ssa.Instruction) {
				mu, ok := j.(*ssa.MapUpdate)
				if !ok || exprKey(mu.Key, 0) != svKey || !instrDominates(call, mu) {
					return
				}
				if derives(mu.Value, func(v ssa.Value) bool { return v == ssa.Value(save) }, nil) {
					restored = true
				}
			})
		}
		if hsave != nil {
			eachInstr(f, func(_ *ssa.BasicBlock, j ssa.Instruction) {
				if k, r, cl := so.op(j); k == "restore" && instrDominates(call, cl) && so.savedBy(r) == hsave {
					restored = true
				}
			})
		}
		c.Cond(restored, "SCOPE-DISCIPLINE", key+"|previous binding restored", p.pos(call.Pos()),
			"the saved binding is written back after the deletion", "the saved binding of the scope variable is never written back: an outer variable with the same name is lost")
	}
	for _, f := range p.RepoFuncs() {
		if fnPkgPath(f) != evalPkg {
			continue
		}
		eachInstr(f, func(_ *ssa.BasicBlock, i ssa.Instruction) {
			call, ok := i.(*ssa.Call)
			if !ok || call.Call.IsInvoke() || call.Call.StaticCallee() != nil {
				return
			}
			if _, isB := call.Call.Value.(*ssa.Builtin); isB {
				return
			}
			callee := call.Call.Value
			inClosure := false
			var mc *ssa.MakeClosure
			if ld, isLd := callee.(*ssa.UnOp); isLd && ld.Op == token.MUL {
				callee = ld.X
			}
			if fv, isFV := callee.(*ssa.FreeVar); isFV && f.Parent() != nil {
				// the operator was looked up by the enclosing function and is run by a closure
				eachInstr(f.Parent(), func(_ *ssa.BasicBlock, j ssa.Instruction) {
					if m, ok := j.(*ssa.MakeClosure); ok && m.Fn == ssa.Value(f) {
						for k, b := range m.Bindings {
							if k < len(f.FreeVars) && f.FreeVars[k] == fv {
								// the binding is the cell holding the looked-up function, or the value itself
								v := b
								if al, isAl := b.(*ssa.Alloc); isAl && al.Referrers() != nil {
									for _, r := range *al.Referrers() {
										if st, isSt := r.(*ssa.Store); isSt && st.Addr == ssa.Value(al) {
											v = st.Val
										}
									}
								}
								if isTableEntry(v) {
									inClosure, mc = true, m
								}
							}
						}
					}
				})
				if !inClosure {
					return
				}
			} else if !isTableEntry(call.Call.Value) {
				return
			}
			nd++
			key := fmt.Sprintf("%s|dispatch of iterating operators", fnName(f))
			// scope argument and scope-variable argument
			var scope, sv ssa.Value
			for _, a := range call.Call.Args {
				if isScopeType(a.Type()) {
					scope = a
				}
				if _, fld, _, ok := loadedField(unspill(a)); ok && fld == "Scopevar" {
					sv = a
				}
			}
			if inClosure {
				// the closure is handed to a helper that runs it between saving and
				// restoring the scope variable: evaluate the discipline there
				outer := f.Parent()
				done := false
				for _, r := range *mc.Referrers() {
					hc, ok := r.(*ssa.Call)
					if !ok {
						continue
					}
					h := hc.Call.StaticCallee()
					if h == nil || !isRepoFn(h) || len(h.Blocks) == 0 {
						continue
					}
					bodyIdx, nameIdx := -1, -1
					for k, a := range hc.Call.Args {
						if a == ssa.Value(mc) {
							bodyIdx = k
						}
						if _, fld, _, ok := loadedField(unspill(a)); ok && fld == "Scopevar" {
							nameIdx = k
						}
					}
					if bodyIdx < 0 || nameIdx < 0 || bodyIdx >= len(h.Params) || nameIdx >= len(h.Params) {
						continue
					}
					eachInstr(h, func(_ *ssa.BasicBlock, j ssa.Instruction) {
						bc, ok := j.(*ssa.Call)
						if ok && bc.Call.Value == ssa.Value(h.Params[bodyIdx]) {
							around(h, bc, h.Params[nameIdx], fmt.Sprintf("%s|dispatch of iterating operators", fnName(outer)))
							done = true
						}
					})
				}
				if !done {
					c.Undecidedf("SCOPE-DISCIPLINE", key, p.pos(call.Pos()), "the operator is run by a closure, and the helper that runs the closure between saving and restoring the scope variable was not found")
				}
				return
			}
			if scope == nil || sv == nil {
				c.Undecidedf("SCOPE-DISCIPLINE", key, p.pos(call.Pos()), "dispatch call does not pass (scope, scope variable) in a recognisable form")
				return
			}
			around(f, call, sv, key)
		})
	}
	if nd == 0 {
		c.Undecidedf("SCOPE-DISCIPLINE", "dispatch", "-", "no dispatch site of the exprFunctions table found")
	}
}

func c10Sets(c *Check, tables map[string][]*ssa.Function) {
	p := c.P
	// (a) appender used on the set-typed transform path
	var dedup, plain []*ssa.Function
	for _, f := range p.RepoFuncs() {
		if fnPkgPath(f) != evalPkg || f.Parent() != nil {
			continue
		}
		sig := f.Signature
		if sig.Params().Len() != 2 || sig.Results().Len() != 1 {
			continue
		}
		if _, ok := sig.Params().At(0).Type().Underlying().(*types.Slice); !ok || !typeIs(sig.Params().At(1).Type(), syslPkg, "Value") {
			continue
		}
		hasAppend, hasEq := false, false
		var ap *ssa.Call
		eachInstr(f, func(_ *ssa.BasicBlock, i ssa.Instruction) {
			if cl, ok := i.(*ssa.Call); ok {
				if appendCall(cl) != nil {
					hasAppend, ap = true, cl
				}
				if o := calleeObj(cl); o != nil && (o.Name() == "Equal" || o.Name() == "DeepEqual") {
					hasEq = true
				}
			}
		})
		if !hasAppend {
			continue
		}
		// dedup shape: the append is not executed on a path where an equality call returned true
		guarded := false
		if hasEq {
			eachInstr(f, func(_ *ssa.BasicBlock, i ssa.Instruction) {
				cl, ok := i.(*ssa.Call)
				if !ok {
					return
				}
				if o := calleeObj(cl); o == nil || !(o.Name() == "Equal" || o.Name() == "DeepEqual") {
					return
				}
				// the flag set on the true edge must gate the append: find an If whose condition derives from a phi fed by a constant true on the equal path
				for _, b := range f.Blocks {
					iff, ok := b.Instrs[len(b.Instrs)-1].(*ssa.If)
					if !ok {
						continue
					}
					if !derives(iff.Cond, func(v ssa.Value) bool {
						ph, ok := v.(*ssa.Phi)
						if !ok {
							return false
						}
						for _, e := range ph.Edges {
							if cv, ok := e.(*ssa.Const); ok && cv.Value != nil && cv.Value.String() == "true" {
								return true
							}
						}
						return false
					}, nil) {
						continue
					}
					t, fl := b.Succs[0], b.Succs[1]
					if blockReaches(fl, ap.Block(), nil) && !blockReaches(t, ap.Block(), nil) {
						guarded = true
					}
				}
			})
		}
		if !guarded && hasEq {
			// early-return form: `for … { if equal(x, new) { return coll } }; return append(coll, new)` —
			// the equal outcome of every equality test cannot reach the append at all
			all, n := true, 0
			eachInstr(f, func(_ *ssa.BasicBlock, i ssa.Instruction) {
				cl, ok := i.(*ssa.Call)
				if !ok {
					return
				}
				if o := calleeObj(cl); o == nil || !(o.Name() == "Equal" || o.Name() == "DeepEqual") {
					return
				}
				brs := branchesOn(cl)
				if len(brs) == 0 {
					all = false
					return
				}
				for _, br := range brs {
					n++
					if blockReaches(br.TrueSucc, ap.Block(), nil) {
						all = false
					}
				}
			})
			if all && n > 0 {
				guarded = true
			}
		}
		if guarded {
			dedup = append(dedup, f)
		} else {
			plain = append(plain, f)
		}
	}
	// which appender does the set path pass?
	n := 0
	for _, f := range p.RepoFuncs() {
		if fnPkgPath(f) != evalPkg || !strings.Contains(strings.ToLower(f.Name()), "set") {
			continue
		}
		eachCall(f, func(cl ssa.CallInstruction) {
			for _, a := range cl.Common().Args {
				fn, ok := stripFuncValue(a)
				if !ok {
					continue
				}
				isD, isP := false, false
				for _, d := range dedup {
					if d == fn {
						isD = true
					}
				}
				for _, q := range plain {
					if q == fn {
						isP = true
					}
				}
				if !isD && !isP {
					continue
				}
				n++
				c.Cond(isD, "SET-DEDUP", fmt.Sprintf("%s|appender %s", fnName(f), fn.Name()), p.pos(cl.Pos()),
					"the set-typed transform path appends through a function whose append is skipped when an equal element is already present",
					"the set-typed transform path appends without an equality scan: a set result can contain duplicates")
			}
		})
	}
	if n == 0 {
		c.Undecidedf("SET-DEDUP", "set transform", "-", "no set-typed transform path passing an appender function found")
	}
	// (a') whatever slice is installed as the element list of a set value must be
	// built through the de-duplicating appender. Keyed by type, not by name: a
	// store into Value_List.Value where the list is the Set payload of a Value.
	isDedup := func(fn *ssa.Function) bool {
		for _, d := range dedup {
			if d == fn {
				return true
			}
		}
		return false
	}
	isPlain := func(fn *ssa.Function) bool {
		for _, d := range plain {
			if d == fn {
				return true
			}
		}
		return false
	}
	// dedupBuilt: every slice the function returns comes from a call that hands a
	// de-duplicating appender (and no plain one) on, or from such a function.
	var dedupBuilt func(fn *ssa.Function, depth int) (bool, string)
	dedupBuilt = func(fn *ssa.Function, depth int) (bool, string) {
		if fn == nil || depth > 4 || len(fn.Blocks) == 0 {
			return false, "callee not resolved"
		}
		nret := 0
		var rvs []ssa.Value
		for _, b := range fn.Blocks {
			if ret, ok := b.Instrs[len(b.Instrs)-1].(*ssa.Return); ok && len(ret.Results) > 0 {
				vals, _ := returnValues(ret)
				rvs = append(rvs, vals[0])
			}
		}
		for _, rv := range rvs {
			nret++
			cl, ok := rv.(*ssa.Call)
			if !ok {
				return false, fmt.Sprintf("%s returns a slice that is not the result of an appender-driven call", fn.Name())
			}
			sawD := false
			for _, a := range cl.Call.Args {
				if af, ok := stripFuncValue(a); ok {
					if isPlain(af) {
						return false, fmt.Sprintf("%s builds its result with the plain appender %s", fn.Name(), af.Name())
					}
					if isDedup(af) {
						sawD = true
					}
				}
			}
			if sawD {
				continue
			}
			if ok, why := dedupBuilt(staticCallee(cl), depth+1); !ok {
				return false, why
			}
		}
		return nret > 0, fmt.Sprintf("%s has no slice result", fn.Name())
	}
	ninst := 0
	for _, f := range p.RepoFuncs() {
		if fnPkgPath(f) != evalPkg {
			continue
		}
		eachInstr(f, func(_ *ssa.BasicBlock, i ssa.Instruction) {
			st, ok := i.(*ssa.Store)
			if !ok {
				return
			}
			own, fld, base, ok := fieldOfAddr(st.Addr)
			if !ok || own == nil || own.Obj().Name() != "Value_List" || fld != "Value" {
				return
			}
			fromSet := derives(base, func(v ssa.Value) bool {
				if cl, ok := v.(*ssa.Call); ok {
					if sc := staticCallee(cl); sc != nil && sc.Name() == "GetSet" && fnPkgPath(sc) == syslPkg {
						return true
					}
				}
				if o, fl, _, ok := loadedField(v); ok && o != nil && o.Obj().Name() == "Value_Set" && fl == "Set" {
					return true
				}
				return false
			}, nil)
			if !fromSet {
				return
			}
			ninst++
			key := fmt.Sprintf("%s|element list installed in a set", fnName(f))
			switch x := st.Val.(type) {
			case *ssa.Call:
				if ok, why := dedupBuilt(staticCallee(x), 0); ok {
					c.Okf("SET-DEDUP", key, p.pos(st.Pos()), "the slice installed as the set's elements is built through the de-duplicating appender on every return of %s", staticCallee(x).Name())
				} else {
					c.Flagf("SET-DEDUP", key, p.pos(st.Pos()), "the slice installed as the elements of a set value is not built through the de-duplicating appender (%s): the set can contain duplicates", why)
				}
			case *ssa.Phi:
				bad := ""
				for _, e := range x.Edges {
					cl, isCall := e.(*ssa.Call)
					if !isCall {
						bad = "one incoming value is not an appender-driven call"
						break
					}
					if ok, why := dedupBuilt(staticCallee(cl), 0); !ok {
						bad = why
						break
					}
				}
				c.Cond(bad == "", "SET-DEDUP", key, p.pos(st.Pos()),
					"every slice that can be installed as the set's elements is built through the de-duplicating appender",
					"a slice that can be installed as the elements of a set value is not built through the de-duplicating appender ("+bad+"): the set can contain duplicates")
			case *ssa.MakeSlice, *ssa.Const:
				c.Okf("SET-DEDUP", key, p.pos(st.Pos()), "an empty element list is installed")
			case *ssa.Slice:
				if _, isAlloc := x.X.(*ssa.Alloc); isAlloc {
					c.Okf("SET-DEDUP", key, p.pos(st.Pos()), "a literal element list is installed")
				} else {
					c.Flagf("SET-DEDUP", key, p.pos(st.Pos()), "a slice of unknown construction is installed as the elements of a set value")
				}
			default:
				c.Flagf("SET-DEDUP", key, p.pos(st.Pos()), "a slice of unknown construction is installed as the elements of a set value")
			}
		})
	}
	if ninst == 0 {
		c.Undecidedf("SET-DEDUP", "element list installed in a set", "-", "no store of an element list into a set value found in pkg/eval: unresolved anchor")
	}
	// (b) the (set,set) union operator: results come from map keys
	for _, f := range tables["valueFunctions"] {
		if !strings.Contains(strings.ToLower(f.Name()), "union") {
			continue
		}
		// every returned value that is a call must be to a function that ranges over a map to build its list
		okAll, nret := true, 0
		for _, b := range f.Blocks {
			ret, ok := b.Instrs[len(b.Instrs)-1].(*ssa.Return)
			if !ok {
				continue
			}
			call, ok := retVal(ret, 0).(*ssa.Call)
			if !ok {
				continue
			}
			sc := staticCallee(call)
			if sc == nil || !isRepoFn(sc) {
				continue
			}
			if strings.HasPrefix(sc.Name(), "MakeValue") {
				continue // empty result
			}
			nret++
			if !rangesOverMapParam(sc, 0) {
				okAll = false
			}
			// and its argument is a map
			if len(call.Call.Args) == 0 {
				okAll = false
			} else if _, isMap := call.Call.Args[0].Type().Underlying().(*types.Map); !isMap {
				okAll = false
			}
		}
		c.Cond(okAll && nret > 0, "SET-DEDUP", fnName(f)+"|union built from map keys", p.pos(f.Pos()),
			fmt.Sprintf("all %d non-empty results of the union operator are produced from the keys of a Go map (duplicates impossible)", nret),
			"the set-union operator returns a value that is not produced from the keys of a Go map: duplicates are possible")
	}
}

func stripFuncValue(v ssa.Value) (*ssa.Function, bool) {
	for d := 0; d < 4; d++ {
		switch x := v.(type) {
		case *ssa.Function:
			return x, true
		case *ssa.MakeClosure:
			v = x.Fn
		case *ssa.ChangeType:
			v = x.X
		default:
			return nil, false
		}
	}
	return nil, false
}

// scopeSavedAndRestored: f (or a static caller, up to depth 3) reads the
// binding of a Scopevar-named key with comma-ok and later writes that value
// back under the same key (possibly in a deferred closure).
func scopeSavedAndRestored(p *Program, f *ssa.Function, depth int, seen map[*ssa.Function]bool, so *scopeOps) (result bool) {
	if depth > 6 {
		return false
	}
	if v, ok := seen[f]; ok {
		return v
	}
	seen[f] = false // in progress
	defer func() { seen[f] = result }()
	isSVKey := func(k ssa.Value) bool {
		return derives(k, func(v ssa.Value) bool {
			_, fld, _, ok := loadedField(v)
			return ok && fld == "Scopevar"
		}, nil)
	}
	var saves []*ssa.Lookup
	eachInstr(f, func(_ *ssa.BasicBlock, i ssa.Instruction) {
		if lk, ok := i.(*ssa.Lookup); ok && lk.CommaOk && isScopeType(lk.X.Type()) && isSVKey(lk.Index) {
			saves = append(saves, lk)
		}
	})
	for _, save := range saves {
		// the saved value: Extract #0, possibly spilled into a cell captured by a deferred closure
		var cells []ssa.Value
		for _, r := range *save.Referrers() {
			if ex, ok := r.(*ssa.Extract); ok && ex.Index == 0 {
				cells = append(cells, ex)
				for _, r2 := range *ex.Referrers() {
					if st, ok := r2.(*ssa.Store); ok {
						cells = append(cells, st.Addr)
					}
				}
			}
		}
		restored := false
		for _, g := range withClosures(f) {
			eachInstr(g, func(_ *ssa.BasicBlock, i ssa.Instruction) {
				mu, ok := i.(*ssa.MapUpdate)
				if !ok || !isScopeType(mu.Map.Type()) {
					return
				}
				// value comes from the saved lookup (directly, or by loading the captured cell)
				if derives(mu.Value, func(v ssa.Value) bool {
					for _, cv := range cells {
						if v == cv {
							return true
						}
					}
					if fv, ok := v.(*ssa.FreeVar); ok && g.Parent() != nil {
						for k, q := range g.FreeVars {
							if q != fv {
								continue
							}
							// binding in the parent
							found := false
							eachInstr(g.Parent(), func(_ *ssa.BasicBlock, j ssa.Instruction) {
								if mc, ok := j.(*ssa.MakeClosure); ok && mc.Fn == ssa.Value(g) && k < len(mc.Bindings) {
									for _, cv := range cells {
										if mc.Bindings[k] == cv {
											found = true
										}
									}
								}
							})
							return found
						}
					}
					return false
				}, nil) {
					restored = true
				}
			})
		}
		if restored {
			return true
		}
	}
	// saved in one step and restored in another, through fields of an object the
	// two steps share (run.saveOuterBindings(); defer run.restoreOuterBindings())
	{
		pathOf := func(addr ssa.Value) string {
			root, path := fieldPath(addr)
			if len(path) == 0 {
				return ""
			}
			if _, isParam := unspill(root).(*ssa.Parameter); !isParam {
				if ld, ok := root.(*ssa.UnOp); !ok || ld.Op != token.MUL {
					return ""
				}
			}
			return types.TypeString(root.Type(), nil) + "." + strings.Join(path, ".")
		}
		saverPaths := func(h *ssa.Function) map[string]bool {
			out := map[string]bool{}
			eachInstr(h, func(_ *ssa.BasicBlock, i ssa.Instruction) {
				lk, ok := i.(*ssa.Lookup)
				if !ok || !lk.CommaOk || !isScopeType(lk.X.Type()) || !isSVKey(lk.Index) || lk.Referrers() == nil {
					return
				}
				for _, r := range *lk.Referrers() {
					ex, ok := r.(*ssa.Extract)
					if !ok || ex.Index != 0 || ex.Referrers() == nil {
						continue
					}
					for _, r2 := range *ex.Referrers() {
						if st, ok := r2.(*ssa.Store); ok && st.Val == ssa.Value(ex) {
							if pth := pathOf(st.Addr); pth != "" {
								out[pth] = true
							}
						}
					}
				}
			})
			return out
		}
		restorerPaths := func(h *ssa.Function) map[string]bool {
			out := map[string]bool{}
			eachInstr(h, func(_ *ssa.BasicBlock, i ssa.Instruction) {
				mu, ok := i.(*ssa.MapUpdate)
				if !ok || !isScopeType(mu.Map.Type()) || !isSVKey(mu.Key) {
					return
				}
				if ld, ok := mu.Value.(*ssa.UnOp); ok && ld.Op == token.MUL {
					if pth := pathOf(ld.X); pth != "" {
						out[pth] = true
					}
				}
			})
			return out
		}
		type stepCall struct {
			h    *ssa.Function
			recv string
		}
		var steps []stepCall
		eachCall(f, func(cl ssa.CallInstruction) {
			h := cl.Common().StaticCallee()
			if h == nil || fnPkgPath(h) != evalPkg || len(h.Blocks) == 0 || len(cl.Common().Args) == 0 {
				return
			}
			steps = append(steps, stepCall{h, exprKey(cl.Common().Args[0], 0)})
		})
		for _, a := range steps {
			sp := saverPaths(a.h)
			if len(sp) == 0 {
				continue
			}
			for _, b := range steps {
				if b.recv != a.recv || b.h == a.h {
					continue
				}
				for pth := range restorerPaths(b.h) {
					if sp[pth] {
						return true
					}
				}
			}
		}
	}
	// saved and restored through a slot object
	if so != nil {
		var hsaves []*ssa.Call
		eachInstr(f, func(_ *ssa.BasicBlock, i ssa.Instruction) {
			if k, r, cl := so.op(i); k == "save" {
				if n := so.slotName(r); n != nil && isSVKey(n) {
					hsaves = append(hsaves, cl)
				}
			}
		})
		for _, sv := range hsaves {
			for _, g := range withClosures(f) {
				restored := false
				eachInstr(g, func(_ *ssa.BasicBlock, i ssa.Instruction) {
					if k, r, _ := so.op(i); k == "restore" && so.savedBy(r) == sv {
						restored = true
					}
				})
				if restored {
					return true
				}
			}
		}
	}
	// callers
	cg := p.CallGraph()
	if n := cg.Nodes[f]; n != nil {
		okAll, any := true, false
		for _, e := range n.In {
			caller := e.Caller.Func
			if fnPkgPath(caller) != evalPkg || caller == f {
				continue
			}
			any = true
			if !scopeSavedAndRestored(p, caller, depth+1, seen, so) {
				okAll = false
			}
		}
		return any && okAll
	}
	return false
}

// c10State: "equal inputs always give equal results" needs the evaluator to
// carry no state from one evaluation step into another: every write into the
// evaluator object (exprEval) or into a package-level variable of pkg/eval, made
// by evaluation code, is listed. Two fields are bookkeeping that no result reads
// (the expression stack used for diagnostics, the debugger hook); any other
// field or global written during evaluation (a cache, a counter, a memo table)
// is reported.
func c10State(c *Check) {
	p := c.P
	isEvalObj := func(t types.Type) bool { return typeIs(t, evalPkg, c10EvalObj) }
	// rootField: the first field of exprEval on the access path of addr, or the
	// package-level variable it starts from.
	var rootOf func(v ssa.Value, d int) (string, bool)
	rootOf = func(v ssa.Value, d int) (string, bool) {
		if v == nil || d > 8 {
			return "", false
		}
		switch x := v.(type) {
		case *ssa.FieldAddr:
			if own, fld, base, ok := fieldOfAddr(x); ok {
				if own != nil && own.Obj().Name() == c10EvalObj && own.Obj().Pkg() != nil && own.Obj().Pkg().Path() == evalPkg {
					return "exprEval." + fld, true
				}
				return rootOf(base, d+1)
			}
		case *ssa.IndexAddr:
			return rootOf(x.X, d+1)
		case *ssa.UnOp:
			return rootOf(x.X, d+1)
		case *ssa.Global:
			if x.Pkg != nil && x.Pkg.Pkg.Path() == evalPkg {
				return "global " + x.Name(), true
			}
		case *ssa.Field:
			return rootOf(x.X, d+1)
		case *ssa.Phi:
			for _, e := range x.Edges {
				if r, ok := rootOf(e, d+1); ok {
					return r, true
				}
			}
		case *ssa.ChangeType:
			return rootOf(x.X, d+1)
		}
		return "", false
	}
	_ = isEvalObj
	n := 0
	for _, f := range p.RepoFuncs() {
		if fnPkgPath(f) != evalPkg || f.Name() == "init" || strings.HasSuffix(p.fnFile(f), "/debugger.go") || strings.HasSuffix(p.fnFile(f), "/repl.go") {
			continue
		}
		eachInstr(f, func(_ *ssa.BasicBlock, i ssa.Instruction) {
			var target ssa.Value
			switch x := i.(type) {
			case *ssa.Store:
				target = x.Addr
			case *ssa.MapUpdate:
				target = x.Map
			default:
				return
			}
			root, ok := rootOf(target, 0)
			if !ok {
				return
			}
			kind := "assigns"
			if _, isMU := i.(*ssa.MapUpdate); isMU {
				kind = "files an entry in"
			}
			key := fmt.Sprintf("%s|%s %s", fnName(f), kind, root)
			n++
			// the constructor may fill the object it creates
			if al := allocRoot(target); al != nil {
				c.Okf("EVAL-STATE", key, p.pos(i.Pos()), "initialises the evaluator object it has just created")
				return
			}
			// State that is a function of its key is harmless (a sound memo table,
			// the diagnostic expression stack). State computed from evaluated values
			// and filed under a key that does not depend on them goes stale.
			var val, mkey ssa.Value
			switch x := i.(type) {
			case *ssa.Store:
				val = x.Val
			case *ssa.MapUpdate:
				val, mkey = x.Value, x.Key
			}
			if !dependsOnRuntimeValue(val) {
				c.Okf("EVAL-STATE", key, p.pos(i.Pos()), "the value written does not depend on any evaluated value (it is a function of the expression tree and the model)")
				return
			}
			if mkey != nil && dependsOnRuntimeValue(mkey) {
				c.Okf("EVAL-STATE", key, p.pos(i.Pos()), "memo entry keyed by the evaluated values it was computed from")
				return
			}
			c.Flagf("EVAL-STATE", key, p.pos(i.Pos()), "evaluation code keeps a value computed from evaluated operands in %s under a key that does not depend on them: the next evaluation with other operand values reads the stale entry — equal inputs need not give equal results", root)
		})
	}
	c.Counts["evaluator_state_writes"] = n
}

// allocRoot: the address is a field of an object allocated in the same function.
func allocRoot(v ssa.Value) *ssa.Alloc {
	for d := 0; d < 8 && v != nil; d++ {
		switch x := v.(type) {
		case *ssa.Alloc:
			return x
		case *ssa.FieldAddr:
			v = x.X
		case *ssa.IndexAddr:
			v = x.X
		default:
			return nil
		}
	}
	return nil
}

// dependsOnRuntimeValue: backward data dependence (through loads, selections,
// look-up keys, arithmetic and call arguments) on a value produced by
// evaluation: the result of a pkg/eval function returning *sysl.Value, or a
// *sysl.Value / Scope parameter.
func dependsOnRuntimeValue(v ssa.Value) bool {
	seen := map[ssa.Value]bool{}
	var rec func(v ssa.Value, d int) bool
	rec = func(v ssa.Value, d int) bool {
		if v == nil || seen[v] || d > 30 {
			return false
		}
		seen[v] = true
		switch x := v.(type) {
		case *ssa.Parameter:
			return typeIs(x.Type(), syslPkg, "Value") || typeIs(x.Type(), evalPkg, "Scope")
		case *ssa.Call:
			if sc := staticCallee(x); sc != nil && fnPkgPath(sc) == evalPkg && sc.Signature.Results().Len() == 1 && typeIs(sc.Signature.Results().At(0).Type(), syslPkg, "Value") {
				return true
			}
			for _, a := range x.Call.Args {
				if rec(a, d+1) {
					return true
				}
			}
			if !x.Call.IsInvoke() {
				if _, isFn := x.Call.Value.(*ssa.Function); !isFn {
					return rec(x.Call.Value, d+1)
				}
			}
			return false
		case *ssa.Phi:
			for _, e := range x.Edges {
				if rec(e, d+1) {
					return true
				}
			}
		case *ssa.Extract:
			return rec(x.Tuple, d+1)
		case *ssa.UnOp:
			return rec(x.X, d+1)
		case *ssa.BinOp:
			return rec(x.X, d+1) || rec(x.Y, d+1)
		case *ssa.Lookup:
			return rec(x.X, d+1) || rec(x.Index, d+1)
		case *ssa.Index:
			return rec(x.X, d+1) || rec(x.Index, d+1)
		case *ssa.IndexAddr:
			return rec(x.X, d+1) || rec(x.Index, d+1)
		case *ssa.FieldAddr:
			return rec(x.X, d+1)
		case *ssa.Field:
			return rec(x.X, d+1)
		case *ssa.Slice:
			return rec(x.X, d+1)
		case *ssa.Convert:
			return rec(x.X, d+1)
		case *ssa.ChangeType:
			return rec(x.X, d+1)
		case *ssa.MakeInterface:
			return rec(x.X, d+1)
		case *ssa.ChangeInterface:
			return rec(x.X, d+1)
		case *ssa.TypeAssert:
			return rec(x.X, d+1)
		case *ssa.Alloc:
			if x.Referrers() != nil {
				for _, r := range *x.Referrers() {
					if st, ok := r.(*ssa.Store); ok && st.Addr == x && rec(st.Val, d+1) {
						return true
					}
				}
			}
		case *ssa.MakeClosure:
			for _, b := range x.Bindings {
				if rec(b, d+1) {
					return true
				}
			}
		}
		return false
	}
	return rec(v, 0)
}

// rangesOverMapParam: f walks a map with a range loop, itself or in a function it
// hands one of its map parameters to (a keys-in-order helper).
func rangesOverMapParam(f *ssa.Function, depth int) bool {
	if f == nil || len(f.Blocks) == 0 || depth > 2 {
		return false
	}
	if len(findMapLoops(f)) > 0 {
		return true
	}
	found := false
	eachCall(f, func(cl ssa.CallInstruction) {
		sc := staticCallee(cl)
		if found || sc == nil || !isRepoFn(sc) {
			return
		}
		for _, a := range cl.Common().Args {
			if _, isParam := unspill(a).(*ssa.Parameter); !isParam {
				continue
			}
			if _, isMap := a.Type().Underlying().(*types.Map); isMap && rangesOverMapParam(sc, depth+1) {
				found = true
			}
		}
	})
	return found
}
