package main

import (
	"fmt"
	"go/token"
	"go/types"
	"strings"

	"golang.org/x/tools/go/ssa"
)

func init() { register("C04", LoadTyped, checkC04) }

// container fields of the shared module tree that must survive re-opening
var c04Containers = map[string]bool{
	"Module.Apps": true, "Application.Types": true, "Application.Endpoints": true, "Application.Views": true,
	"Application.Wrapped": true, "Application.Attrs": true, "Application.Mixin2": true,
	"Type.Attrs": true, "Endpoint.Attrs": true, "Endpoint.Stmt": true, "Endpoint.Param": true,
	"Type_Relation.AttrDefs": true, "Type_Tuple.AttrDefs": true,
}

// payloads of declarations that can be re-opened in another block or file
var c04Reopenable = map[string]bool{
	"Module": true, "Application": true, "Endpoint": true, "Type_Relation": true, "Type_Tuple": true, "Type_Enum": true, "Type_OneOf": true,
}

// element maps whose entries are keyed declarations
var c04ElementMaps = map[string]bool{
	"Module.Apps": true, "Application.Types": true, "Application.Endpoints": true, "Application.Views": true,
}

// isFreshContainer: a value that carries no previous content.
func isFreshContainer(v ssa.Value) (bool, string) {
	switch x := v.(type) {
	case *ssa.MakeMap:
		return true, "new map"
	case *ssa.MakeSlice:
		return true, "new slice"
	case *ssa.Alloc:
		if x.Heap {
			return true, "new " + types.TypeString(x.Type().(*types.Pointer).Elem(), shortQual)
		}
	case *ssa.Slice:
		if al, ok := x.X.(*ssa.Alloc); ok && al.Heap {
			return true, "slice literal"
		}
	case *ssa.Call:
		if sc := x.Call.StaticCallee(); sc != nil && isRepoFn(sc) {
			// a repository function that returns a map it made itself
			made := false
			for _, b := range sc.Blocks {
				if r, ok := b.Instrs[len(b.Instrs)-1].(*ssa.Return); ok && len(r.Results) == 1 {
					if derives(r.Results[0], func(y ssa.Value) bool { _, ok := y.(*ssa.MakeMap); return ok }, nil) {
						made = true
					}
				}
			}
			if made {
				return true, "map built by " + sc.Name()
			}
		}
	case *ssa.Const:
		return false, ""
	}
	return false, ""
}

// absenceGuarded: st's block is dominated by the nil/absent outcome of a test
// of the same location (same access path) — `if x.F == nil { x.F = … }`.
func absenceGuarded(f *ssa.Function, addr ssa.Value, at ssa.Instruction) bool {
	key := "*" + exprKey(addr, 0)
	ok := false
	eachInstr(f, func(_ *ssa.BasicBlock, i ssa.Instruction) {
		bin, isB := i.(*ssa.BinOp)
		if !isB || (bin.Op != token.EQL && bin.Op != token.NEQ) {
			return
		}
		var other ssa.Value
		switch {
		case isNilConst(bin.X):
			other = bin.Y
		case isNilConst(bin.Y):
			other = bin.X
		default:
			return
		}
		if exprKey(other, 0) != key {
			return
		}
		for _, br := range branchesOn(bin) {
			nilSucc := br.TrueSucc
			if bin.Op == token.NEQ {
				nilSucc = br.FalseSucc
			}
			if (nilSucc == at.Block() || nilSucc.Dominates(at.Block())) && len(nilSucc.Preds) == 1 {
				// the non-nil edge must not reach the store
				otherSucc := br.FalseSucc
				if bin.Op == token.NEQ {
					otherSucc = br.TrueSucc
				}
				if !blockReachesAvoiding(otherSucc, at.Block(), nilSucc) {
					ok = true
				}
			}
		}
	})
	return ok
}

func blockReachesAvoiding(from, to, avoid *ssa.BasicBlock) bool {
	if from == avoid {
		return false
	}
	return blockReaches(from, to, avoid)
}

func checkC04(c *Check) {
	p := c.P
	c.Explanation = "C04 (structural clauses): in the tree listener every store of a fresh (empty) container into a container field of the shared module tree (Module.Apps, Application.Types/Endpoints/Views/Wrapped/Attrs/Mixin2, Type.Attrs, Endpoint.Attrs/Stmt/Param, AttrDefs) is control-dependent on that same location being nil, and every insertion of a freshly allocated element into Apps/Types/Endpoints/Views is control-dependent on a failed look-up of the same key — otherwise re-opening a declaration in another block or file discards what the earlier block declared; the kinds that are replaced on re-declaration by design are listed as exceptions, one per callback; one listener (hence one module) is walked over every file of the closure and its module is what the compile returns; when a type is re-opened the field map bound to the listener is the existing one. Independence from block order and import order is not decided."
	c.Assumptions = append(c.Assumptions, "s.currentApp()/typemap accessors return the same object within one callback")
	_ = p.Pkg(parsePkg)
	walkEveryFile(c, "WALK-EVERY-FILE")
	c.Counts["constant_trim_cutsets"] = pathCutsets(c, "PATH-CUTSET", func(pk string) bool {
		return pk == repoMod+"/pkg/parse" || pk == repoMod+"/pkg/syslutil" || pk == repoMod+"/pkg/loader" || pk == repoMod+"/pkg/mod" || pk == repoMod+"/pkg/importer"
	})
	nC, nE := 0, 0
	for _, f := range p.RepoFuncs() {
		if !isListenerCode(p, f) {
			continue
		}
		eachInstr(f, func(_ *ssa.BasicBlock, i ssa.Instruction) {
			switch x := i.(type) {
			case *ssa.Store:
				own, fld, _, ok := fieldOfAddr(x.Addr)
				if !ok || own == nil || own.Obj().Pkg() == nil || own.Obj().Pkg().Path() != syslPkg {
					return
				}
				name := own.Obj().Name() + "." + fld
				if !c04Containers[name] {
					return
				}
				fresh, what := isFreshContainer(x.Val)
				if !fresh {
					// `x.F = orEmpty(x.F)` / `x.F = mergedInto(x.F, new)`: a helper that is
					// handed the existing content decides; it must give it back unless it is nil
					if call, isCall := x.Val.(*ssa.Call); isCall {
						if h := call.Call.StaticCallee(); h != nil && isRepoFn(h) && len(h.Blocks) > 0 {
							for ai, a := range call.Call.Args {
								if exprKey(a, 0) == "*"+exprKey(x.Addr, 0) && ai < len(h.Params) {
									nC++
									key := fmt.Sprintf("%s|%s = %s(existing)", fnName(f), name, h.Name())
									c.Cond(keepsExisting(h, h.Params[ai]), "INIT-IF-ABSENT", key, p.pos(x.Pos()),
										"the helper returns the existing container whenever it is not nil",
										fmt.Sprintf("%s is overwritten with the result of %s, which does not hand the existing container back on every path where it is not nil: re-opening the declaration discards what an earlier block declared", name, h.Name()))
								}
							}
						}
					}
					return
				}
				// a call that receives the existing content merges rather than replaces
				if call, isCall := x.Val.(*ssa.Call); isCall {
					merges := false
					for _, a := range call.Call.Args {
						if exprKey(a, 0) == "*"+exprKey(x.Addr, 0) {
							merges = true
						}
					}
					if merges {
						return
					}
				}
				// the object whose field is set: itself fresh (being constructed) ⇒ not a re-initialisation
				if baseFresh(x.Addr) {
					return
				}
				nC++
				key := fmt.Sprintf("%s|%s = %s", fnName(f), name, what)
				c.Cond(absenceGuarded(f, x.Addr, x), "INIT-IF-ABSENT", key, p.pos(x.Pos()),
					"the container is created only when the location is nil",
					fmt.Sprintf("%s is overwritten with a %s without testing that it is nil: re-opening the declaration discards what an earlier block or file declared", name, what))
			case *ssa.MapUpdate:
				own, fld, _, ok := loadedField(x.Map)
				if !ok || own == nil || own.Obj().Pkg() == nil || own.Obj().Pkg().Path() != syslPkg {
					// through a local alias: types := s.currentApp().Types
					if u, isU := unspill(x.Map).(*ssa.UnOp); isU {
						own, fld, _, ok = loadedField(u)
					}
					// `types := app.Types; if types == nil { types = map…{}; app.Types = types }`:
					// a phi of the loaded field and the map just created for it
					if ph, isPhi := x.Map.(*ssa.Phi); isPhi {
						for _, e := range ph.Edges {
							if o2, f2, _, ok2 := loadedField(unspill(e)); ok2 && o2 != nil {
								own, fld, ok = o2, f2, true
							}
						}
					}
					if !ok || own == nil || own.Obj().Pkg() == nil || own.Obj().Pkg().Path() != syslPkg {
						return
					}
				}
				name := own.Obj().Name() + "." + fld
				if !c04ElementMaps[name] {
					return
				}
				if fresh, _ := isFreshContainer(x.Value); !fresh {
					return
				}
				nE++
				key := fmt.Sprintf("%s|%s[key] = new element", fnName(f), name)
				// control-dependent on a look-up of the same map and key
				guarded := false
				eachInstr(f, func(_ *ssa.BasicBlock, j ssa.Instruction) {
					lk, ok := j.(*ssa.Lookup)
					if !ok || exprKey(lk.Index, 0) != exprKey(x.Key, 0) {
						return
					}
					if exprKey(lk.X, 0) != exprKey(x.Map, 0) {
						return
					}
					if controlledByLookup(lk, x) {
						guarded = true
					}
				})
				c.Cond(guarded, "CREATE-IF-ABSENT", key, p.pos(x.Pos()),
					"the new element is inserted only when a look-up of the same key failed",
					fmt.Sprintf("a freshly allocated element replaces %s[key] without a failed look-up of that key: a second block for the same name discards the first", name))
			}
		})
	}
	c.Counts["container_initialisations"] = nC
	c.Counts["element_creations"] = nE
	c04KeepOnReopen(c)
	c04NoDropOnAbsent(c)
	c04OneListener(c)
	c04TypeReopen(c)
}

// baseFresh: the struct whose field is written was allocated in this function
// (it is being built, not re-opened).
func baseFresh(addr ssa.Value) bool {
	fa, ok := addr.(*ssa.FieldAddr)
	if !ok {
		return false
	}
	switch b := fa.X.(type) {
	case *ssa.Alloc:
		return true
	case *ssa.FieldAddr:
		return baseFresh(b)
	case *ssa.UnOp:
		// pointer loaded from a field of a fresh object
		if inner, ok := b.X.(*ssa.FieldAddr); ok {
			return baseFresh(inner)
		}
		if al, ok := b.X.(*ssa.Alloc); ok {
			// local variable cell holding a pointer: fresh if every store into it is an Alloc
			all := true
			n := 0
			for _, r := range *al.Referrers() {
				if s, ok := r.(*ssa.Store); ok && s.Addr == al {
					n++
					if _, isAl := s.Val.(*ssa.Alloc); !isAl {
						all = false
					}
				}
			}
			return all && n > 0
		}
	case *ssa.Phi:
		for _, e := range b.Edges {
			if _, isAl := e.(*ssa.Alloc); !isAl {
				return false
			}
		}
		return true
	}
	return false
}

func c04OneListener(c *Check) {
	p := c.P
	n := 0
	for _, f := range p.RepoFuncs() {
		if fnPkgPath(f) != p.Pkg(parsePkg).PkgPath || f.Parent() != nil || moduleResultIndex(f.Signature) < 0 {
			continue
		}
		var lst *ssa.Parameter
		for _, prm := range f.Params {
			if typeIs(prm.Type(), repoMod+"/pkg/parse", "TreeShapeListener") && prm != f.Params[0] {
				lst = prm
			}
		}
		if lst == nil {
			continue
		}
		// a field of a struct of this package that only ever receives the
		// parameter (a context object handed to the steps f is split into): a
		// load of that field is the shared listener
		type fieldID struct {
			st  *types.Struct
			idx int
		}
		carrier := map[fieldID]bool{}
		fieldOf := func(fa *ssa.FieldAddr) (fieldID, bool) {
			pt, ok := fa.X.Type().Underlying().(*types.Pointer)
			if !ok {
				return fieldID{}, false
			}
			st, ok := pt.Elem().Underlying().(*types.Struct)
			return fieldID{st, fa.Field}, ok
		}
		eachInstr(f, func(_ *ssa.BasicBlock, i ssa.Instruction) {
			if st, ok := i.(*ssa.Store); ok && stripValue(st.Val) == ssa.Value(lst) {
				if fa, ok := st.Addr.(*ssa.FieldAddr); ok {
					if id, ok := fieldOf(fa); ok {
						carrier[id] = true
					}
				}
			}
		})
		if len(carrier) > 0 {
			for _, g := range p.RepoFuncs() {
				if fnPkgPath(g) != fnPkgPath(f) {
					continue
				}
				eachInstr(g, func(_ *ssa.BasicBlock, i ssa.Instruction) {
					st, ok := i.(*ssa.Store)
					if !ok {
						return
					}
					fa, ok := st.Addr.(*ssa.FieldAddr)
					if !ok {
						return
					}
					if id, ok := fieldOf(fa); ok && carrier[id] && !(g == f && stripValue(st.Val) == ssa.Value(lst)) {
						delete(carrier, id) // written elsewhere too: not a carrier
					}
				})
			}
		}
		isShared := func(v ssa.Value, g *ssa.Function) bool {
			v = stripValue(v)
			if v == ssa.Value(lst) || (withinFn(g, f) && paramOrFree(v, f, paramIndex(f, lst))) {
				return true
			}
			if ld, ok := v.(*ssa.UnOp); ok && ld.Op == token.MUL {
				if fa, ok := ld.X.(*ssa.FieldAddr); ok {
					if id, ok := fieldOf(fa); ok && carrier[id] {
						return true
					}
				}
			}
			return false
		}
		// every Walk in f, its closures and the steps of this package it is split
		// into gets the shared listener
		steps := []*ssa.Function{f}
		seenStep := map[*ssa.Function]int{f: 0}
		for k := 0; k < len(steps); k++ {
			for _, g := range withClosures(steps[k]) {
				eachCall(g, func(cl ssa.CallInstruction) {
					sc := staticCallee(cl)
					if sc == nil || fnPkgPath(sc) != fnPkgPath(f) || len(sc.Blocks) == 0 || seenStep[steps[k]] >= 3 {
						return
					}
					if _, seen := seenStep[sc]; !seen && len(carrier) > 0 {
						seenStep[sc] = seenStep[steps[k]] + 1
						steps = append(steps, sc)
					}
				})
			}
		}
		for _, st := range steps {
			for _, g := range withClosures(st) {
				eachCall(g, func(cl ssa.CallInstruction) {
					o := calleeObj(cl)
					if o == nil || o.Name() != "Walk" || o.Pkg() == nil || !strings.HasSuffix(o.Pkg().Path(), "/antlr") {
						return
					}
					n++
					arg := cl.Common().Args[len(cl.Common().Args)-2]
					same := isShared(arg, g)
					if !same && st != f {
						// a closure of a step: the captured variable holds the carrier's load
						if fv, ok := unspillFree(arg); ok {
							same = freeVarBoundTo(fv, func(v ssa.Value) bool { return isShared(v, st) })
						}
					}
					c.Cond(same, "ONE-LISTENER", fnName(f)+"|every file walked with the shared listener", p.pos(cl.Pos()),
						"the tree walk uses the listener passed in for the whole closure", "a file is walked with a different listener: its declarations go to another module")
				})
			}
		}
		// success returns yield listener.module
		mi, ei := moduleResultIndex(f.Signature), errorResultIndex(f.Signature)
		for _, b := range f.Blocks {
			ret, ok := b.Instrs[len(b.Instrs)-1].(*ssa.Return)
			if !ok {
				continue
			}
			vals, cell := returnValues(ret)
			if cell[ei] || !isNilConst(vals[ei]) {
				continue
			}
			_, fld, base, isF := loadedField(vals[mi])
			_ = fld // the listener's module field, whatever its name: the field of that type
			good := isF && typeIs(vals[mi].Type(), syslPkg, "Module") && (unspill(base) == ssa.Value(lst) || isShared(base, f))
			c.Cond(good, "ONE-LISTENER", fnName(f)+"|returns the shared listener's module", p.pos(ret.Pos()),
				"the module returned is the one every file was merged into", "the module returned on success is not the shared listener's module")
		}
	}
	if n == 0 {
		c.Undecidedf("ONE-LISTENER", "walk", "-", "no tree walk with a listener parameter found")
	}
}

func paramIndex(f *ssa.Function, prm *ssa.Parameter) int {
	for i, q := range f.Params {
		if q == prm {
			return i
		}
	}
	return -1
}

// c04TypeReopen: the callback that creates relation/tuple types binds the
// listener's field map to the existing AttrDefs when the type already exists.
func c04TypeReopen(c *Check) {
	p := c.P
	n := 0
	for _, f := range p.RepoFuncs() {
		if !isListenerCallback(f) {
			continue
		}
		// creates a Type with AttrDefs from s.typemap?
		creates := false
		eachInstr(f, func(_ *ssa.BasicBlock, i ssa.Instruction) {
			if st, ok := i.(*ssa.Store); ok {
				if own, fld, _, ok := fieldOfAddr(st.Addr); ok && own != nil && fld == "AttrDefs" && (own.Obj().Name() == "Type_Relation" || own.Obj().Name() == "Type_Tuple") {
					if o2, _, _, ok := loadedField(st.Val); ok && isListenerFieldMap(o2, st.Val.Type()) {
						creates = true
					}
				}
			}
		})
		if !creates {
			continue
		}
		n++
		key := fnName(f) + "|re-open binds existing fields"
		// a store to s.typemap whose value derives from a look-up in the Types map
		reuse := false
		eachInstr(f, func(_ *ssa.BasicBlock, i ssa.Instruction) {
			st, ok := i.(*ssa.Store)
			if !ok {
				return
			}
			if o2, _, _, ok := fieldOfAddr(st.Addr); !ok || !isListenerFieldMap(o2, st.Val.Type()) {
				return
			}
			if derives(st.Val, func(v ssa.Value) bool {
				lk, ok := v.(*ssa.Lookup)
				if !ok {
					return false
				}
				mt, ok := lk.X.Type().Underlying().(*types.Map)
				return ok && typeIs(mt.Elem(), syslPkg, "Type")
			}, nil) {
				if _, f2, _, ok := loadedField(st.Val); ok && f2 == "AttrDefs" {
					reuse = true
				}
			}
		})
		c.Cond(reuse, "TYPE-REOPEN", key, p.pos(f.Pos()),
			"when the type exists, the listener's field map is the existing AttrDefs, so new fields are added to it",
			"a re-opened type does not bind the listener's field map to the existing AttrDefs: the fields of earlier blocks are lost or the new ones go nowhere")
	}
	if n == 0 {
		c.Undecidedf("TYPE-REOPEN", "type callback", "-", "no callback creating relation/tuple types from the listener's field map found")
	}
}

// c04KeepOnReopen: a listener callback that runs once per block must not wipe a
// member of a re-opened declaration. Every store of a value that can be nil
// (a nil constant, a phi with a nil edge, the result of a repository function
// with a `return nil`) into a pointer/map/slice field of a model object that
// was not created in the same callback has to be control-dependent on the value
// being non-nil or on the location being nil. Otherwise the block processed
// last erases what an earlier block (or imported file) declared.
func c04KeepOnReopen(c *Check) {
	p := c.P
	pk := p.Pkg(parsePkg)
	n := 0
	mayNil := func(v ssa.Value) (bool, string) {
		seen := map[ssa.Value]bool{}
		var rec func(v ssa.Value, d int) (bool, string)
		rec = func(v ssa.Value, d int) (bool, string) {
			if v == nil || seen[v] || d > 6 {
				return false, ""
			}
			seen[v] = true
			switch x := v.(type) {
			case *ssa.Const:
				if x.IsNil() {
					return true, "nil"
				}
			case *ssa.Phi:
				for _, e := range x.Edges {
					if ok, why := rec(e, d+1); ok {
						return true, why
					}
				}
			case *ssa.Call:
				sc := x.Call.StaticCallee()
				if sc == nil || !isRepoFn(sc) || fnPkgPath(sc) != pk.PkgPath {
					return false, ""
				}
				for _, b := range sc.Blocks {
					if r, ok := b.Instrs[len(b.Instrs)-1].(*ssa.Return); ok && len(r.Results) == 1 {
						if cv, ok := r.Results[0].(*ssa.Const); ok && cv.IsNil() {
							return true, "the result of " + sc.Name() + ", which has a `return nil`"
						}
					}
				}
			case *ssa.ChangeType:
				return rec(x.X, d+1)
			}
			return false, ""
		}
		return rec(v, 0)
	}
	for _, f := range p.RepoFuncs() {
		if !isListenerCode(p, f) {
			continue
		}
		if !(strings.HasPrefix(f.Name(), "Enter") || strings.HasPrefix(f.Name(), "Exit")) {
			continue
		}
		eachInstr(f, func(_ *ssa.BasicBlock, i ssa.Instruction) {
			st, ok := i.(*ssa.Store)
			if !ok {
				return
			}
			own, fld, _, ok := fieldOfAddr(st.Addr)
			if !ok || own == nil || own.Obj().Pkg() == nil || own.Obj().Pkg().Path() != syslPkg {
				return
			}
			switch st.Val.Type().Underlying().(type) {
			case *types.Pointer, *types.Map, *types.Slice:
			default:
				return
			}
			if baseFresh(st.Addr) {
				return
			}
			if !c04Reopenable[own.Obj().Name()] {
				return
			}
			isNil, why := mayNil(st.Val)
			if !isNil {
				return
			}
			n++
			name := own.Obj().Name() + "." + fld
			key := fmt.Sprintf("%s|%s may be set to nil", fnName(f), name)
			guarded := absenceGuarded(f, st.Addr, st) || valueNonNilGuarded(st.Val, st) || emptinessGuarded(f, st.Addr, st)
			c.Cond(guarded, "KEEP-ON-REOPEN", key, p.pos(st.Pos()),
				"the store is made only when the value is non-nil or the location is still nil",
				fmt.Sprintf("%s of an existing declaration is overwritten with %s on every block: a block (or imported file) processed later erases what an earlier one declared", name, why))
		})
	}
	c.Counts["possibly_nil_member_stores"] = n
}

// valueNonNilGuarded: the store's block is dominated by the non-nil outcome of a
// nil test of the stored value.
func valueNonNilGuarded(v ssa.Value, at ssa.Instruction) bool {
	ok := false
	if v.Referrers() == nil {
		return false
	}
	for _, r := range *v.Referrers() {
		bin, isB := r.(*ssa.BinOp)
		if !isB || (bin.Op != token.EQL && bin.Op != token.NEQ) {
			continue
		}
		if !isNilConst(bin.X) && !isNilConst(bin.Y) {
			continue
		}
		for _, br := range branchesOn(bin) {
			nn := br.FalseSucc
			if bin.Op == token.NEQ {
				nn = br.TrueSucc
			}
			if (nn == at.Block() || nn.Dominates(at.Block())) && len(nn.Preds) == 1 {
				ok = true
			}
		}
	}
	return ok
}

// emptinessGuarded: `if len(x.F) == 0 { x.F = nil }` — normalising an empty
// container loses nothing.
func emptinessGuarded(f *ssa.Function, addr ssa.Value, at ssa.Instruction) bool {
	key := "*" + exprKey(addr, 0)
	ok := false
	eachInstr(f, func(_ *ssa.BasicBlock, i ssa.Instruction) {
		bin, isB := i.(*ssa.BinOp)
		if !isB || (bin.Op != token.EQL && bin.Op != token.NEQ) {
			return
		}
		isLen := func(v ssa.Value) bool {
			cl, ok := v.(*ssa.Call)
			if !ok {
				return false
			}
			b, ok := cl.Call.Value.(*ssa.Builtin)
			return ok && b.Name() == "len" && exprKey(cl.Call.Args[0], 0) == key
		}
		var k ssa.Value
		switch {
		case isLen(bin.X):
			k = bin.Y
		case isLen(bin.Y):
			k = bin.X
		default:
			return
		}
		if n, isK := constInt(k); !isK || n != 0 {
			return
		}
		for _, br := range branchesOn(bin) {
			empty := br.TrueSucc
			if bin.Op == token.NEQ {
				empty = br.FalseSucc
			}
			if (empty == at.Block() || empty.Dominates(at.Block())) && len(empty.Preds) == 1 {
				ok = true
			}
		}
	})
	return ok
}

// c04NoDropOnAbsent: a declaration may arrive before the block that declares
// the thing it refers to (the other block can sit later in the file or in an
// imported file). When a callback looks a keyed declaration up in
// Apps/Endpoints/Types/Views and finds nothing, it has to create the entry (the
// CREATE-IF-ABSENT idiom) or carry on; returning from the callback on the
// absent outcome silently drops what this block declares, and whether it is
// dropped then depends on the order in which blocks are processed.
func c04NoDropOnAbsent(c *Check) {
	p := c.P
	_ = p.Pkg(parsePkg)
	n := 0
	for _, f := range p.RepoFuncs() {
		if !isListenerCode(p, f) {
			continue
		}
		if !(strings.HasPrefix(f.Name(), "Enter") || strings.HasPrefix(f.Name(), "Exit")) {
			continue
		}
		eachInstr(f, func(_ *ssa.BasicBlock, i ssa.Instruction) {
			lk, ok := i.(*ssa.Lookup)
			if !ok {
				return
			}
			own, fld, _, ok := loadedField(lk.X)
			if !ok {
				if u, isU := unspill(lk.X).(*ssa.UnOp); isU {
					own, fld, _, ok = loadedField(u)
				}
			}
			if !ok || own == nil || own.Obj().Pkg() == nil || own.Obj().Pkg().Path() != syslPkg {
				return
			}
			name := own.Obj().Name() + "." + fld
			if !c04ElementMaps[name] {
				return
			}
			// nil tests of the looked-up element (directly, or through a phi/cell)
			var tests []*ssa.BinOp
			seen := map[ssa.Value]bool{}
			var walk func(v ssa.Value, d int)
			walk = func(v ssa.Value, d int) {
				if d > 4 || seen[v] || v.Referrers() == nil {
					return
				}
				seen[v] = true
				for _, r := range *v.Referrers() {
					switch y := r.(type) {
					case *ssa.Extract:
						if y.Index == 0 {
							walk(y, d+1)
						}
					case *ssa.BinOp:
						if (y.Op == token.EQL || y.Op == token.NEQ) && (isNilConst(y.X) || isNilConst(y.Y)) {
							tests = append(tests, y)
						}
					case *ssa.Phi:
						walk(y, d+1)
					}
				}
			}
			walk(lk, 0)
			if len(tests) == 0 {
				return
			}
			n++
			key := fmt.Sprintf("%s|absent %s entry", fnName(f), name)
			bad := ""
			for _, bin := range tests {
				for _, br := range branchesOn(bin) {
					nilSucc := br.TrueSucc
					if bin.Op == token.NEQ {
						nilSucc = br.FalseSucc
					}
					// the absent outcome goes straight to a return: nothing is created
					if len(nilSucc.Instrs) > 0 {
						if _, isRet := nilSucc.Instrs[len(nilSucc.Instrs)-1].(*ssa.Return); isRet && len(nilSucc.Preds) == 1 {
							creates := false
							for _, j := range nilSucc.Instrs {
								switch j.(type) {
								case *ssa.MapUpdate, *ssa.Store, *ssa.Panic:
									creates = true
								case ssa.CallInstruction:
									creates = true // reports, logs or delegates
								}
							}
							if !creates {
								bad = p.pos(bin.Pos())
							}
						}
					}
				}
			}
			c.Cond(bad == "", "NO-DROP-ON-ABSENT", key, p.pos(lk.Pos()),
				"no path leaves the callback on the absent outcome without creating, reporting or carrying on",
				fmt.Sprintf("when the %s entry does not exist yet the callback returns at once (test at %s): what this block declares is dropped unless the other block happened to be processed first", name, bad))
		})
	}
	c.Counts["declaration_lookups_with_absent_test"] = n
}

// isListenerCode: f belongs to the tree listener of pkg/parse — a method of
// TreeShapeListener, a closure of one, or a function declared in a file that
// holds such methods (its helpers). Found by receiver, not by file name, so that
// moving call-backs to another file changes nothing.
var listenerFiles map[string]bool

func isListenerCode(p *Program, f *ssa.Function) bool {
	if fnPkgPath(f) != repoMod+"/"+parsePkg || strings.HasSuffix(p.fnFile(f), "_test.go") {
		return false
	}
	isMethod := func(g *ssa.Function) bool {
		for g.Parent() != nil {
			g = g.Parent()
		}
		if r := g.Signature.Recv(); r != nil {
			if n := namedOf(r.Type()); n != nil && n.Obj().Name() == "TreeShapeListener" {
				return true
			}
		}
		return false
	}
	if listenerFiles == nil {
		listenerFiles = map[string]bool{}
		for _, g := range p.RepoFuncs() {
			if fnPkgPath(g) == repoMod+"/"+parsePkg && isMethod(g) && (strings.HasPrefix(g.Name(), "Enter") || strings.HasPrefix(g.Name(), "Exit")) {
				listenerFiles[p.fnFile(g)] = true
			}
		}
	}
	return isMethod(f) || listenerFiles[p.fnFile(f)]
}

// isListenerFieldMap: a field of the tree listener holding the field map of the
// type being declared (map from field name to *sysl.Type), whatever it is called.
func isListenerFieldMap(owner *types.Named, t types.Type) bool {
	if owner == nil || owner.Obj().Name() != "TreeShapeListener" {
		return false
	}
	m, ok := t.Underlying().(*types.Map)
	return ok && isStringType(m.Key()) && typeIs(m.Elem(), syslPkg, "Type")
}

// keepsExisting: every return of h gives back its parameter prm — as it is, or
// passed through helpers that keep it (an "or empty" helper, an add-one-entry
// helper called in a loop) — except on paths taken only when prm is nil.
func keepsExisting(h *ssa.Function, prm *ssa.Parameter) bool {
	return keepsExistingD(h, prm, 0)
}

func keepsExistingD(h *ssa.Function, prm *ssa.Parameter, depth int) bool {
	if depth > 3 {
		return false
	}
	nilOnly := map[*ssa.BasicBlock]bool{}
	if prm.Referrers() != nil {
		for _, r := range *prm.Referrers() {
			bin, ok := r.(*ssa.BinOp)
			if !ok || (bin.Op != token.EQL && bin.Op != token.NEQ) || !(isNilConst(bin.X) || isNilConst(bin.Y)) {
				continue
			}
			for _, br := range branchesOn(bin) {
				nilSucc, other := br.TrueSucc, br.FalseSucc
				if bin.Op == token.NEQ {
					nilSucc, other = other, nilSucc
				}
				if len(nilSucc.Preds) != 1 {
					continue
				}
				for _, b := range h.Blocks {
					if (b == nilSucc || nilSucc.Dominates(b)) && !other.Dominates(b) {
						nilOnly[b] = true
					}
				}
			}
		}
	}
	// keeps(v, at): v carries the existing container (or we are on a nil-only path)
	seen := map[ssa.Value]bool{}
	var keeps func(v ssa.Value, at *ssa.BasicBlock) bool
	keeps = func(v ssa.Value, at *ssa.BasicBlock) bool {
		if v == ssa.Value(prm) || nilOnly[at] {
			return true
		}
		if seen[v] {
			return true // loop-carried: decided by the other edges
		}
		seen[v] = true
		switch x := v.(type) {
		case *ssa.Phi:
			for k, e := range x.Edges {
				if !keeps(e, x.Block().Preds[k]) {
					return false
				}
			}
			return true
		case *ssa.Call:
			g := x.Call.StaticCallee()
			if g == nil || !isRepoFn(g) || len(g.Blocks) == 0 {
				return false
			}
			for ai, a := range x.Call.Args {
				if ai < len(g.Params) && types.Identical(a.Type(), prm.Type()) && keeps(a, x.Block()) && keepsExistingD(g, g.Params[ai], depth+1) {
					return true
				}
			}
			return false
		}
		return false
	}
	n := 0
	for _, b := range h.Blocks {
		ret, ok := b.Instrs[len(b.Instrs)-1].(*ssa.Return)
		if !ok || b == h.Recover || len(ret.Results) == 0 {
			continue
		}
		n++
		vals, cell := returnValues(ret)
		if cell[0] || !keeps(vals[0], b) {
			return false
		}
	}
	return n > 0
}

// withinFn: g is f or a closure nested in f.
func withinFn(g, f *ssa.Function) bool {
	for ; g != nil; g = g.Parent() {
		if g == f {
			return true
		}
	}
	return false
}

// unspillFree: v is a captured variable, or a load of a captured cell.
func unspillFree(v ssa.Value) (*ssa.FreeVar, bool) {
	v = stripValue(v)
	if ld, ok := v.(*ssa.UnOp); ok && ld.Op == token.MUL {
		v = ld.X
	}
	fv, ok := v.(*ssa.FreeVar)
	return fv, ok
}

// freeVarBoundTo: every closure creation binds the captured variable to a
// value pred accepts (or to a cell whose only stored values pred accepts).
func freeVarBoundTo(fv *ssa.FreeVar, pred func(ssa.Value) bool) bool {
	fn := fv.Parent()
	par := fn.Parent()
	if par == nil {
		return false
	}
	k := -1
	for i, x := range fn.FreeVars {
		if x == fv {
			k = i
		}
	}
	if k < 0 {
		return false
	}
	n, good := 0, true
	eachInstr(par, func(_ *ssa.BasicBlock, i ssa.Instruction) {
		mc, ok := i.(*ssa.MakeClosure)
		if !ok || mc.Fn != ssa.Value(fn) {
			return
		}
		n++
		b := mc.Bindings[k]
		if pred(b) {
			return
		}
		if al, ok := b.(*ssa.Alloc); ok && al.Referrers() != nil {
			stores := 0
			for _, r := range *al.Referrers() {
				if st, ok := r.(*ssa.Store); ok && st.Addr == ssa.Value(al) {
					stores++
					if !pred(st.Val) {
						good = false
					}
				}
			}
			if stores > 0 {
				return
			}
		}
		good = false
	})
	return n > 0 && good
}

// walkEveryFile (WALK-EVERY-FILE): the model says what *every* file of the
// closure declares only if every round of the per-file loop hands its file to the
// shared listener (a tree walk) or merges the module decoded from it. In the
// functions the module-returning parse function is made of (itself and the steps
// of pkg/parse it calls), every loop that contains such an effect is examined:
// each way back to the loop header must pass the effect (leaving the loop with an
// error is another matter), and when the effect sits in a step called from the
// loop, each success return of that step must pass it. One obligation per way
// round / per return, named by the nearest test that leads to it.
func walkEveryFile(c *Check, rule string) {
	p := c.P
	pkg := repoMod + "/pkg/parse"
	direct := func(cl ssa.CallInstruction) bool {
		o := calleeObj(cl)
		if o == nil || o.Pkg() == nil {
			return false
		}
		if o.Name() == "Walk" && strings.HasSuffix(o.Pkg().Path(), "/antlr") {
			// with the model-building listener
			args := cl.Common().Args
			return len(args) >= 2 && typeIs(stripValue(args[len(args)-2]).Type(), pkg, "TreeShapeListener")
		}
		return strings.Contains(o.Pkg().Path(), "mergo") && strings.HasPrefix(o.Name(), "Merge")
	}
	// eff: the instruction performs the effect — directly, through a closure it
	// is handed, or through a step of the package
	eff := func(i ssa.Instruction) bool {
		cl, ok := i.(ssa.CallInstruction)
		if !ok {
			return false
		}
		if direct(cl) {
			return true
		}
		for _, a := range cl.Common().Args {
			if mc, ok := a.(*ssa.MakeClosure); ok {
				if fn, ok := mc.Fn.(*ssa.Function); ok && reachesCall(fn, pkg, 3, direct) {
					return true
				}
			}
		}
		sc := staticCallee(cl)
		return sc != nil && fnPkgPath(sc) == pkg && reachesCall(sc, pkg, 3, direct)
	}
	when := func(b *ssa.BasicBlock) string {
		for d := b; d != nil; d = d.Idom() {
			if id := d.Idom(); id != nil {
				if iff, ok := id.Instrs[len(id.Instrs)-1].(*ssa.If); ok {
					side := "false"
					if id.Succs[0] == d || id.Succs[0].Dominates(d) {
						side = "true"
					}
					return "when " + condText(iff.Cond) + " is " + side
				}
			}
		}
		return "unconditionally"
	}
	nLoops := 0
	judgedStep := map[*ssa.Function]bool{}
	for _, f := range p.RepoFuncs() {
		if fnPkgPath(f) != pkg || f.Parent() != nil || moduleResultIndex(f.Signature) < 0 {
			continue
		}
		hasListener := false
		for _, prm := range f.Params {
			if typeIs(prm.Type(), pkg, "TreeShapeListener") && prm != f.Params[0] {
				hasListener = true
			}
		}
		if !hasListener {
			continue
		}
		// f and the steps it reaches
		steps := []*ssa.Function{f}
		depth := map[*ssa.Function]int{f: 0}
		for k := 0; k < len(steps); k++ {
			eachCall(steps[k], func(cl ssa.CallInstruction) {
				sc := staticCallee(cl)
				if sc == nil || fnPkgPath(sc) != pkg || len(sc.Blocks) == 0 || sc.Parent() != nil || depth[steps[k]] >= 3 {
					return
				}
				if _, seen := depth[sc]; !seen && reachesCall(sc, pkg, 3, direct) {
					depth[sc] = depth[steps[k]] + 1
					steps = append(steps, sc)
				}
			})
		}
		for _, g := range steps {
			// loop headers of g whose loop contains an effect
			for _, h := range g.Blocks {
				loop := map[*ssa.BasicBlock]bool{}
				var latches []*ssa.BasicBlock
				for _, pr := range h.Preds {
					if h.Dominates(pr) {
						latches = append(latches, pr)
					}
				}
				if len(latches) == 0 {
					continue
				}
				// natural loop of h
				loop[h] = true
				stack := append([]*ssa.BasicBlock{}, latches...)
				for len(stack) > 0 {
					x := stack[len(stack)-1]
					stack = stack[:len(stack)-1]
					if loop[x] {
						continue
					}
					loop[x] = true
					stack = append(stack, x.Preds...)
				}
				var effs []ssa.Instruction
				for b := range loop {
					for _, i := range b.Instrs {
						if eff(i) {
							effs = append(effs, i)
						}
					}
				}
				if len(effs) == 0 {
					continue
				}
				// only the loop nearest to the effect
				inner := true
				for _, e := range effs {
					if el := enclosingLoop(e.Block()); el != nil && len(el) < len(loop) {
						inner = false
					}
				}
				if !inner {
					continue
				}
				nLoops++
				nBad := 0
				for _, l := range latches {
					last := l.Instrs[len(l.Instrs)-1]
					// from the top of the round to this way back, never leaving the loop
					if _, bad := reachAvoiding(h.Instrs[0], func(i ssa.Instruction) bool { return i == last }, func(i ssa.Instruction) bool {
						return eff(i) || !loop[i.Block()]
					}); !bad {
						continue
					}
					nBad++
					w := when(l)
					at := last.Pos()
					if iff, ok := last.(*ssa.If); ok {
						side := "false"
						if l.Succs[0] == h {
							side = "true"
						}
						w = "when " + condText(iff.Cond) + " is " + side
						if v, ok := iff.Cond.(ssa.Instruction); ok {
							at = v.Pos()
						}
					}
					c.Flagf(rule, fmt.Sprintf("%s|file neither walked nor merged %s", fnName(g), w), p.pos(at),
						"a round of the per-file loop can go on to the next file without walking or merging this one (effect at %s): what the file declares is missing from the model", p.pos(effs[0].Pos()))
				}
				if nBad == 0 {
					c.Okf(rule, fmt.Sprintf("%s|every round walks or merges its file", fnName(g)), p.pos(h.Instrs[0].Pos()), "every way back to the head of the per-file loop passes the tree walk or the merge")
				}
				// steps called from the loop that hold the effect
				for _, e := range effs {
					cl, ok := e.(ssa.CallInstruction)
					if !ok || direct(cl) {
						continue
					}
					s := staticCallee(cl)
					if s == nil || fnPkgPath(s) != pkg || judgedStep[s] || !reachesCall(s, pkg, 3, direct) {
						continue
					}
					judgedStep[s] = true
					ei := errorResultIndex(s.Signature)
					nBadRet := 0
					for _, b := range s.Blocks {
						ret, ok := b.Instrs[len(b.Instrs)-1].(*ssa.Return)
						if !ok || b == s.Recover {
							continue
						}
						if ei >= 0 {
							vals, cell := returnValues(ret)
							if cell[ei] || !isNilConst(vals[ei]) {
								// an error, or the result of the guarded walk itself
								if rv, ok := vals[ei].(*ssa.Call); !ok || !eff(rv) {
									continue
								}
								continue
							}
						}
						entry := s.Blocks[0].Instrs[0]
						if _, bad := reachAvoiding(entry, func(i ssa.Instruction) bool { return i == ssa.Instruction(ret) }, eff); !bad || eff(entry) {
							continue
						}
						nBadRet++
						c.Flagf(rule, fmt.Sprintf("%s|file neither walked nor merged %s", fnName(s), when(b)), p.pos(ret.Pos()),
							"this success return of the per-file step is reachable without walking or merging the file")
					}
					if nBadRet == 0 {
						c.Okf(rule, fmt.Sprintf("%s|every success walks or merges the file", fnName(s)), p.pos(s.Pos()), "every success return of the per-file step passes the tree walk or the merge")
					}
				}
			}
		}
	}
	c.Counts["per_file_loops"] = nLoops
	if nLoops == 0 {
		c.Undecidedf(rule, "per-file loop", "-", "no loop that walks or merges the files of the closure found in the parse function or its steps: unresolved anchor")
	}
}
