package main

import (
	"fmt"
	"go/token"
	"go/types"
	"os"
	"reflect"
	"sort"
	"strings"

	"golang.org/x/tools/go/ssa"
)

// R-ORDER: unordered (map) iteration must not reach an order-sensitive effect.

type rootKind int

const (
	rLocal rootKind = iota // allocation / fresh value; At = defining instruction
	rParam
	rFree
	rGlobal
	rIter // element of an iteration (Next); V = the *ssa.Next
	rUnknown
)

type vroot struct {
	Kind rootKind
	V    ssa.Value
	At   ssa.Instruction
	Idx  int
}

// freshFns: repository functions whose every result is storage created inside
// the call (a map/slice/struct built from the operands' contents), so their
// result aliases none of their operands. Computed once per program.
var freshFns map[*ssa.Function]bool

func computeFreshFns(p *Program) {
	freshFns = map[*ssa.Function]bool{}
	cand := map[*ssa.Function]bool{}
	for _, f := range p.RepoFuncs() {
		if len(f.Blocks) > 0 && f.Signature.Results().Len() >= 1 {
			cand[f] = true
		}
	}
	// optimistic fixpoint: assume fresh, remove when a return value may alias a parameter/global/free variable
	for f := range cand {
		freshFns[f] = true
	}
	for changed := true; changed; {
		changed = false
		for f := range cand {
			if !freshFns[f] {
				continue
			}
			ok := true
			for _, b := range f.Blocks {
				ret, isRet := b.Instrs[len(b.Instrs)-1].(*ssa.Return)
				if !isRet {
					continue
				}
				for _, rv := range ret.Results {
					if !isRefLike(rv.Type()) {
						continue
					}
					for _, r := range rootsOf(rv) {
						if r.Kind != rLocal {
							ok = false
						}
					}
				}
			}
			if !ok {
				freshFns[f] = false
				changed = true
			}
		}
	}
}

// rootsOf follows an address or reference value back to what it points into.
func rootsOf(v ssa.Value) []vroot {
	var out []vroot
	seen := map[ssa.Value]bool{}
	var rec func(v ssa.Value, d int)
	add := func(r vroot) { out = append(out, r) }
	rec = func(v ssa.Value, d int) {
		if v == nil || seen[v] {
			return
		}
		if d > 60 {
			add(vroot{Kind: rUnknown, V: v})
			return
		}
		seen[v] = true
		switch x := v.(type) {
		case *ssa.Parameter:
			idx := 0
			for i, p := range x.Parent().Params {
				if p == x {
					idx = i
				}
			}
			add(vroot{Kind: rParam, V: x, Idx: idx})
		case *ssa.FreeVar:
			add(vroot{Kind: rFree, V: x})
		case *ssa.Global:
			add(vroot{Kind: rGlobal, V: x})
		case *ssa.Const:
		case *ssa.Alloc:
			// a cell that only holds one spilled value: look through
			if u := unspillAlloc(x); u != nil {
				rec(u, d+1)
				return
			}
			add(vroot{Kind: rLocal, V: x, At: x})
		case *ssa.MakeMap:
			add(vroot{Kind: rLocal, V: x, At: x})
		case *ssa.MakeSlice:
			add(vroot{Kind: rLocal, V: x, At: x})
		case *ssa.MakeChan:
			add(vroot{Kind: rLocal, V: x, At: x})
		case *ssa.MakeClosure:
			add(vroot{Kind: rLocal, V: x, At: x})
		case *ssa.FieldAddr:
			rec(x.X, d+1)
		case *ssa.Field:
			rec(x.X, d+1)
		case *ssa.IndexAddr:
			rec(x.X, d+1)
		case *ssa.Index:
			rec(x.X, d+1)
		case *ssa.UnOp:
			rec(x.X, d+1)
		case *ssa.Lookup:
			rec(x.X, d+1)
		case *ssa.Slice:
			rec(x.X, d+1)
		case *ssa.Extract:
			if nx, ok := x.Tuple.(*ssa.Next); ok {
				add(vroot{Kind: rIter, V: nx})
				// the element also belongs to whatever the iterated container belongs to
				if rg, ok := nx.Iter.(*ssa.Range); ok {
					rec(rg.X, d+1)
				}
				return
			}
			rec(x.Tuple, d+1)
		case *ssa.Next:
			add(vroot{Kind: rIter, V: x})
			if rg, ok := x.Iter.(*ssa.Range); ok {
				rec(rg.X, d+1)
			}
		case *ssa.Phi:
			for _, e := range x.Edges {
				rec(e, d+1)
			}
		case *ssa.ChangeType:
			rec(x.X, d+1)
		case *ssa.Convert:
			rec(x.X, d+1)
		case *ssa.MakeInterface:
			rec(x.X, d+1)
		case *ssa.ChangeInterface:
			rec(x.X, d+1)
		case *ssa.TypeAssert:
			rec(x.X, d+1)
		case *ssa.BinOp:
			// strings: fresh value
		case *ssa.Call:
			cc := x.Common()
			if b, ok := cc.Value.(*ssa.Builtin); ok {
				switch b.Name() {
				case "append":
					rec(cc.Args[0], d+1)
					return
				}
				add(vroot{Kind: rLocal, V: x, At: x})
				return
			}
			if sc := cc.StaticCallee(); sc != nil && freshFns != nil && freshFns[sc] {
				add(vroot{Kind: rLocal, V: x, At: x})
				return
			}
			// the result may alias any reference-like operand (receiver state,
			// look-up helpers); with none it is a fresh value
			n := 0
			ops := cc.Args
			if cc.IsInvoke() {
				ops = append([]ssa.Value{cc.Value}, ops...)
			}
			for _, a := range ops {
				if isRefLike(a.Type()) {
					n++
					rec(a, d+1)
				}
			}
			if n == 0 {
				add(vroot{Kind: rLocal, V: x, At: x})
			}
		default:
			add(vroot{Kind: rUnknown, V: v})
		}
	}
	rec(v, 0)
	return out
}

func unspillAlloc(al *ssa.Alloc) ssa.Value {
	var st *ssa.Store
	n := 0
	for _, r := range *al.Referrers() {
		switch x := r.(type) {
		case *ssa.Store:
			if x.Addr == al {
				st = x
				n++
			}
		case *ssa.UnOp, *ssa.DebugRef, *ssa.MakeClosure:
		default:
			return nil // address escapes / sub-addresses taken
		}
	}
	if n == 1 {
		if _, isPtrLike := st.Val.Type().Underlying().(*types.Struct); isPtrLike {
			return nil
		}
		return st.Val
	}
	return nil
}

func isRefLike(t types.Type) bool {
	switch t.Underlying().(type) {
	case *types.Pointer, *types.Slice, *types.Map, *types.Interface, *types.Chan, *types.Signature:
		return true
	}
	return false
}

// ---- function summaries ---------------------------------------------------------

// effect is one abstract side effect of a function, relative to its parameters.
type effect struct {
	Kind     string // "emit" | "append" | "mapset" | "store" | "unknown"
	Root     int    // parameter index of the storage written; -1 = global / captured state
	Key      int    // mapset: parameter used directly (or in a concatenation) as the key; -2 constant; -1 derived otherwise
	ValConst bool   // mapset/store: the stored value is a constant (set-like insertion, flag)
	Field    string // "Type.Field" of the last field on the address path, if any
	Why      string
}

func (e effect) id() string {
	return fmt.Sprintf("%s|%d|%d|%v|%s", e.Kind, e.Root, e.Key, e.ValConst, e.Field)
}

type fnSummary struct {
	effects      map[string]effect
	returnsTaint bool // returns a slice that was appended to in map order and not sorted
	taintWhy     string
}

type orderEngine struct {
	p        *Program
	sum      map[*ssa.Function]*fnSummary
	callees  map[ssa.CallInstruction][]*ssa.Function
	fns      []*ssa.Function
	unordTag map[string]bool // "Type.Field" of slice fields tagged arrai:"…,unordered"
	stackFld map[string]bool // "Type.Field" of slice fields that are also popped (F = F[:len(F)-1]): push/pop stacks
}

var pureDepPkgs = map[string]bool{
	"strings": true, "strconv": true, "path": true, "path/filepath": true, "unicode": true, "unicode/utf8": true,
	"math": true, "errors": true, "regexp": true, "sort": true, "bytes": true, "fmt": true, "reflect": true,
	"github.com/sirupsen/logrus": true, "log": true, "time": true, "net/url": true, "encoding/json": true,
	"github.com/pkg/errors": true, "golang.org/x/text/cases": true, "golang.org/x/text/language": true,
	"google.golang.org/protobuf/proto": true, "github.com/golang/protobuf/proto": true, "html": true, "text/template": true,
	"github.com/anz-bank/sysl/pkg/sysl": true, "slices": true, "maps": true, "os": true, "encoding/base64": true,
	"compress/flate": true, "encoding/hex": true, "io": true, "github.com/ghodss/yaml": true, "gopkg.in/yaml.v2": true,
	"google.golang.org/protobuf/encoding/protojson": true, "google.golang.org/protobuf/encoding/prototext": true,
}

// depEmit classifies a call to a non-repository function: emits=true if it
// writes ordered output to the writer in operand position writerArg (−1: a
// file or stream named by a path).
func depEmit(o *types.Func, cl ssa.CallInstruction) (writerArg int, emits bool) {
	if o == nil || o.Pkg() == nil {
		return 0, false
	}
	pk, n := o.Pkg().Path(), o.Name()
	rt := recvType(o)
	switch {
	case pk == "fmt" && strings.HasPrefix(n, "Fprint"):
		return 0, true
	case pk == "io" && (n == "WriteString" || n == "Copy"):
		return 0, true
	case rt != nil && (typeIs(rt, "strings", "Builder") || typeIs(rt, "bytes", "Buffer") || typeIs(rt, "bufio", "Writer") || typeIs(rt, "os", "File")) &&
		(strings.HasPrefix(n, "Write") || n == "ReadFrom"):
		return 0, true
	case strings.HasPrefix(n, "Write") && rt != nil && isInterfaceMethod(o):
		return 0, true // io.Writer.Write, io.StringWriter.WriteString, …
	case pk == "github.com/spf13/afero" && (n == "WriteFile"):
		return -1, true
	case pk == "os" && (n == "WriteFile"):
		return -1, true
	case pk == "io/ioutil" && n == "WriteFile":
		return -1, true
	}
	return 0, false
}

func isInterfaceMethod(o *types.Func) bool {
	r := o.Type().(*types.Signature).Recv()
	if r == nil {
		return false
	}
	_, ok := r.Type().Underlying().(*types.Interface)
	return ok
}

func newOrderEngine(p *Program) *orderEngine {
	e := &orderEngine{p: p, sum: map[*ssa.Function]*fnSummary{}, callees: map[ssa.CallInstruction][]*ssa.Function{}, unordTag: map[string]bool{}}
	cg := p.CallGraph()
	for _, f := range p.RepoFuncs() {
		if p.isGeneratedFile(p.fnFile(f)) {
			continue
		}
		e.fns = append(e.fns, f)
		e.sum[f] = &fnSummary{effects: map[string]effect{}}
		if n := cg.Nodes[f]; n != nil {
			for _, ed := range n.Out {
				if ed.Site != nil {
					e.callees[ed.Site] = append(e.callees[ed.Site], normFn(p, ed.Callee.Func))
				}
			}
		}
	}
	for _, pk := range p.Repo {
		sc := pk.Types.Scope()
		for _, n := range sc.Names() {
			tn, ok := sc.Lookup(n).(*types.TypeName)
			if !ok {
				continue
			}
			st, ok := tn.Type().Underlying().(*types.Struct)
			if !ok {
				continue
			}
			for i := 0; i < st.NumFields(); i++ {
				tag := reflect.StructTag(st.Tag(i)).Get("arrai")
				if strings.Contains(tag, "unordered") {
					e.unordTag[tn.Name()+"."+st.Field(i).Name()] = true
				}
			}
		}
	}
	computeFreshFns(p)
	e.stackFld = map[string]bool{}
	for _, f := range e.fns {
		eachInstr(f, func(_ *ssa.BasicBlock, i ssa.Instruction) {
			st, ok := i.(*ssa.Store)
			if !ok {
				return
			}
			sl, ok := st.Val.(*ssa.Slice)
			if !ok || sl.High == nil {
				return
			}
			// F = F[:len(F)-k]
			b, ok := sl.High.(*ssa.BinOp)
			if !ok || b.Op != token.SUB {
				return
			}
			if fld := lastField(st.Addr); fld != "" && exprKey(sl.X, 0) == "*"+exprKey(st.Addr, 0) {
				e.stackFld[fld] = true
			}
		})
	}
	e.computeSummaries()
	return e
}

// opsOf returns the operand list with the receiver first (param order).
func opsOf(cl ssa.CallInstruction) []ssa.Value {
	cc := cl.Common()
	if cc.IsInvoke() {
		return append([]ssa.Value{cc.Value}, cc.Args...)
	}
	return cc.Args
}

func lastField(addr ssa.Value) string {
	for d := 0; d < 8; d++ {
		if own, fld, _, ok := fieldOfAddr(addr); ok {
			if own != nil {
				return own.Obj().Name() + "." + fld
			}
			return "." + fld
		}
		switch x := addr.(type) {
		case *ssa.UnOp:
			addr = x.X
		case *ssa.IndexAddr:
			addr = x.X
		default:
			return ""
		}
	}
	return ""
}

// keyParamOf: the key value is a parameter of f used directly, through a
// conversion, or as part of a string concatenation / Sprintf (treated as
// injective in that parameter). Returns (index, true), (-2, true) for
// constants, or (-1, false).
func keyParamOf(v ssa.Value) (int, bool) {
	seen := map[ssa.Value]bool{}
	var rec func(v ssa.Value, d int) (int, bool)
	rec = func(v ssa.Value, d int) (int, bool) {
		if v == nil || seen[v] || d > 8 {
			return -1, false
		}
		seen[v] = true
		v = unspill(v)
		switch x := v.(type) {
		case *ssa.Const:
			return -2, true
		case *ssa.Parameter:
			for i, p := range x.Parent().Params {
				if p == x {
					return i, true
				}
			}
		case *ssa.ChangeType:
			return rec(x.X, d+1)
		case *ssa.Convert:
			return rec(x.X, d+1)
		case *ssa.MakeInterface:
			return rec(x.X, d+1)
		case *ssa.BinOp:
			if x.Op == token.ADD && isStringType(x.Type()) {
				a, okA := rec(x.X, d+1)
				b, okB := rec(x.Y, d+1)
				if okA && a >= 0 {
					return a, true
				}
				if okB && b >= 0 {
					return b, true
				}
				if okA && okB {
					return -2, true
				}
			}
		}
		return -1, false
	}
	return rec(v, 0)
}

// effectsOfInstr lists the direct effects of one instruction, each with the
// SSA value that denotes the storage written (for root classification).
type rawEffect struct {
	Kind     string
	Target   ssa.Value // address / map / writer value whose root is written
	KeyVal   ssa.Value // mapset key
	ValConst bool
	Field    string
	Why      string
}

func (e *orderEngine) rawEffects(i ssa.Instruction, forSummary bool) []rawEffect {
	var out []rawEffect
	switch x := i.(type) {
	case *ssa.Store:
		if _, isCell := x.Addr.(*ssa.Alloc); isCell && forSummary {
			// assignment to a local variable (or spill cell) of this function; what
			// the variable holds is followed where it is read. Appends to a local
			// slice variable are handled by the loop-carried analysis / sortedBeforeUse.
			if appendCall(x.Val) == nil {
				return nil
			}
		}
		if ap := appendCall(x.Val); ap != nil {
			if e.stackFld[lastField(x.Addr)] {
				return nil // push on a push/pop stack
			}
			out = append(out, rawEffect{Kind: "append", Target: x.Addr, Field: lastField(x.Addr), Why: "append at " + e.p.pos(x.Pos())})
			return out
		}
		if sl, ok := x.Val.(*ssa.Slice); ok && e.stackFld[lastField(x.Addr)] {
			_ = sl
			return nil // pop
		}
		if isCommutativeUpdate(x) {
			return nil
		}
		if lazyInitStore(x) {
			// `if x.m == nil { x.m = map…{} }`: whichever entry comes first, the same empty
			// container — no order effect, but still a write (operand purity sees it)
			out = append(out, rawEffect{Kind: "lazyinit", Target: x.Addr, ValConst: true, Field: lastField(x.Addr), Why: "lazy initialisation at " + e.p.pos(x.Pos())})
			return out
		}
		if isStringConcatOnto(x) {
			out = append(out, rawEffect{Kind: "concat", Target: x.Addr, Field: lastField(x.Addr), Why: "string concatenation at " + e.p.pos(x.Pos())})
			return out
		}
		out = append(out, rawEffect{Kind: "store", Target: x.Addr, ValConst: isConstLike(x.Val), Field: lastField(x.Addr), Why: "store at " + e.p.pos(x.Pos())})
	case *ssa.MapUpdate:
		out = append(out, rawEffect{Kind: "mapset", Target: x.Map, KeyVal: x.Key, ValConst: isConstLike(x.Value), Field: lastField(x.Map), Why: "map update at " + e.p.pos(x.Pos())})
	case ssa.CallInstruction:
		cc := x.Common()
		if b, ok := cc.Value.(*ssa.Builtin); ok {
			if b.Name() == "copy" {
				out = append(out, rawEffect{Kind: "store", Target: cc.Args[0], Why: "copy at " + e.p.pos(x.Pos())})
			}
			return out
		}
		o := calleeObj(x)
		if o != nil && (o.Pkg() == nil || !isRepoPkg(o.Pkg())) {
			ops := opsOf(x)
			if wi, em := depEmit(o, x); em {
				if wi < 0 {
					out = append(out, rawEffect{Kind: "emit", Target: nil, Why: objFull(o) + " at " + e.p.pos(x.Pos())})
				} else if wi < len(ops) {
					out = append(out, rawEffect{Kind: "emit", Target: ops[wi], Why: objFull(o) + " at " + e.p.pos(x.Pos())})
				}
				return out
			}
			if o.Pkg() == nil || pureDepPkgs[o.Pkg().Path()] || isGetterName(o) {
				return nil // universe (error.Error) or allow-listed pure package
			}
			if len(e.callees[x]) == 0 || !anyRepo(e.callees[x]) {
				for _, a := range ops {
					if isRefLike(a.Type()) {
						out = append(out, rawEffect{Kind: "unknown", Target: a, Why: "passed to " + objFull(o) + " at " + e.p.pos(x.Pos())})
					}
				}
			}
		}
	}
	return out
}

func anyRepo(fs []*ssa.Function) bool {
	for _, f := range fs {
		if f != nil && isRepoFn(f) {
			return true
		}
	}
	return false
}

func (e *orderEngine) computeSummaries() {
	for changed, iter := true, 0; changed && iter < 60; iter++ {
		changed = false
		for _, f := range e.fns {
			s := e.sum[f]
			addEff := func(ef effect) {
				if _, ok := s.effects[ef.id()]; !ok {
					s.effects[ef.id()] = ef
					changed = true
				}
			}
			// lift: an effect on storage denoted by target, expressed relative to f's params
			lift := func(kind string, target ssa.Value, keyVal ssa.Value, keyFixed int, valConst bool, field, why string) {
				key := keyFixed
				if keyVal != nil {
					if k, ok := keyParamOf(keyVal); ok {
						key = k
					} else {
						key = -1
					}
				}
				if target == nil {
					addEff(effect{Kind: kind, Root: -1, Key: key, ValConst: valConst, Field: field, Why: why})
					return
				}
				for _, r := range rootsOf(target) {
					switch r.Kind {
					case rParam:
						addEff(effect{Kind: kind, Root: r.Idx, Key: key, ValConst: valConst, Field: field, Why: why})
					case rFree:
						// captured variable k of a closure: Root = -(2+k)
						idx := -1
						for k, fv := range f.FreeVars {
							if ssa.Value(fv) == r.V {
								idx = -(2 + k)
							}
						}
						addEff(effect{Kind: kind, Root: idx, Key: key, ValConst: valConst, Field: field, Why: why})
					case rGlobal:
						addEff(effect{Kind: kind, Root: -1, Key: key, ValConst: valConst, Field: field, Why: why})
					}
				}
			}
			eachInstr(f, func(_ *ssa.BasicBlock, i ssa.Instruction) {
				for _, re := range e.rawEffects(i, true) {
					lift(re.Kind, re.Target, re.KeyVal, -1, re.ValConst, re.Field, re.Why)
				}
				switch x := i.(type) {
				case ssa.CallInstruction:
					ops := opsOf(x)
					for _, g := range e.callees[x] {
						gs := e.sum[g]
						if gs == nil {
							continue
						}
						for _, ef := range gs.effects {
							why := "via " + fnName(g) + ": " + ef.Why
							if len(why) > 160 {
								why = why[:160]
							}
							if ef.Root <= -2 {
								continue // closure effects on captured variables are lifted where the closure is created
							}
							if ef.Root == -1 {
								addEff(effect{Kind: ef.Kind, Root: -1, Key: -1, ValConst: ef.ValConst, Field: ef.Field, Why: why})
								continue
							}
							if ef.Root >= len(ops) {
								continue
							}
							var keyVal ssa.Value
							keyFixed := ef.Key
							if ef.Key >= 0 {
								if ef.Key < len(ops) {
									keyVal = ops[ef.Key]
								} else {
									keyFixed = -1
								}
							}
							lift(ef.Kind, ops[ef.Root], keyVal, keyFixed, ef.ValConst, ef.Field, why)
						}
					}
				case *ssa.MakeClosure:
					fn, _ := x.Fn.(*ssa.Function)
					gs := e.sum[fn]
					if gs == nil {
						return
					}
					for _, ef := range gs.effects {
						switch {
						case ef.Root >= 0:
							continue
						case ef.Root == -1:
							addEff(effect{Kind: ef.Kind, Root: -1, Key: -1, ValConst: ef.ValConst, Field: ef.Field, Why: "closure " + fnName(fn) + ": " + ef.Why})
						default:
							k := -(ef.Root + 2)
							if k < len(x.Bindings) {
								lift(ef.Kind, x.Bindings[k], nil, -1, ef.ValConst, ef.Field, "closure "+fnName(fn)+": "+ef.Why)
							}
						}
					}
				}
			})
		}
	}
}

func isGetterName(o *types.Func) bool {
	return strings.HasPrefix(o.Name(), "Get") || o.Name() == "String" || o.Name() == "Error" || o.Name() == "Len"
}

// ---- loops -----------------------------------------------------------------------

type mapLoop struct {
	fn     *ssa.Function
	rng    *ssa.Range
	seeds  []ssa.Value // slice loops: the element address(es)
	next   *ssa.Next
	header *ssa.BasicBlock
	body   map[*ssa.BasicBlock]bool
	exits  []*ssa.BasicBlock // blocks of the loop statement that leave the loop
	ord    int
}

func findMapLoops(f *ssa.Function) []*mapLoop {
	var out []*mapLoop
	eachInstr(f, func(_ *ssa.BasicBlock, i ssa.Instruction) {
		r, ok := i.(*ssa.Range)
		if !ok {
			return
		}
		if _, isMap := r.X.Type().Underlying().(*types.Map); !isMap {
			return
		}
		for _, ref := range *r.Referrers() {
			nx, ok := ref.(*ssa.Next)
			if !ok {
				continue
			}
			l := &mapLoop{fn: f, rng: r, next: nx, header: nx.Block(), body: map[*ssa.BasicBlock]bool{}}
			// natural loop of header
			h := l.header
			var stack []*ssa.BasicBlock
			for _, pr := range h.Preds {
				if h.Dominates(pr) {
					if !l.body[pr] {
						l.body[pr] = true
						stack = append(stack, pr)
					}
				}
			}
			l.body[h] = true
			for len(stack) > 0 {
				b := stack[len(stack)-1]
				stack = stack[:len(stack)-1]
				if b == h {
					continue
				}
				for _, pr := range b.Preds {
					if !l.body[pr] {
						l.body[pr] = true
						stack = append(stack, pr)
					}
				}
			}
			// exit arms: blocks inside the loop statement that leave it (return,
			// panic) are not part of the natural loop; they are dominated by the
			// block the header enters on "another entry"
			if iff, ok := h.Instrs[len(h.Instrs)-1].(*ssa.If); ok && len(h.Succs) == 2 {
				_ = iff
				entry := h.Succs[0]
				if l.body[entry] {
					for _, b := range f.Blocks {
						if !l.body[b] && entry.Dominates(b) {
							l.body[b] = true
							l.exits = append(l.exits, b)
						}
					}
				}
			}
			out = append(out, l)
		}
	})
	return out
}

type sink struct {
	ins  ssa.Instruction
	what string
}

// classify returns the order-sensitive sinks of the loop (empty = insensitive).
func (e *orderEngine) classify(l *mapLoop) []sink {
	var sinks []sink
	f := l.fn
	if l.rng != nil && singleEntryGuarded(l.rng) {
		return nil // `if len(m) == 1 { for … range m`: one entry has one order
	}
	add := func(i ssa.Instruction, format string, a ...interface{}) {
		sinks = append(sinks, sink{i, fmt.Sprintf(format, a...)})
	}
	// iteration-dependent values
	dep := map[ssa.Value]bool{}
	if l.next != nil {
		for _, r := range *l.next.Referrers() {
			if ex, ok := r.(*ssa.Extract); ok && ex.Index >= 1 {
				dep[ex] = true
			}
		}
	}
	for _, sd := range l.seeds {
		dep[sd] = true
	}
	for changed := true; changed; {
		changed = false
		for b := range l.body {
			for _, ins := range b.Instrs {
				v, ok := ins.(ssa.Value)
				if !ok || dep[v] {
					continue
				}
				if _, isPhi := v.(*ssa.Phi); isPhi && b == l.header {
					continue
				}
				for _, op := range ins.Operands(nil) {
					if *op != nil && dep[*op] {
						dep[v] = true
						changed = true
						break
					}
				}
			}
		}
	}
	inBody := func(i ssa.Instruction) bool { return i != nil && l.body[i.Block()] }
	// loop-relative class of a reference
	classOf := func(v ssa.Value) (local, iter, outer bool, desc string) {
		rs := rootsOf(v)
		// reachable from this loop's own element: the iteration's private state
		if l.next != nil {
			for _, r := range rs {
				if r.Kind == rIter && r.V == ssa.Value(l.next) {
					return false, true, false, ""
				}
			}
		}
		for _, r := range rs {
			switch r.Kind {
			case rLocal:
				if inBody(r.At) {
					local = true
				} else {
					outer = true
					desc = "variable declared outside the loop"
				}
			case rIter:
				if l.next != nil && r.V == ssa.Value(l.next) {
					iter = true
				} else {
					outer = true
					desc = "element of an enclosing iteration"
				}
			case rParam:
				outer = true
				desc = "parameter " + r.V.Name()
			case rFree:
				outer = true
				desc = "captured variable " + r.V.Name()
			case rGlobal:
				outer = true
				desc = "global " + r.V.Name()
			default:
				outer = true
				desc = "unknown storage"
			}
		}
		return
	}
	isOuter := func(v ssa.Value) (bool, string) {
		_, _, o, d := classOf(v)
		return o, d
	}
	// evaluate one abstract effect in the context of this loop
	eval := func(ins ssa.Instruction, kind string, target, keyVal ssa.Value, keyConst bool, valConst, valDep bool, field, why string, direct bool) {
		d := "global or captured state"
		if target != nil {
			o, dd := isOuter(target)
			if !o {
				return
			}
			d = dd
		}
		if field != "" {
			d += " (" + field + ")"
		}
		switch kind {
		case "emit":
			add(ins, "writes output to a writer held in %s inside the unordered loop [%s]", d, why)
		case "concat":
			add(ins, "concatenates onto a string held in %s in map order [%s]", d, why)
		case "append":
			if e.unordTag[field] || e.stackFld[field] {
				return
			}
			if direct && target != nil && e.sortedBeforeUse(l, target, nil) {
				return
			}
			add(ins, "appends in map order to a slice in %s, which is not sorted before it is used [%s]", d, why)
		case "mapset":
			if valConst {
				return // set-like insertion: same final content in any order
			}
			if keyVal != nil && injectiveOf(keyVal, loopKey(l)) {
				return
			}
			// `if _, ok := m[k]; !ok { m[k] = make(…) }`: installing an empty container
			// when the key is still absent gives the same map in any order
			if mu, ok := ins.(*ssa.MapUpdate); ok && direct && initIfAbsent(mu) {
				return
			}
			if keyConst || (keyVal != nil && !dep[keyVal]) {
				if !valDep {
					return
				}
				add(ins, "stores iteration-dependent values under an iteration-independent key of a map in %s (last visited entry wins) [%s]", d, why)
				return
			}
			add(ins, "stores under a key computed from the entry (not the iteration key itself) in a map in %s: entries with the same computed key collide and the last visited wins [%s]", d, why)
		case "store":
			if valConst || !valDep {
				return
			}
			// a counter, sum or flag kept in memory: x.n += f(entry), x.seen = x.seen || …
			if st, ok := ins.(*ssa.Store); ok && direct && numericAccumulation(st) {
				return
			}
			// the loop's own value variable (or any local cell) that is only read
			// inside the loop body never shows which entry came last
			if direct && target != nil {
				if al := cellOf(target); al != nil && onlyReadInside(al, l) {
					return
				}
			}
			add(ins, "assigns an iteration-dependent value to %s (last visited entry wins) [%s]", d, why)
		case "unknown":
			add(ins, "hands %s to a function not known to be order-insensitive [%s]", d, why)
		}
	}
	// two returns inside the loop that give different (iteration-independent)
	// values: which one is taken depends on the entry visited first
	{
		var rets []*ssa.Return
		for _, b := range f.Blocks {
			if l.body[b] {
				if ret, ok := b.Instrs[len(b.Instrs)-1].(*ssa.Return); ok {
					rets = append(rets, ret)
				}
			}
		}
		sig := func(v ssa.Value) string {
			if k, ok := v.(*ssa.Const); ok {
				if k.Value == nil {
					return "nil"
				}
				return k.Value.ExactString()
			}
			// a composite literal returned by value: the constants stored into it
			if u, ok := v.(*ssa.UnOp); ok && u.Op == token.MUL {
				if al, ok := u.X.(*ssa.Alloc); ok && al.Referrers() != nil {
					parts := []string{}
					for _, r := range *al.Referrers() {
						if fa, ok := r.(*ssa.FieldAddr); ok && fa.Referrers() != nil {
							for _, rr := range *fa.Referrers() {
								if st, ok := rr.(*ssa.Store); ok {
									if k, ok := st.Val.(*ssa.Const); ok && k.Value != nil {
										parts = append(parts, fmt.Sprintf("%d=%s", fa.Field, k.Value.ExactString()))
									} else {
										parts = append(parts, fmt.Sprintf("%d=?%p", fa.Field, st.Val))
									}
								}
							}
						}
					}
					sort.Strings(parts)
					return "{" + strings.Join(parts, ",") + "}"
				}
			}
			return fmt.Sprintf("?%p", v)
		}
	pairs:
		for i := 0; i < len(rets); i++ {
			for j := i + 1; j < len(rets); j++ {
				for k := range rets[i].Results {
					vi, _ := returnValues(rets[i])
					vj, _ := returnValues(rets[j])
					a, b := vi[k], vj[k]
					if isErrorType(a.Type()) || isBoolType(a.Type()) || dep[a] || dep[b] {
						continue
					}
					if sig(a) != sig(b) {
						add(rets[j], "returns from inside the loop with a result that differs from the one returned at %s: the entry visited first decides which", e.p.pos(rets[i].Pos()))
						break pairs
					}
				}
			}
		}
	}
	for _, b := range f.Blocks {
		if !l.body[b] {
			continue
		}
		for _, ins := range b.Instrs {
			if ret, ok := ins.(*ssa.Return); ok {
				for _, r := range ret.Results {
					if dep[r] && !isErrorType(r.Type()) && !isBoolType(r.Type()) {
						add(ret, "returns an iteration-dependent value from inside the loop (first visited entry wins)")
						break
					}
				}
				continue
			}
			for _, re := range e.rawEffects(ins, false) {
				valDep := true
				switch x := ins.(type) {
				case *ssa.Store:
					valDep = dep[x.Val] || isAppendOf(x.Val)
				case *ssa.MapUpdate:
					valDep = dep[x.Value]
				}
				eval(ins, re.Kind, re.Target, re.KeyVal, false, re.ValConst, valDep, re.Field, re.Why, true)
			}
			// A closure (or bound method value) created in the loop body is taken
			// to run once per iteration — it is handed to a walker as its call-back.
			// Its effects on what it captures happen in iteration order.
			if mc, ok := ins.(*ssa.MakeClosure); ok {
				if fn, ok := mc.Fn.(*ssa.Function); ok {
					target := fn
					bound := fn.Synthetic != "" && strings.HasSuffix(fn.Name(), "$bound")
					if bound {
						target = normFn(e.p, fn)
					}
					if gs := e.sum[target]; gs != nil {
						ids := make([]string, 0, len(gs.effects))
						for id := range gs.effects {
							ids = append(ids, id)
						}
						sort.Strings(ids)
						for _, id := range ids {
							ef := gs.effects[id]
							why := "call-back " + fnName(target) + " created in the loop: " + ef.Why
							switch {
							case bound && ef.Root == 0 && len(mc.Bindings) > 0:
								eval(ins, ef.Kind, mc.Bindings[0], nil, ef.Key == -2, ef.ValConst, true, ef.Field, why, false)
							case !bound && ef.Root <= -2:
								if k := -(ef.Root + 2); k < len(mc.Bindings) {
									eval(ins, ef.Kind, mc.Bindings[k], nil, ef.Key == -2, ef.ValConst, true, ef.Field, why, false)
								}
							}
						}
					}
				}
				continue
			}
			call, ok := ins.(ssa.CallInstruction)
			if !ok {
				continue
			}
			ops := opsOf(call)
			anyDep := false
			for _, a := range ops {
				if dep[a] {
					anyDep = true
				}
			}
			for _, g := range e.callees[call] {
				gs := e.sum[g]
				if gs == nil {
					continue
				}
				ids := make([]string, 0, len(gs.effects))
				for id := range gs.effects {
					ids = append(ids, id)
				}
				sort.Strings(ids)
				for _, id := range ids {
					ef := gs.effects[id]
					why := "via " + fnName(g) + ": " + ef.Why
					if ef.Root <= -2 {
						continue // closure: effects on captured variables are attributed where it is created
					}
					if ef.Root == -1 {
						eval(ins, ef.Kind, nil, nil, ef.Key == -2, ef.ValConst, anyDep, ef.Field, why, false)
						continue
					}
					if ef.Root >= len(ops) {
						continue
					}
					var keyVal ssa.Value
					if ef.Key >= 0 && ef.Key < len(ops) {
						keyVal = ops[ef.Key]
					}
					eval(ins, ef.Kind, ops[ef.Root], keyVal, ef.Key == -2, ef.ValConst, anyDep, ef.Field, why, false)
				}
			}
			// closures created in the loop and run later/elsewhere: effects on captured outer state
			if mc, ok := ins.(*ssa.MakeClosure); ok {
				_ = mc
			}
		}
	}
	// loop-carried local variables (lifted to phis at the header)
	for _, ins := range l.header.Instrs {
		phi, ok := ins.(*ssa.Phi)
		if !ok {
			continue
		}
		var bodyEdges []ssa.Value
		for i, pr := range l.header.Preds {
			if l.body[pr] {
				bodyEdges = append(bodyEdges, phi.Edges[i])
			}
		}
		e.classifyCarried(l, phi, bodyEdges, dep, add)
	}
	// inner-loop phis that carry values out (e.g. result built in nested loops)
	return sinks
}

func isConstLike(v ssa.Value) bool {
	switch x := v.(type) {
	case *ssa.Const:
		return true
	case *ssa.MakeInterface:
		return isConstLike(x.X)
	case *ssa.Alloc:
		_ = x
		return false
	}
	// struct{}{} literal
	if st, ok := v.Type().Underlying().(*types.Struct); ok && st.NumFields() == 0 {
		return true
	}
	return false
}

func appendCall(v ssa.Value) *ssa.Call {
	c, ok := v.(*ssa.Call)
	if !ok {
		return nil
	}
	if b, ok := c.Call.Value.(*ssa.Builtin); ok && b.Name() == "append" {
		return c
	}
	return nil
}

func isAppendOf(v ssa.Value) bool { return appendCall(v) != nil }

func isCommutativeUpdate(s *ssa.Store) bool {
	b, ok := s.Val.(*ssa.BinOp)
	if !ok {
		return false
	}
	bt, ok := b.Type().Underlying().(*types.Basic)
	if !ok || bt.Info()&(types.IsInteger|types.IsFloat|types.IsBoolean) == 0 {
		return false
	}
	switch b.Op {
	case token.ADD, token.MUL, token.OR, token.AND, token.XOR, token.LOR, token.LAND:
	default:
		return false
	}
	isLoadOf := func(v ssa.Value) bool {
		u, ok := v.(*ssa.UnOp)
		return ok && u.Op == token.MUL && (u.X == s.Addr || exprKey(u.X, 0) == exprKey(s.Addr, 0))
	}
	return isLoadOf(b.X) || isLoadOf(b.Y)
}

func isStringConcatOnto(s *ssa.Store) bool {
	b, ok := s.Val.(*ssa.BinOp)
	if !ok || b.Op != token.ADD || !isStringType(b.Type()) {
		return false
	}
	return true
}

// injectiveOf: key is the iteration key itself, possibly converted, or a
// string concatenation / Sprintf that contains the iteration key (assumed
// injective: separators keep components apart).
func injectiveOf(key, iterKey ssa.Value) bool {
	if iterKey == nil || key == nil {
		return false
	}
	seen := map[ssa.Value]bool{}
	var rec func(v ssa.Value, d int) bool
	rec = func(v ssa.Value, d int) bool {
		if v == nil || seen[v] || d > 10 {
			return false
		}
		seen[v] = true
		if v == iterKey {
			return true
		}
		switch x := v.(type) {
		case *ssa.ChangeType:
			return rec(x.X, d+1)
		case *ssa.Convert:
			return rec(x.X, d+1)
		case *ssa.MakeInterface:
			return rec(x.X, d+1)
		case *ssa.BinOp:
			if x.Op == token.ADD && isStringType(x.Type()) {
				return rec(x.X, d+1) || rec(x.Y, d+1)
			}
		case *ssa.Call:
			if o := calleeObj(x); o != nil && o.Pkg() != nil && o.Pkg().Path() == "fmt" && o.Name() == "Sprintf" {
				// varargs slice
				return derives(x.Call.Args[len(x.Call.Args)-1], func(y ssa.Value) bool { return y == iterKey }, nil)
			}
		}
		return false
	}
	return rec(key, 0)
}

func (e *orderEngine) fieldUnordered(addr ssa.Value) bool {
	own, fld, _, ok := fieldOfAddr(addr)
	if !ok || own == nil {
		return false
	}
	return e.unordTag[own.Obj().Name()+"."+fld]
}

var sanitiserFuncs = map[string]bool{
	"sort.Strings": true, "sort.Ints": true, "sort.Float64s": true, "sort.Slice": true, "sort.SliceStable": true,
	"sort.Sort": true, "sort.Stable": true, "slices.Sort": true, "slices.SortFunc": true, "slices.SortStableFunc": true,
}

func isSanitiserCall(cl ssa.CallInstruction) bool {
	o := calleeObj(cl)
	if o == nil || o.Pkg() == nil {
		return false
	}
	if !sanitiserFuncs[o.Pkg().Path()+"."+o.Name()] {
		return false
	}
	// a sort driven by a comparison function removes the map order only if the
	// comparison orders the elements themselves: a comparison of a many-to-one
	// key (a rank, a looked-up value) leaves elements with equal keys in the
	// order they arrived in
	switch o.Name() {
	case "Slice", "SliceStable", "SortFunc", "SortStableFunc":
		args := cl.Common().Args
		if len(args) >= 2 {
			if fn, ok := stripFuncValue(args[1]); ok {
				return comparatorOrdersElements(fn)
			}
		}
	}
	return true
}

// comparatorOrdersElements: some ordered comparison in the less function has
// both operands taken from the indexed elements themselves — directly, through
// field selections, or through argument-less methods of the element (Name()) —
// and not through a map look-up keyed by the element or a function applied to it.
func comparatorOrdersElements(less *ssa.Function) bool {
	if less == nil || len(less.Blocks) == 0 {
		return true // not analysable here: keep the previous behaviour
	}
	var fromElem func(v ssa.Value, d int) bool
	fromElem = func(v ssa.Value, d int) bool {
		if v == nil || d > 10 {
			return false
		}
		switch x := v.(type) {
		case *ssa.Parameter:
			// slices.SortFunc(a, b T): the elements are the parameters
			_, isInt := x.Type().Underlying().(*types.Basic)
			return !isInt || x.Type().Underlying().(*types.Basic).Kind() != types.Int
		case *ssa.UnOp:
			return fromElem(x.X, d+1)
		case *ssa.Alloc:
			// a parameter spilled into its cell
			var val ssa.Value
			n := 0
			if x.Referrers() != nil {
				for _, r := range *x.Referrers() {
					if st, ok := r.(*ssa.Store); ok && st.Addr == ssa.Value(x) {
						val = st.Val
						n++
					}
				}
			}
			if prm, ok := val.(*ssa.Parameter); ok && n == 1 {
				return fromElem(prm, d+1)
			}
			return false
		case *ssa.IndexAddr:
			_, isParam := x.Index.(*ssa.Parameter)
			return isParam
		case *ssa.Index:
			_, isParam := x.Index.(*ssa.Parameter)
			return isParam
		case *ssa.FieldAddr:
			return fromElem(x.X, d+1)
		case *ssa.Field:
			return fromElem(x.X, d+1)
		case *ssa.Convert:
			return fromElem(x.X, d+1)
		case *ssa.ChangeType:
			return fromElem(x.X, d+1)
		case *ssa.Call:
			// argument-less method of the element, or a string normaliser applied to it
			if x.Call.IsInvoke() && len(x.Call.Args) == 0 {
				return fromElem(x.Call.Value, d+1)
			}
			// a key function handed to a sort-by-key helper, applied to the element:
			// every caller of the helper must hand in a key that is a selection of
			// the element (a field, an argument-less method)
			if !x.Call.IsInvoke() && x.Call.StaticCallee() == nil && len(x.Call.Args) == 1 && fromElem(x.Call.Args[0], d+1) {
				if keyParamOrders(x.Call.Value, fromElem) {
					return true
				}
			}
			if sc := x.Call.StaticCallee(); sc != nil {
				if sc.Signature.Recv() != nil && len(x.Call.Args) == 1 {
					return fromElem(x.Call.Args[0], d+1)
				}
				// a formatted key built from selections of the element only
				if sc.Pkg != nil && sc.Pkg.Pkg.Path() == "fmt" && strings.HasPrefix(sc.Name(), "Sprint") {
					n := 0
					for _, a := range x.Call.Args {
						if _, isK := a.(*ssa.Const); isK {
							continue
						}
						if sl, ok := a.(*ssa.Slice); ok {
							if al, ok := sl.X.(*ssa.Alloc); ok && al.Referrers() != nil {
								for _, r := range *al.Referrers() {
									if ia, ok := r.(*ssa.IndexAddr); ok && ia.Referrers() != nil {
										for _, r2 := range *ia.Referrers() {
											if st, ok := r2.(*ssa.Store); ok {
												v := st.Val
												if mi, ok := v.(*ssa.MakeInterface); ok {
													v = mi.X
												}
												if _, isK := v.(*ssa.Const); isK {
													continue
												}
												if !fromElem(v, d+1) {
													return false
												}
												n++
											}
										}
									}
								}
								continue
							}
						}
						if !fromElem(a, d+1) {
							return false
						}
						n++
					}
					return n > 0
				}
				if sc.Pkg != nil && sc.Pkg.Pkg.Path() == "strings" && (sc.Name() == "ToLower" || sc.Name() == "ToUpper") && len(x.Call.Args) == 1 {
					return fromElem(x.Call.Args[0], d+1)
				}
			}
		case *ssa.Phi:
			for _, e := range x.Edges {
				if !fromElem(e, d+1) {
					return false
				}
			}
			return len(x.Edges) > 0
		}
		return false
	}
	found := false
	for _, f := range withClosures(less) {
		eachInstr(f, func(_ *ssa.BasicBlock, i ssa.Instruction) {
			switch x := i.(type) {
			case *ssa.BinOp:
				switch x.Op {
				case token.LSS, token.GTR, token.LEQ, token.GEQ:
					if fromElem(x.X, 0) && fromElem(x.Y, 0) {
						found = true
					}
				}
			case *ssa.Call:
				if o := calleeObj(x); o != nil && o.Pkg() != nil && o.Pkg().Path() == "strings" && o.Name() == "Compare" && len(x.Call.Args) == 2 {
					if fromElem(x.Call.Args[0], 0) && fromElem(x.Call.Args[1], 0) {
						found = true
					}
				}
				// a named ordering of the repository applied to the two elements:
				// less(xs[i], xs[j]) — judged with its parameters as the elements
				if sc := x.Call.StaticCallee(); sc != nil && sc != less && isRepoFn(sc) && len(sc.Blocks) > 0 && len(x.Call.Args) == 2 &&
					sc.Signature.Results().Len() == 1 && isBoolType(sc.Signature.Results().At(0).Type()) &&
					fromElem(x.Call.Args[0], 0) && fromElem(x.Call.Args[1], 0) && comparatorDepth < 3 {
					comparatorDepth++
					if comparatorOrdersElements(sc) {
						found = true
					}
					comparatorDepth--
				}
			}
		})
	}
	return found
}

// sortedBeforeUse: the slice stored at addr (a local cell or a field) is passed
// to a sort before any other use after the loop, in the same function.
func (e *orderEngine) sortedBeforeUse(l *mapLoop, addr ssa.Value, _ interface{}) bool {
	f := l.fn
	key := exprKey(addr, 0)
	var sorts []ssa.Instruction
	var uses []ssa.Instruction
	eachInstr(f, func(b *ssa.BasicBlock, i ssa.Instruction) {
		if l.body[b] {
			return
		}
		ld, ok := i.(*ssa.UnOp)
		if !ok || ld.Op != token.MUL || exprKey(ld.X, 0) != key {
			return
		}
		// must come after the loop
		if !blockReaches(l.header, b, nil) {
			return
		}
		var refs []ssa.Instruction
		var follow func(v ssa.Value, d int)
		follow = func(v ssa.Value, d int) {
			for _, r := range *v.Referrers() {
				switch x := r.(type) {
				case *ssa.MakeInterface:
					if d < 4 {
						follow(x, d+1)
						continue
					}
				case *ssa.ChangeType:
					if d < 4 {
						follow(x, d+1)
						continue
					}
				}
				refs = append(refs, r)
			}
		}
		follow(ld, 0)
		for _, r := range refs {
			if cl, ok := r.(ssa.CallInstruction); ok && isSanitiserCall(cl) {
				sorts = append(sorts, r)
				continue
			}
			if cl, ok := r.(*ssa.Call); ok {
				if bi, ok := cl.Call.Value.(*ssa.Builtin); ok && (bi.Name() == "len" || bi.Name() == "cap") {
					continue
				}
			}
			if _, ok := r.(*ssa.DebugRef); ok {
				continue
			}
			uses = append(uses, r)
		}
	})
	if os.Getenv("ORDER_DEBUG") != "" {
		fmt.Fprintf(os.Stderr, "sortedBeforeUse %s key=%s sorts=%d uses=%d\n", fnName(f), key, len(sorts), len(uses))
	}
	if len(sorts) == 0 {
		return false
	}
	for _, u := range uses {
		ok := false
		for _, s := range sorts {
			if instrDominates(s, u) {
				ok = true
			}
		}
		if !ok {
			return false
		}
	}
	return true
}

func loopKey(l *mapLoop) ssa.Value {
	if l.next == nil {
		return nil
	}
	for _, r := range *l.next.Referrers() {
		if ex, ok := r.(*ssa.Extract); ok && ex.Index == 1 {
			return ex
		}
	}
	return nil
}

func keyValOrNil(v ssa.Value, l *mapLoop) ssa.Value {
	if k := loopKey(l); k != nil && v == k {
		return v
	}
	return nil
}

func isBoolType(t types.Type) bool {
	b, ok := t.Underlying().(*types.Basic)
	return ok && b.Info()&types.IsBoolean != 0
}

// classifyCarried: a local variable assigned in the loop and live after it.
func (e *orderEngine) classifyCarried(l *mapLoop, phi *ssa.Phi, bodyEdges []ssa.Value, dep map[ssa.Value]bool,
	add func(ssa.Instruction, string, ...interface{})) {
	for _, ev := range bodyEdges {
		if ev == ssa.Value(phi) {
			continue
		}
		// walk through inner phis to the defining operation
		defs := carriedDefs(ev, phi, l)
		for _, d := range defs {
			switch x := d.(type) {
			case *ssa.Call:
				if ap := appendCall(x); ap != nil {
					// the slice accumulated across iterations
					sorted, onlyRet := e.localSliceSorted(l, phi)
					if !sorted && onlyRet {
						e.sum[l.fn].returnsTaint = true
						e.sum[l.fn].taintWhy = "appends to " + phiName(phi) + " in map order at " + e.p.pos(x.Pos()) + " and returns it unsorted"
					} else if !sorted {
						add(x, "appends to local slice %s in map order; it is used after the loop without being sorted first", phiName(phi))
					}
					continue
				}
				if dep[x] && !isBoolType(x.Type()) && !isErrorType(x.Type()) {
					add(x, "local %s is reassigned from an iteration-dependent call result (last visited entry wins)", phiName(phi))
				}
			case *ssa.BinOp:
				bt, _ := x.Type().Underlying().(*types.Basic)
				if bt != nil && bt.Info()&types.IsString != 0 && x.Op == token.ADD {
					add(x, "concatenates onto local string %s in map order", phiName(phi))
					continue
				}
				if bt != nil && bt.Info()&(types.IsInteger|types.IsFloat|types.IsBoolean) != 0 {
					continue // counters, sums, flags
				}
			default:
				if v, ok := d.(ssa.Value); ok && dep[v] {
					if bt, ok := v.Type().Underlying().(*types.Basic); ok && bt.Info()&types.IsBoolean != 0 {
						continue
					}
					if isErrorType(v.Type()) {
						continue
					}
					// the smallest (largest) entry: `if first == "" || k < best { best = k }` —
					// the value that replaces the running one was compared with it by an
					// ordering operator, so the result is the minimum whatever the order
					if minMaxUpdate(v, phi, l) {
						continue
					}
					if usedAfterLoop(l, phi) {
						add(phi, "local %s takes an iteration-dependent value and is used after the loop (last/first visited entry wins)", phiName(phi))
					}
				}
			}
		}
	}
}

func phiName(p *ssa.Phi) string {
	if p.Comment != "" {
		return p.Comment
	}
	return p.Name()
}

// carriedDefs resolves the value flowing back into the header phi to the
// non-phi definitions inside the loop.
func carriedDefs(v ssa.Value, header *ssa.Phi, l *mapLoop) []ssa.Instruction {
	var out []ssa.Instruction
	seen := map[ssa.Value]bool{}
	var rec func(v ssa.Value)
	rec = func(v ssa.Value) {
		if v == nil || seen[v] || v == ssa.Value(header) {
			return
		}
		seen[v] = true
		if p, ok := v.(*ssa.Phi); ok && l.body[p.Block()] {
			for _, e := range p.Edges {
				rec(e)
			}
			return
		}
		if i, ok := v.(ssa.Instruction); ok {
			if l.body[i.Block()] {
				out = append(out, i)
			}
			return
		}
		if c, ok := v.(*ssa.Const); ok {
			_ = c
		}
	}
	rec(v)
	return out
}

func usedAfterLoop(l *mapLoop, phi *ssa.Phi) bool {
	seen := map[ssa.Value]bool{}
	var rec func(v ssa.Value) bool
	rec = func(v ssa.Value) bool {
		if seen[v] || v.Referrers() == nil {
			return false
		}
		seen[v] = true
		for _, r := range *v.Referrers() {
			if _, ok := r.(*ssa.DebugRef); ok {
				continue
			}
			if !l.body[r.Block()] {
				return true
			}
			if p, ok := r.(*ssa.Phi); ok && rec(p) {
				return true
			}
		}
		return false
	}
	return rec(phi)
}

// sliceUseState follows a slice value (the accumulated slice as seen after
// the loop, or a tainted call result) to its uses. sorted: every use is a
// sort/len or is dominated by a sort of it. onlyReturned: the unsorted uses
// are all returns (the caller inherits the obligation).
func (e *orderEngine) sliceUseState(start ssa.Value, body map[*ssa.BasicBlock]bool) (sorted, onlyReturned bool) {
	var after []ssa.Instruction
	var sorts []ssa.Instruction
	seen := map[ssa.Value]bool{}
	var collect func(v ssa.Value)
	collect = func(v ssa.Value) {
		if seen[v] || v.Referrers() == nil {
			return
		}
		seen[v] = true
		for _, r := range *v.Referrers() {
			if _, ok := r.(*ssa.DebugRef); ok {
				continue
			}
			if body != nil && body[r.Block()] {
				if p, ok := r.(*ssa.Phi); ok {
					collect(p)
				}
				if c, ok := r.(*ssa.Call); ok && appendCall(c) != nil {
					collect(c)
				}
				continue
			}
			switch x := r.(type) {
			case *ssa.Phi:
				collect(x)
				continue
			case *ssa.Slice:
				collect(x)
				continue
			case *ssa.MakeInterface:
				collect(x)
				continue
			case *ssa.ChangeType:
				collect(x)
				continue
			case *ssa.Convert:
				collect(x)
				continue
			case *ssa.Extract:
				collect(x)
				continue
			case *ssa.IndexAddr:
				if x.X == v {
					if sl := sliceLoopOf(x); sl != nil {
						// a trial classification: what it would mark on the function
						// (returns a map-ordered list) only holds if this use turns out
						// to be unsorted, and then the use itself is reported
						var saved funcSummarySnapshot
						if fs := e.sum[sl.fn]; fs != nil {
							saved = funcSummarySnapshot{true, fs.returnsTaint, fs.taintWhy}
						}
						sinks := e.classify(sl)
						sortedFirst := false
						for _, r2 := range *v.Referrers() {
							if cl2, ok := r2.(ssa.CallInstruction); ok && isSanitiserCall(cl2) && instrDominates(r2, x) {
								sortedFirst = true
							}
						}
						if fs := e.sum[sl.fn]; fs != nil && saved.valid && sortedFirst {
							fs.returnsTaint, fs.taintWhy = saved.returnsTaint, saved.taintWhy
						}
						if len(sinks) == 0 {
							continue // element-wise use with no order-sensitive effect
						}
					}
				}
			case *ssa.Store:
				// spilled to a local cell (captured / address-taken variable): follow loads
				if al, ok := x.Addr.(*ssa.Alloc); ok && x.Val == v {
					for _, r2 := range *al.Referrers() {
						if ld, ok := r2.(*ssa.UnOp); ok && ld.Op == token.MUL {
							collect(ld)
						}
					}
					continue
				}
				if e.unordTag[lastField(x.Addr)] {
					continue // stored into a relation that is a set
				}
			case ssa.CallInstruction:
				if isSanitiserCall(x) {
					sorts = append(sorts, r)
					continue
				}
				if c, ok := r.(*ssa.Call); ok {
					if b, ok := c.Call.Value.(*ssa.Builtin); ok && (b.Name() == "len" || b.Name() == "cap") {
						continue
					}
					if ap := appendCall(c); ap != nil {
						// appended onto / into another slice: follow the result
						collect(c)
						continue
					}
					// repo helpers that sort their argument or build a set from it
					if sc := staticCallee(c); sc != nil && e.sortsOrSetifies(sc) {
						sorts = append(sorts, r)
						continue
					}
				}
			}
			after = append(after, r)
		}
	}
	collect(start)
	if len(after) == 0 {
		return true, false
	}
	allRet := true
	for _, u := range after {
		ok := false
		for _, s := range sorts {
			if instrDominates(s, u) {
				ok = true
			}
		}
		if ok {
			continue
		}
		if _, isRet := u.(*ssa.Return); !isRet {
			return false, false
		}
		allRet = allRet && true
		sorted = false
	}
	// reaching here: every unsorted use is a return (or all uses sorted)
	unsortedRet := false
	for _, u := range after {
		dom := false
		for _, s := range sorts {
			if instrDominates(s, u) {
				dom = true
			}
		}
		if !dom {
			unsortedRet = true
		}
	}
	if !unsortedRet {
		return true, false
	}
	return false, true
}

// sliceLoopOf builds the loop descriptor for `for i := range s { … s[i] … }`.
func sliceLoopOf(ia *ssa.IndexAddr) *mapLoop {
	if ok, _ := inductionForward(ia.Index); !ok {
		return nil
	}
	var phi *ssa.Phi
	switch x := ia.Index.(type) {
	case *ssa.Phi:
		phi = x
	case *ssa.BinOp:
		phi, _ = x.X.(*ssa.Phi)
	}
	if phi == nil {
		return nil
	}
	h := phi.Block()
	l := &mapLoop{fn: ia.Parent(), header: h, body: map[*ssa.BasicBlock]bool{h: true}, seeds: []ssa.Value{ia}}
	var stack []*ssa.BasicBlock
	for _, pr := range h.Preds {
		if h.Dominates(pr) && !l.body[pr] {
			l.body[pr] = true
			stack = append(stack, pr)
		}
	}
	for len(stack) > 0 {
		b := stack[len(stack)-1]
		stack = stack[:len(stack)-1]
		for _, pr := range b.Preds {
			if !l.body[pr] {
				l.body[pr] = true
				stack = append(stack, pr)
			}
		}
	}
	if !l.body[ia.Block()] {
		return nil
	}
	return l
}

// sortsOrSetifies: repo function that sorts the slice given as its (single
// slice) argument or turns it into a set (map keys).
func (e *orderEngine) sortsOrSetifies(f *ssa.Function) bool {
	if f == nil || len(f.Blocks) == 0 {
		return false
	}
	if o := f.Origin(); o != nil && f.Synthetic != "" && len(o.Blocks) > 0 {
		f = o // instantiation wrapper of a generic helper: judge the helper
	}
	res := false
	eachCall(f, func(cl ssa.CallInstruction) {
		if isSanitiserCall(cl) {
			for _, a := range cl.Common().Args {
				for _, r := range rootsOf(a) {
					if r.Kind == rParam {
						res = true
					}
				}
			}
		}
	})
	if res {
		return true
	}
	// MakeStrSet(xs...): inserts every element as a map key and returns the map
	if f.Signature.Results().Len() != 1 {
		return false
	}
	if _, ok := f.Signature.Results().At(0).Type().Underlying().(*types.Map); ok {
		onlyKeys := false
		eachInstr(f, func(_ *ssa.BasicBlock, i ssa.Instruction) {
			if mu, ok := i.(*ssa.MapUpdate); ok && isConstLike(mu.Value) {
				onlyKeys = true
			}
		})
		return onlyKeys
	}
	return false
}

func (e *orderEngine) localSliceSorted(l *mapLoop, phi *ssa.Phi) (bool, bool) {
	return e.sliceUseState(phi, l.body)
}

// ---- reporting ---------------------------------------------------------------------

// runOrder classifies every map-range loop in the selected functions.
func runOrder(c *Check, rule string, e *orderEngine, sel func(*ssa.Function) bool) {
	p := c.P
	nLoops, nFlag := 0, 0
	for _, f := range e.fns {
		if !sel(f) {
			continue
		}
		loops := findMapLoops(f)
		sort.Slice(loops, func(i, j int) bool { return loops[i].rng.Pos() < loops[j].rng.Pos() })
		for _, l := range loops {
			nLoops++
			key := fmt.Sprintf("%s|range %s", fnName(f), rangeDesc(l.rng.X))
			sinks := e.classify(l)
			if len(sinks) == 0 {
				c.Okf(rule, key, p.pos(l.rng.Pos()), "no order-sensitive effect is reachable from this map iteration").setLocal(loopSeed(l), loopSize(l))
				continue
			}
			nFlag++
			var w []string
			for i, s := range sinks {
				if i >= 6 {
					w = append(w, fmt.Sprintf("… %d more", len(sinks)-i))
					break
				}
				w = append(w, fmt.Sprintf("%s: %s", p.pos(s.ins.Pos()), s.what))
			}
			c.Ob(rule, key, p.pos(l.rng.Pos()), Flag, "map iteration order reaches an order-sensitive effect: "+sinks[0].what, w...).setLocal(loopSeed(l), loopSize(l))
		}
	}
	// reflected map keys behave like a map iteration: evaluate them before the
	// tainted-result fixpoint (the evaluation may mark the function as
	// returning map-ordered data)
	type reflRes struct {
		f               *ssa.Function
		call            *ssa.Call
		name            string
		sorted, onlyRet bool
	}
	var refl []reflRes
	for _, f := range e.fns {
		eachInstr(f, func(_ *ssa.BasicBlock, i ssa.Instruction) {
			call, ok := i.(*ssa.Call)
			if !ok {
				return
			}
			if o := calleeObj(call); o != nil && o.Pkg() != nil && o.Pkg().Path() == "reflect" && (o.Name() == "MapKeys" || o.Name() == "MapRange") {
				sorted, onlyRet := e.sliceUseState(call, nil)
				if !sorted && onlyRet {
					e.sum[f].returnsTaint = true
					e.sum[f].taintWhy = "returns reflected map keys unsorted"
				}
				refl = append(refl, reflRes{f, call, o.Name(), sorted, onlyRet})
			}
		})
	}
	// tainted results: functions that return a slice in map order; every
	// caller must sort (or setify) it before an order-sensitive use
	for changed := true; changed; {
		changed = false
		for _, f := range e.fns {
			if e.sum[f].returnsTaint {
				continue
			}
			eachInstr(f, func(_ *ssa.BasicBlock, i ssa.Instruction) {
				call, ok := i.(*ssa.Call)
				if !ok {
					return
				}
				for _, g := range e.callees[call] {
					if gs := e.sum[g]; gs != nil && gs.returnsTaint {
						if sorted, onlyRet := e.sliceUseState(call, nil); !sorted && onlyRet {
							e.sum[f].returnsTaint = true
							e.sum[f].taintWhy = "returns the unsorted result of " + fnName(g)
							changed = true
						}
					}
				}
			})
		}
	}
	nTaintCalls := 0
	for _, f := range e.fns {
		if !sel(f) {
			continue
		}
		eachInstr(f, func(_ *ssa.BasicBlock, i ssa.Instruction) {
			call, ok := i.(*ssa.Call)
			if !ok {
				return
			}
			for _, g := range e.callees[call] {
				gs := e.sum[g]
				if gs == nil || !gs.returnsTaint {
					continue
				}
				nTaintCalls++
				key := fmt.Sprintf("%s|result of %s", fnName(f), fnName(g))
				sorted, onlyRet := e.sliceUseState(call, nil)
				switch {
				case sorted:
					c.Okf(rule, key, p.pos(call.Pos()), "map-ordered result is sorted (or turned into a set) before any order-sensitive use")
				case onlyRet:
					c.Okf(rule, key, p.pos(call.Pos()), "map-ordered result is passed on to the caller, which is checked in turn")
				default:
					c.Flagf(rule, key, p.pos(call.Pos()), "the slice returned by %s is in map iteration order (%s) and is used here without being sorted first", fnName(g), gs.taintWhy)
				}
				break
			}
		})
	}
	for _, r := range refl {
		if !sel(r.f) {
			continue
		}
		nTaintCalls++
		key := fmt.Sprintf("%s|result of reflect.%s", fnName(r.f), r.name)
		switch {
		case r.sorted && !e.sum[r.f].returnsTaint:
			c.Okf(rule, key, p.pos(r.call.Pos()), "reflected map keys are sorted before any order-sensitive use")
		case r.sorted || r.onlyRet:
			c.Okf(rule, key, p.pos(r.call.Pos()), "reflected map keys are passed on to the callers (in map order), which are checked in turn")
		default:
			c.Flagf(rule, key, p.pos(r.call.Pos()), "reflected map keys are in map iteration order and are used here without being sorted first")
		}
	}
	c.Counts[rule+"_calls_of_map_ordered_results"] = nTaintCalls
	c.Counts[rule+"_map_range_loops"] = nLoops
	c.Counts[rule+"_order_sensitive_loops"] = nFlag
}

func rangeDesc(v ssa.Value) string {
	v = unspill(v)
	if _, fld, _, ok := loadedField(v); ok {
		return "." + fld
	}
	switch x := v.(type) {
	case *ssa.Parameter:
		return x.Name()
	case *ssa.Call:
		if o := calleeObj(x); o != nil {
			return o.Name() + "()"
		}
	case *ssa.Phi:
		if x.Comment != "" {
			return x.Comment
		}
	case *ssa.MakeMap:
		return "local map"
	case *ssa.Lookup:
		return rangeDesc(x.X) + "[…]"
	case *ssa.FreeVar:
		return x.Name()
	case *ssa.Global:
		return x.Name()
	case *ssa.UnOp:
		return rangeDesc(x.X)
	case *ssa.Alloc:
		return x.Comment
	case *ssa.Extract:
		return "tuple element"
	}
	return v.Type().String()
}

// initIfAbsent: the update stores a fresh empty container and is control-
// dependent on a comma-ok look-up of the same map and key.
func initIfAbsent(mu *ssa.MapUpdate) bool {
	switch v := mu.Value.(type) {
	case *ssa.MakeMap:
	case *ssa.MakeSlice:
		if k, ok := constInt(v.Len); !ok || k != 0 {
			return false
		}
	default:
		return false
	}
	f := mu.Parent()
	found := false
	eachInstr(f, func(_ *ssa.BasicBlock, i ssa.Instruction) {
		lk, ok := i.(*ssa.Lookup)
		if !ok || found {
			return
		}
		if exprKey(lk.X, 0) != exprKey(mu.Map, 0) || exprKey(lk.Index, 0) != exprKey(mu.Key, 0) {
			return
		}
		// the absent outcome, and only it, leads to the update (within one iteration:
		// paths that go round the loop through the test again do not count)
		if lk.Referrers() == nil {
			return
		}
		for _, r := range *lk.Referrers() {
			ex, ok := r.(*ssa.Extract)
			if !ok || ex.Index != 1 {
				continue
			}
			for _, br := range branchesOn(ex) {
				tb := br.If.Block()
				okSide := blockReachesAvoiding(br.TrueSucc, mu.Block(), tb)
				absent := blockReachesAvoiding(br.FalseSucc, mu.Block(), tb)
				if absent && !okSide {
					found = true
				}
			}
		}
	})
	return found
}

// cellOf: the local allocation an address belongs to (the cell itself or a field of it).
func cellOf(addr ssa.Value) *ssa.Alloc {
	for d := 0; d < 6 && addr != nil; d++ {
		switch x := addr.(type) {
		case *ssa.Alloc:
			return x
		case *ssa.FieldAddr:
			addr = x.X
		case *ssa.IndexAddr:
			addr = x.X
		default:
			return nil
		}
	}
	return nil
}

// onlyReadInside: every use of the cell other than stores into it lies in the
// loop body, and the cell's address does not escape (no call argument, no
// closure capture, no store of the address).
func onlyReadInside(al *ssa.Alloc, l *mapLoop) bool {
	if al.Referrers() == nil {
		return true
	}
	var ok func(v ssa.Value, d int) bool
	ok = func(v ssa.Value, d int) bool {
		if d > 4 || v.Referrers() == nil {
			return d <= 4
		}
		for _, r := range *v.Referrers() {
			switch x := r.(type) {
			case *ssa.Store:
				if x.Val == v {
					return false // address stored somewhere
				}
			case *ssa.UnOp:
				if !l.body[x.Block()] {
					return false
				}
			case *ssa.FieldAddr:
				if !ok(x, d+1) {
					return false
				}
			case *ssa.IndexAddr:
				if !ok(x, d+1) {
					return false
				}
			case *ssa.DebugRef:
			default:
				return false // escapes (call argument, closure, phi …)
			}
		}
		return true
	}
	return ok(al, 0)
}

// singleEntryGuarded: the range statement runs only where len(X) == 1 was
// tested on the same value.
func singleEntryGuarded(r *ssa.Range) bool {
	x := r.X
	refs := x.Referrers()
	if refs == nil {
		return false
	}
	for _, ref := range *refs {
		call, ok := ref.(*ssa.Call)
		if !ok {
			continue
		}
		if b, ok := call.Call.Value.(*ssa.Builtin); !ok || b.Name() != "len" || call.Referrers() == nil {
			continue
		}
		for _, u := range *call.Referrers() {
			bin, ok := u.(*ssa.BinOp)
			if !ok || bin.Op != token.EQL {
				continue
			}
			other := bin.Y
			if other == ssa.Value(call) {
				other = bin.X
			}
			if k, ok := constInt(other); !ok || k != 1 {
				continue
			}
			for _, br := range branchesOn(bin) {
				if br.TrueSucc == r.Block() || (br.TrueSucc.Dominates(r.Block()) && !br.FalseSucc.Dominates(r.Block()) && len(br.TrueSucc.Preds) == 1) {
					return true
				}
			}
		}
	}
	return false
}

// lazyInitStore: a fresh empty container is stored into a location on the
// outcome where a load of that same location was nil.
func lazyInitStore(st *ssa.Store) bool {
	switch v := st.Val.(type) {
	case *ssa.MakeMap:
	case *ssa.MakeSlice:
		if k, ok := constInt(v.Len); !ok || k != 0 {
			return false
		}
	default:
		return false
	}
	addrKey := exprKey(st.Addr, 0)
	found := false
	eachInstr(st.Parent(), func(_ *ssa.BasicBlock, i ssa.Instruction) {
		ld, ok := i.(*ssa.UnOp)
		if !ok || found || ld.Op != token.MUL || exprKey(ld.X, 0) != addrKey || ld.Referrers() == nil {
			return
		}
		for _, r := range *ld.Referrers() {
			bin, ok := r.(*ssa.BinOp)
			if !ok || (bin.Op != token.EQL && bin.Op != token.NEQ) || !(isNilConst(bin.X) || isNilConst(bin.Y)) {
				continue
			}
			for _, br := range branchesOn(bin) {
				nilSucc, other := br.TrueSucc, br.FalseSucc
				if bin.Op == token.NEQ {
					nilSucc, other = other, nilSucc
				}
				if len(nilSucc.Preds) == 1 && (nilSucc == st.Block() || nilSucc.Dominates(st.Block())) && !other.Dominates(st.Block()) {
					found = true
				}
			}
		}
	})
	return found
}

// loopSeed: a name-independent fingerprint of the loop's own blocks (header,
// body, exit arms), so that a table row written for this loop keeps applying
// when the rest of the function changes or the ranged map is renamed or moved.
func loopSeed(l *mapLoop) string {
	var blocks []*ssa.BasicBlock
	for b := range l.body {
		blocks = append(blocks, b)
	}
	return "loop" + fingerprintBlocks(blocks)
}

func loopSize(l *mapLoop) int {
	n := 0
	for b := range l.body {
		n += len(b.Instrs)
	}
	return n
}

// keyParamOrders: fnVal is a function-typed parameter of a helper (possibly seen
// from a closure of it as a captured variable), and at every call of the helper
// in the repository the function handed in returns a selection of its argument.
func keyParamOrders(fnVal ssa.Value, fromElem func(ssa.Value, int) bool) bool {
	fnVal = unspill(fnVal)
	if ld, ok := fnVal.(*ssa.UnOp); ok && ld.Op == token.MUL {
		fnVal = ld.X // the captured cell holding the function
	}
	var prm *ssa.Parameter
	switch x := fnVal.(type) {
	case *ssa.Parameter:
		prm = x
	case *ssa.FreeVar:
		// bound to a parameter of the enclosing function
		fn := x.Parent()
		par := fn.Parent()
		if par == nil {
			return false
		}
		for k, fv := range fn.FreeVars {
			if fv != x {
				continue
			}
			eachInstr(par, func(_ *ssa.BasicBlock, i ssa.Instruction) {
				if mc, ok := i.(*ssa.MakeClosure); ok && mc.Fn == ssa.Value(fn) && k < len(mc.Bindings) {
					if q, ok := unspill(mc.Bindings[k]).(*ssa.Parameter); ok {
						prm = q
					} else if al, ok := mc.Bindings[k].(*ssa.Alloc); ok && al.Referrers() != nil {
						for _, r := range *al.Referrers() {
							if st, ok := r.(*ssa.Store); ok && st.Addr == ssa.Value(al) {
								if q, ok := st.Val.(*ssa.Parameter); ok {
									prm = q
								}
							}
						}
					}
				}
			})
		}
	}
	if os.Getenv("VERIF_DEBUG_KEY") != "" {
		fmt.Fprintf(os.Stderr, "KEYDBG fnVal=%T prm=%v\n", fnVal, prm)
	}
	if prm == nil {
		return false
	}
	h := prm.Parent()
	idx := -1
	for k, q := range h.Params {
		if q == prm {
			idx = k
		}
	}
	if idx < 0 {
		return false
	}
	// every call of h, or of an instantiation of h when h is generic (the
	// instantiation wrappers' own calls of h are not call sites)
	generic := h
	if o := h.Origin(); o != nil {
		generic = o
	}
	n, good := 0, true
	if lastProgram == nil {
		return false
	}
	for _, f := range lastProgram.RepoFuncs() {
		if len(f.Blocks) == 0 || f == generic || f.Origin() == generic {
			continue
		}
		eachCall(f, func(cl ssa.CallInstruction) {
			sc := cl.Common().StaticCallee()
			if sc == nil || (sc != generic && sc.Origin() != generic) {
				return
			}
			args := cl.Common().Args
			if idx >= len(args) {
				good = false
				return
			}
			n++
			g, ok := stripFuncValue(args[idx])
			if !ok || g == nil || len(g.Blocks) == 0 {
				good = false
				return
			}
			for _, b := range g.Blocks {
				if ret, ok := b.Instrs[len(b.Instrs)-1].(*ssa.Return); ok {
					if len(ret.Results) != 1 || !fromElem(ret.Results[0], 0) {
						good = false
					}
				}
			}
		})
	}
	if os.Getenv("VERIF_DEBUG_KEY") != "" {
		fmt.Fprintf(os.Stderr, "KEYDBG h=%s n=%d good=%v\n", h.Name(), n, good)
	}
	return n > 0 && good
}

// numericAccumulation: *addr = *addr ⊕ v with ⊕ a commutative, associative
// operator on integers or booleans (and +, * on floats, as for local counters):
// the final value does not depend on the order of the additions.
func numericAccumulation(st *ssa.Store) bool {
	bin, ok := st.Val.(*ssa.BinOp)
	if !ok {
		return false
	}
	bt, _ := bin.Type().Underlying().(*types.Basic)
	if bt == nil || bt.Info()&(types.IsInteger|types.IsFloat|types.IsBoolean) == 0 {
		return false
	}
	switch bin.Op {
	case token.ADD, token.MUL, token.OR, token.AND, token.XOR, token.LOR, token.LAND:
	default:
		return false
	}
	key := exprKey(st.Addr, 0)
	for _, side := range []ssa.Value{bin.X, bin.Y} {
		if ld, ok := side.(*ssa.UnOp); ok && ld.Op == token.MUL && exprKey(ld.X, 0) == key {
			return true
		}
	}
	return false
}

type funcSummarySnapshot struct {
	valid        bool
	returnsTaint bool
	taintWhy     string
}

// comparatorDepth bounds the descent of comparatorOrdersElements into named orderings.
var comparatorDepth int

// minMaxUpdate: inside the loop some ordering comparison (<, >, <=, >=) has the
// new value v (or the value it was extracted from) on one side and the running
// value of the carried variable on the other, and v reaches the variable only
// through that comparison's block structure (it is an edge of the header phi or of
// an inner phi feeding it). Strings and numbers only.
func minMaxUpdate(v ssa.Value, phi *ssa.Phi, l *mapLoop) bool {
	bt, ok := v.Type().Underlying().(*types.Basic)
	if !ok || bt.Info()&(types.IsString|types.IsInteger|types.IsFloat) == 0 {
		return false
	}
	// running value as seen in the loop: the header phi or inner phis of it
	running := map[ssa.Value]bool{phi: true}
	for changed := true; changed; {
		changed = false
		for b := range l.body {
			for _, i := range b.Instrs {
				if p2, ok := i.(*ssa.Phi); ok && !running[p2] {
					for _, e := range p2.Edges {
						if running[e] {
							running[p2] = true
							changed = true
						}
					}
				}
			}
		}
	}
	found := false
	for b := range l.body {
		for _, i := range b.Instrs {
			bin, ok := i.(*ssa.BinOp)
			if !ok {
				continue
			}
			switch bin.Op {
			case token.LSS, token.GTR, token.LEQ, token.GEQ:
			default:
				continue
			}
			if (bin.X == v && running[bin.Y]) || (bin.Y == v && running[bin.X]) {
				found = true
			}
		}
	}
	return found
}
