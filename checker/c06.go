package main

import (
	"fmt"
	"go/token"
	"go/types"
	"strings"

	"golang.org/x/tools/go/ssa"
)

func init() { register("C06", LoadTyped, checkC06) }

// pipelineFuncs: the hand-written functions of the compile pipeline whose
// error discipline is decided: pkg/parse (parse.go, reader.go, utils.go),
// pkg/loader, pkg/pbutil (input side).
func pipelineFuncs(p *Program) []*ssa.Function {
	var out []*ssa.Function
	for _, f := range p.RepoFuncs() {
		pp := fnPkgPath(f)
		file := p.fnFile(f)
		base := file[strings.LastIndex(file, "/")+1:]
		switch {
		case pp == repoMod+"/pkg/parse" && (base == "parse.go" || base == "reader.go"):
		case pp == repoMod+"/pkg/loader":
		case pp == repoMod+"/pkg/pbutil" && base == "input.go":
		default:
			continue
		}
		out = append(out, f)
	}
	return out
}

// errorResultIndex returns the index of the error in the call's results, or -1.
func errorResultIndex(sig *types.Signature) int {
	rs := sig.Results()
	for i := rs.Len() - 1; i >= 0; i-- {
		if isErrorType(rs.At(i).Type()) {
			return i
		}
	}
	return -1
}

// errValueOf returns the SSA value holding the error result of call (the call
// itself for single-result calls, the Extract otherwise), or nil if discarded.
func errValueOf(call *ssa.Call, idx int) ssa.Value {
	if call.Call.Signature().Results().Len() == 1 {
		if len(*call.Referrers()) == 0 {
			return nil
		}
		return call
	}
	for _, r := range *call.Referrers() {
		if ex, ok := r.(*ssa.Extract); ok && ex.Index == idx {
			return ex
		}
	}
	return nil
}

type errUse struct {
	returned   bool
	nilTests   []*ssa.BinOp
	fieldStore []*ssa.Store
	passed     []ssa.CallInstruction
	other      int
}

// classifyErrUses follows an error value through phis, conversions, cells and
// wrapping calls.
func classifyErrUses(v ssa.Value) *errUse {
	u := &errUse{}
	seen := map[ssa.Value]bool{}
	var walk func(v ssa.Value, d int)
	walk = func(v ssa.Value, d int) {
		if v == nil || seen[v] || d > 12 || v.Referrers() == nil {
			return
		}
		seen[v] = true
		for _, r := range *v.Referrers() {
			switch x := r.(type) {
			case *ssa.DebugRef:
			case *ssa.Return:
				u.returned = true
			case *ssa.Panic:
				u.returned = true // raised; crash-freedom of panics is R-GUARD's subject
			case *ssa.BinOp:
				if (x.Op == token.NEQ || x.Op == token.EQL) && (isNilConst(x.X) || isNilConst(x.Y)) {
					u.nilTests = append(u.nilTests, x)
				} else {
					walk(x, d+1)
				}
			case *ssa.Phi:
				walk(x, d+1)
			case *ssa.MakeInterface:
				walk(x, d+1)
			case *ssa.ChangeInterface:
				walk(x, d+1)
			case *ssa.TypeAssert:
				walk(x, d+1)
			case *ssa.Extract:
				walk(x, d+1)
			case *ssa.Store:
				if x.Val != v {
					continue
				}
				if _, _, _, isField := fieldOfAddr(x.Addr); isField {
					u.fieldStore = append(u.fieldStore, x)
					continue
				}
				// local cell (named result or captured variable) or varargs slot
				switch a := x.Addr.(type) {
				case *ssa.Global:
					// a sentinel kept in a package variable: compared with, not lost
					u.returned = true
				case *ssa.Alloc:
					for _, r2 := range *a.Referrers() {
						if ld, ok := r2.(*ssa.UnOp); ok && ld.Op == token.MUL {
							walk(ld, d+1)
						}
						if mc, ok := r2.(*ssa.MakeClosure); ok {
							_ = mc
							u.other++
						}
					}
				case *ssa.IndexAddr:
					// element of a varargs array: follow the slice
					if arr, ok := a.X.(*ssa.Alloc); ok {
						for _, r2 := range *arr.Referrers() {
							if sl, ok := r2.(*ssa.Slice); ok {
								walk(sl, d+1)
							}
						}
					}
				case *ssa.FreeVar:
					// a variable of the enclosing function assigned from inside a
					// closure: follow its reads there
					followed := false
					fn := a.Parent()
					if par := fn.Parent(); par != nil {
						k := -1
						for i, fv := range fn.FreeVars {
							if fv == a {
								k = i
							}
						}
						eachInstr(par, func(_ *ssa.BasicBlock, j ssa.Instruction) {
							mc, ok := j.(*ssa.MakeClosure)
							if !ok || mc.Fn != ssa.Value(fn) || k < 0 || k >= len(mc.Bindings) {
								return
							}
							if cell, ok := mc.Bindings[k].(*ssa.Alloc); ok && cell.Referrers() != nil {
								for _, r2 := range *cell.Referrers() {
									if ld, ok := r2.(*ssa.UnOp); ok && ld.Op == token.MUL {
										followed = true
										walk(ld, d+1)
									}
								}
							}
						})
					}
					if !followed {
						u.other++
					}
				}
			case ssa.CallInstruction:
				u.passed = append(u.passed, x)
				if val := x.Value(); val != nil {
					walk(val, d+1)
				}
			case *ssa.Slice:
				walk(x, d+1)
			default:
				u.other++
			}
		}
	}
	walk(v, 0)
	return u
}

// failureRegionOK: from the non-nil successor of a nil test every path ends in
// a Return whose error operand is not the nil constant, without rejoining the
// success path.
func failureRegionOK(f *ssa.Function, bin *ssa.BinOp) (bool, string) {
	okAll := true
	why := ""
	n := 0
	for _, br := range branchesOn(bin) {
		n++
		fail, succ := br.TrueSucc, br.FalseSucc
		if bin.Op == token.EQL {
			fail, succ = succ, fail
		}
		// explore the failure region
		seen := map[*ssa.BasicBlock]bool{}
		q := []*ssa.BasicBlock{fail}
		seen[fail] = true
		for len(q) > 0 {
			b := q[0]
			q = q[1:]
			if b != fail && !fail.Dominates(b) {
				okAll = false
				why = fmt.Sprintf("the error branch falls through to the success path at line %d (the failure is swallowed)", f.Prog.Fset.Position(firstPos(b)).Line)
				break
			}
			last := b.Instrs[len(b.Instrs)-1]
			if ret, ok := last.(*ssa.Return); ok {
				vals, cell := returnValues(ret)
				ei := errorResultIndex(f.Signature)
				if ei < 0 {
					okAll = false
					why = "the enclosing function has no error result to report the failure"
					continue
				}
				if !cell[ei] && isNilConst(vals[ei]) {
					okAll = false
					why = fmt.Sprintf("the error branch returns a nil error at line %d", f.Prog.Fset.Position(ret.Pos()).Line)
				}
				continue
			}
			if _, isPanic := last.(*ssa.Panic); isPanic {
				continue
			}
			for _, s := range b.Succs {
				if !seen[s] {
					seen[s] = true
					q = append(q, s)
				}
			}
		}
		_ = succ
	}
	if n == 0 {
		return false, "nil comparison does not control a branch"
	}
	return okAll, why
}

func firstPos(b *ssa.BasicBlock) token.Pos {
	for _, i := range b.Instrs {
		if i.Pos().IsValid() {
			return i.Pos()
		}
	}
	return token.NoPos
}

func checkC06(c *Check) {
	p := c.P
	c.Explanation = "C06 (structural clauses): in the hand-written compile pipeline (pkg/parse parse.go/reader.go, pkg/loader, pkg/pbutil input side) the error result of every call is either returned (possibly wrapped), or compared with nil such that the non-nil branch cannot rejoin the success path and ends in a return with a non-nil error, or stored in a struct field that is checked the same way (R-FLOW; discarded errors are reported unless excepted by symbol); every function returning (*sysl.Module, …, error) returns a nil module whenever its error operand is not the nil constant, or delegates both to another such function; every error constructed or passed on in the per-file functions carries the file name; the pipeline uses no channel operation, select, WaitGroup or Cond (never a hang) and its mutex pairs on all paths (C05 rule). Which error wins when several files fail, and timing, are not decided."
	c.Assumptions = append(c.Assumptions,
		"a callee that receives the file name as an argument names it in the errors it returns (importer.GuessFileType, pbutil.FromPB*, reader.ReadHashBranch do — read once)",
		"errgroup.Wait returns the first non-nil error of its callbacks")
	fns := pipelineFuncs(p)
	c.Counts["pipeline_functions"] = len(fns)
	if len(fns) < 30 {
		c.Undecidedf("ANCHOR", "pipeline", "-", "only %d pipeline functions found", len(fns))
		return
	}
	// a failed conversion or read must end in an error, not in the runtime's
	// "concurrent map writes": what the per-file goroutines share is written under a lock
	c07Captures(c, fns)
	nCalls := errFlow(c, "ERR-FLOW", fns, false)
	c.Counts["error_returning_calls"] = nCalls
	c06NoModelOnError(c, fns)
	c06NamesFile(c)
	c06NoHang(c, fns)
	// a failed conversion or read must not be remembered as a success: the pipeline
	// and everything a foreign import runs through (importers)
	memoScope := map[*ssa.Function]bool{}
	for _, f := range fns {
		memoScope[f] = true
	}
	for _, f := range p.RepoFuncs() {
		if fnPkgPath(f) == repoMod+"/pkg/importer" && !strings.HasSuffix(p.fnFile(f), "_test.go") {
			memoScope[f] = true
		}
	}
	nM := memoOnFailure(c, "MEMO-ON-FAILURE", memoScope)
	c.Counts["memo_entries_filed"] = nM
	c.Okf("MEMO-ON-FAILURE", "scan", "-", "%d pipeline and importer functions scanned for look-up-or-compute tables filled by functions that can fail: %d entries filed, each evaluated", len(memoScope), nM)
}

func shortObj(o *types.Func) string {
	s := objFull(o)
	s = strings.ReplaceAll(s, repoMod+"/", "")
	return s
}

// fieldErrChecked: the struct field the error is stored into is loaded in the
// same top-level function (or its closures) and nil-tested with a failing branch.
func fieldErrChecked(p *Program, f *ssa.Function, st *ssa.Store) (bool, string) {
	own, fld, _, _ := fieldOfAddr(st.Addr)
	root := f
	for root.Parent() != nil {
		root = root.Parent()
	}
	found := false
	why := fmt.Sprintf("no load of field %s that is compared with nil and fails the compile was found in %s", fld, fnName(root))
	scope := withClosures(root)
	if own != nil {
		// a named struct type: the element can be handed to another function of the
		// package (e.g. the slice of per-file results returned to the caller)
		for _, g := range p.RepoFuncs() {
			if fnPkgPath(g) == fnPkgPath(root) && g != root && g.Parent() == nil {
				scope = append(scope, withClosures(g)...)
			}
		}
	}
	for _, g := range scope {
		eachInstr(g, func(_ *ssa.BasicBlock, i ssa.Instruction) {
			ld, ok := i.(*ssa.UnOp)
			if !ok || ld.Op != token.MUL {
				return
			}
			o2, f2, _, ok := fieldOfAddr(ld.X)
			if !ok || f2 != fld || !sameStructType(own, o2, st.Addr, ld.X) {
				return
			}
			u := classifyErrUses(ld)
			for _, t := range u.nilTests {
				if ok, w := failureRegionOK(g, t); ok {
					found = true
				} else {
					why = w
				}
			}
		})
	}
	return found, why
}

func sameStructType(a, b *types.Named, x, y ssa.Value) bool {
	if a != nil || b != nil {
		return a == b
	}
	// anonymous / local struct types: compare the pointer element types
	fx, ok1 := x.(*ssa.FieldAddr)
	fy, ok2 := y.(*ssa.FieldAddr)
	return ok1 && ok2 && types.Identical(fx.X.Type(), fy.X.Type())
}

func moduleResultIndex(sig *types.Signature) int {
	rs := sig.Results()
	for i := 0; i < rs.Len(); i++ {
		if typeIs(rs.At(i).Type(), repoMod+"/pkg/sysl", "Module") {
			return i
		}
	}
	return -1
}

func c06NoModelOnError(c *Check, fns []*ssa.Function) {
	p := c.P
	n := 0
	for _, f := range fns {
		mi, ei := moduleResultIndex(f.Signature), errorResultIndex(f.Signature)
		if mi < 0 || ei < 0 {
			continue
		}
		if fnPkgPath(f) == repoMod+"/pkg/pbutil" {
			// decoders, not compile entry points: their consumers on the pipeline
			// test the error before touching the module (ERR-FLOW decides that)
			continue
		}
		for _, b := range f.Blocks {
			ret, ok := b.Instrs[len(b.Instrs)-1].(*ssa.Return)
			if !ok {
				continue
			}
			n++
			vals, cell := returnValues(ret)
			key := fmt.Sprintf("%s|return", fnName(f))
			switch {
			case cell[ei] || cell[mi]:
				c.Okf("NO-MODEL-ON-ERROR", key, p.pos(ret.Pos()), "recover-path return (results come from cells set by the deferred function)")
			case isNilConst(vals[ei]):
				c.Okf("NO-MODEL-ON-ERROR", key, p.pos(ret.Pos()), "success return (nil error)")
			case isNilConst(vals[mi]):
				c.Okf("NO-MODEL-ON-ERROR", key, p.pos(ret.Pos()), "failure return carries a nil module")
			default:
				// delegation: both operands extracted from one call to a function of the same class
				em, ok1 := vals[mi].(*ssa.Extract)
				ee, ok2 := vals[ei].(*ssa.Extract)
				if ok1 && ok2 && em.Tuple == ee.Tuple {
					if call, ok := em.Tuple.(*ssa.Call); ok {
						if sc := staticCallee(call); sc != nil && isRepoFn(sc) && moduleResultIndex(sc.Signature) >= 0 {
							c.Okf("NO-MODEL-ON-ERROR", key, p.pos(ret.Pos()), "delegates (module, error) to %s, which is checked by the same rule", fnName(sc))
							continue
						}
						if o := calleeObj(call); o != nil && o.Pkg() != nil && isRepoPkg(o.Pkg()) {
							c.Okf("NO-MODEL-ON-ERROR", key, p.pos(ret.Pos()), "delegates (module, error) to %s", shortObj(o))
							continue
						}
					}
				}
				c.Flagf("NO-MODEL-ON-ERROR", key, p.pos(ret.Pos()), "a return whose error operand may be non-nil also carries a module value: a failed compile can yield a (partial) model")
			}
		}
	}
	c.Counts["module_error_returns"] = n
	if n < 10 {
		c.Undecidedf("NO-MODEL-ON-ERROR", "returns", "-", "only %d returns of (module, error) functions found", n)
	}
}

// c06NamesFile: per-file functions of parse.go (those with a parameter or
// local of type importDef / a string parameter named like a file name) must
// build their errors from a value that depends on that file name.
func c06NamesFile(c *Check) {
	p := c.P
	pk := p.Pkg(parsePkg)
	isFileNameValue := func(v ssa.Value) bool {
		if _, fld, _, ok := loadedField(v); ok && fileNameFields(p)[strings.ToLower(fld)] {
			return true
		}
		if prm, ok := v.(*ssa.Parameter); ok {
			n := strings.ToLower(prm.Name())
			return isStringType(prm.Type()) && (n == "filename" || n == "resource" || n == "path")
		}
		if a, ok := v.(*ssa.Alloc); ok {
			return strings.EqualFold(a.Comment, "filename")
		}
		return false
	}
	dependsOnFile := func(v ssa.Value) bool {
		return derives(v, isFileNameValue, &deriveOpts{throughBinOp: true, argsOnly: true, throughCalls: func(*ssa.Call) bool { return true }})
	}
	perFile := map[*ssa.Function]bool{}
	for _, f := range p.RepoFuncs() {
		if fnPkgPath(f) != pk.PkgPath || strings.HasSuffix(p.fnFile(f), "_test.go") || isListenerCode(p, f) {
			continue
		}
		if errorResultIndex(f.Signature) < 0 {
			continue
		}
		has := false
		eachInstr(f, func(_ *ssa.BasicBlock, i ssa.Instruction) {
			if v, ok := i.(ssa.Value); ok && isFileNameValue(v) {
				has = true
			}
		})
		for _, prm := range f.Params {
			if isFileNameValue(prm) {
				has = true
			}
		}
		if has {
			perFile[f] = true
		}
	}
	n := 0
	// allNamed: every non-nil error return of a (non per-file) callee of this
	// package names the file by the same criteria (e.g. it returns the joined
	// errors of per-file call-backs)
	var valueNames func(ev ssa.Value, depth int) bool
	allNamedMemo := map[*ssa.Function]int{}
	allNamed := func(g *ssa.Function, depth int) bool {
		if r, ok := allNamedMemo[g]; ok {
			return r == 1
		}
		allNamedMemo[g] = 0
		ei := errorResultIndex(g.Signature)
		if ei < 0 || len(g.Blocks) == 0 || depth > 3 {
			return false
		}
		ok := true
		some := false
		for _, b := range g.Blocks {
			ret, isRet := b.Instrs[len(b.Instrs)-1].(*ssa.Return)
			if !isRet {
				continue
			}
			vals, cell := returnValues(ret)
			if cell[ei] {
				ok = false
				continue
			}
			if isNilConst(vals[ei]) {
				continue
			}
			some = true
			if !valueNames(vals[ei], depth+1) {
				ok = false
			}
		}
		if ok && some {
			allNamedMemo[g] = 1
		}
		return ok && some
	}
	valueNames = func(ev ssa.Value, depth int) bool {
		named := false
		// (a) constructed from the file name; (b) returned by a callee that was given the file name or is itself per-file
		var visit func(v ssa.Value, d int)
		seen := map[ssa.Value]bool{}
		visit = func(v ssa.Value, d int) {
			if v == nil || seen[v] || d > 10 {
				return
			}
			seen[v] = true
			switch x := v.(type) {
			case *ssa.Phi:
				// every edge must name the file
				all := true
				for _, e := range x.Edges {
					if isNilConst(e) {
						continue
					}
					sub := false
					old := named
					named = false
					visit(e, d+1)
					sub = named
					named = old
					if !sub {
						all = false
					}
				}
				if all {
					named = true
				}
			case *ssa.MakeInterface:
				visit(x.X, d+1)
			case *ssa.ChangeInterface:
				visit(x.X, d+1)
			case *ssa.Extract:
				visit(x.Tuple, d+1)
			case *ssa.UnOp:
				if x.Op == token.MUL {
					// load of a field (out.err) or cell
					if derives(x, func(v ssa.Value) bool { return false }, nil) {
						return
					}
					if _, fld, _, ok := fieldOfAddr(x.X); ok && fld == "err" {
						// the stored error comes from a per-file callee (checked at its store)
						named = true
					}
				}
			case *ssa.Call:
				if sc := staticCallee(x); sc != nil && perFile[sc] {
					named = true
					return
				}
				if sc := staticCallee(x); sc != nil && fnPkgPath(sc) == pk.PkgPath && allNamed(sc, depth) {
					named = true
					return
				}
				for _, a := range x.Call.Args {
					if dependsOnFile(a) {
						named = true
						return
					}
				}
				if x.Call.IsInvoke() {
					// g.Wait(): errors of the per-file callbacks
					if o := x.Call.Method; o != nil && o.Name() == "Wait" {
						named = true
					}
				}
				if o := calleeObj(x); o != nil && objIs(o, "golang.org/x/sync/errgroup", "Group.Wait") {
					named = true
				}
			}
		}
		visit(ev, 0)
		return named
	}
	for f := range perFile {
		ei := errorResultIndex(f.Signature)
		for _, b := range f.Blocks {
			ret, ok := b.Instrs[len(b.Instrs)-1].(*ssa.Return)
			if !ok {
				continue
			}
			vals, cell := returnValues(ret)
			if cell[ei] || isNilConst(vals[ei]) {
				continue
			}
			n++
			ev := vals[ei]
			key := fmt.Sprintf("%s|error from %s", fnName(f), errSource(ev))
			why := "the returned error is built without the file name and does not come from a per-file callee"
			named := valueNames(ev, 0)
			if !named && callersNameFile(p, f, ei, dependsOnFile) {
				named = true // a helper: every caller wraps its error with the file name
			}
			c.Cond(named, "NAMES-THE-FILE", key, p.pos(ret.Pos()), "the returned error is constructed from, or returned by a callee that was given, the file name", why)
		}
	}
	c.Counts["per_file_functions"] = len(perFile)
	c.Counts["per_file_error_returns"] = n
	if n < 8 {
		c.Undecidedf("NAMES-THE-FILE", "returns", "-", "only %d per-file error returns found", n)
	}
}

func c06NoHang(c *Check, fns []*ssa.Function) {
	p := c.P
	n := 0
	for _, f := range fns {
		eachInstr(f, func(_ *ssa.BasicBlock, i ssa.Instruction) {
			bad := ""
			switch x := i.(type) {
			case *ssa.Select:
				if x.Blocking {
					bad = "blocking select"
				}
			case *ssa.Send:
				// a token put into a semaphore channel held in a struct field is
				// decided by the pairing / nesting rules below
				if !isSemaphoreChan(x.Chan) {
					bad = "channel send"
				}
			case *ssa.UnOp:
				if x.Op == token.ARROW {
					if !isSemaphoreChan(x.X) {
						bad = "channel receive"
					}
				}
			case ssa.CallInstruction:
				if o := calleeObj(x); o != nil && o.Pkg() != nil && o.Pkg().Path() == "sync" {
					if n := objLocalName(o); n == "WaitGroup.Wait" || n == "Cond.Wait" {
						bad = "sync." + n
					}
				}
			}
			if bad != "" {
				n++
				c.Flagf("NO-HANG", fnName(f)+"|"+bad, p.pos(i.Pos()), "%s on the compile pipeline: a failed retrieval that never signals would block the compile for ever (the pipeline joins goroutines only through errgroup.Wait)", bad)
			}
		})
	}
	// a file with syntax errors fails: the parser guard structure (recover
	// barrier, error listener that records every report, tree returned only
	// without errors) is the same clause as under C01
	c01GuardStructure(c)
	c06StrictDecode(c)
	set := map[*ssa.Function]bool{}
	for _, f := range fns {
		set[f] = true
		for _, a := range withClosures(f) {
			set[a] = true
		}
	}
	c.Counts["blocking_resources_on_pipeline"] = blockingResources(c, "RESOURCE-PAIR", "HELD-ACROSS-NESTING", set)
	c.Okf("NO-HANG", "scan", "-", "%d pipeline functions scanned for channel operations, blocking select, WaitGroup/Cond waits: %d found", len(fns), n)
}

// errSource names where a returned error value comes from (for stable keys).
func errSource(v ssa.Value) string {
	for d := 0; d < 8; d++ {
		switch x := v.(type) {
		case *ssa.MakeInterface:
			v = x.X
			continue
		case *ssa.ChangeInterface:
			v = x.X
			continue
		case *ssa.Extract:
			v = x.Tuple
			continue
		case *ssa.Call:
			if o := calleeObj(x); o != nil {
				return shortObj(o)
			}
			if sc := staticCallee(x); sc != nil {
				return fnName(sc)
			}
			return "dynamic call"
		case *ssa.Phi:
			return "several sources"
		case *ssa.UnOp:
			if _, fld, _, ok := fieldOfAddr(x.X); ok {
				return "field " + fld
			}
		}
		break
	}
	return v.Name()
}

// c06StrictDecode: a compiled-model file in JSON or text form that is really
// some other document has to be refused. The protobuf JSON/text decoders refuse
// unknown fields unless told otherwise, so no decode option used on the input
// side may switch DiscardUnknown on (with it, a well-formed foreign document
// decodes to an empty module and the compile succeeds silently).
func c06StrictDecode(c *Check) {
	p := c.P
	pkg := p.SSAPkgs[repoMod+"/pkg/pbutil"]
	if pkg == nil {
		c.Undecidedf("STRICT-DECODE", "pkg/pbutil", "-", "package not found: unresolved anchor")
		return
	}
	isDecodePkg := func(path string) bool {
		return path == "google.golang.org/protobuf/encoding/protojson" || path == "google.golang.org/protobuf/encoding/prototext"
	}
	var fns []*ssa.Function
	for _, m := range pkg.Members {
		if f, ok := m.(*ssa.Function); ok {
			fns = append(fns, withClosures(f)...)
		}
	}
	nDec := 0
	var lax []ssa.Instruction
	for _, f := range fns {
		if strings.HasSuffix(p.fnFile(f), "_test.go") {
			continue
		}
		eachInstr(f, func(_ *ssa.BasicBlock, i ssa.Instruction) {
			for _, fv := range funcValueOperands(i) {
				if o, ok := fv.Object().(*types.Func); ok && o.Pkg() != nil && isDecodePkg(o.Pkg().Path()) && o.Name() == "Unmarshal" {
					nDec++ // the package-level decoder (default options) used as a function value
				}
			}
			switch x := i.(type) {
			case ssa.CallInstruction:
				if o := calleeObj(x); o != nil && o.Pkg() != nil && isDecodePkg(o.Pkg().Path()) && o.Name() == "Unmarshal" {
					nDec++
				}
			case *ssa.Store:
				own, fld, _, ok := fieldOfAddr(x.Addr)
				if !ok || own == nil || own.Obj().Pkg() == nil || !isDecodePkg(own.Obj().Pkg().Path()) || own.Obj().Name() != "UnmarshalOptions" || fld != "DiscardUnknown" {
					return
				}
				if cv, ok := x.Val.(*ssa.Const); ok && cv.Value != nil && cv.Value.String() == "false" {
					return
				}
				lax = append(lax, i)
			}
		})
	}
	c.Counts["json_text_decode_calls"] = nDec
	if nDec < 2 {
		c.Undecidedf("STRICT-DECODE", "decoders", "-", "only %d JSON/text decode calls found in pkg/pbutil: unresolved anchor", nDec)
		return
	}
	if len(lax) == 0 {
		c.Okf("STRICT-DECODE", "pkg/pbutil|unknown fields refused", p.pos(fns[0].Pos()), "%d JSON/text decode calls; no decode option in the package switches DiscardUnknown on", nDec)
		return
	}
	for _, i := range lax {
		c.Flagf("STRICT-DECODE", "pkg/pbutil|unknown fields refused", p.pos(i.Pos()), "a decode option with DiscardUnknown switched on is built here: a well-formed JSON/text document of another schema (a Swagger file named x.pb.json) decodes to an empty module and the compile succeeds without naming the file")
	}
}

// callersNameFile: f is only called from repository functions, and at every
// call site the error it returns is used solely in nil tests and as an argument
// of calls that also receive the file name (the caller builds the message).
func callersNameFile(p *Program, f *ssa.Function, ei int, dependsOnFile func(ssa.Value) bool) bool {
	sites := 0
	ok := true
	for _, g := range p.RepoFuncs() {
		eachCall(g, func(cl ssa.CallInstruction) {
			call, isCall := cl.(*ssa.Call)
			if !isCall || staticCallee(cl) != f {
				return
			}
			sites++
			ev := errValueOf(call, ei)
			if ev == nil || ev.Referrers() == nil {
				ok = false
				return
			}
			wrapped := false
			var scan func(v ssa.Value, d int)
			seen := map[ssa.Value]bool{}
			scan = func(v ssa.Value, d int) {
				if d > 8 || seen[v] || v.Referrers() == nil {
					return
				}
				seen[v] = true
				for _, r := range *v.Referrers() {
					switch y := r.(type) {
					case *ssa.BinOp:
						// nil test
					case *ssa.Return:
						ok = false // handed on as it is
					case *ssa.MakeInterface:
						scan(y, d+1)
					case *ssa.ChangeInterface:
						scan(y, d+1)
					case *ssa.Phi:
						scan(y, d+1)
					case *ssa.Store:
						if al, isAl := y.Addr.(*ssa.Alloc); isAl && al.Referrers() != nil {
							for _, r2 := range *al.Referrers() {
								if ld, isLd := r2.(*ssa.UnOp); isLd {
									scan(ld, d+1)
								}
							}
						} else if _, isIdx := y.Addr.(*ssa.IndexAddr); isIdx {
							// packed into the variadic arguments of a formatting call
							if ia := y.Addr.(*ssa.IndexAddr); ia.X != nil {
								scan(ia.X, d+1)
							}
						} else {
							ok = false
						}
					case *ssa.Slice:
						scan(y, d+1)
					case ssa.CallInstruction:
						named := false
						for _, a := range y.Common().Args {
							if a != v && dependsOnFile(a) {
								named = true
							}
						}
						// Sprintf("%s …: %s", fileName, err): the file name sits in the same variadic pack
						if !named {
							for _, a := range y.Common().Args {
								if sl, isSl := a.(*ssa.Slice); isSl {
									if al, isAl := sl.X.(*ssa.Alloc); isAl && al.Referrers() != nil {
										for _, r2 := range *al.Referrers() {
											if ia, isIA := r2.(*ssa.IndexAddr); isIA && ia.Referrers() != nil {
												for _, r3 := range *ia.Referrers() {
													if st, isSt := r3.(*ssa.Store); isSt && dependsOnFile(st.Val) {
														named = true
													}
												}
											}
										}
									}
								}
							}
						}
						if named {
							wrapped = true
						} else {
							ok = false
						}
					}
				}
			}
			scan(ev, 0)
			if !wrapped {
				ok = false
			}
		})
	}
	return ok && sites > 0
}

// isSemaphoreChan: a channel kept in a struct field or in a package variable of
// the repository — used as a counting semaphore and decided by the pairing and
// nesting rules (RESOURCE-PAIR, HELD-ACROSS-NESTING).
func isSemaphoreChan(v ssa.Value) bool {
	v = unspill(v)
	if _, _, _, isField := loadedField(v); isField {
		return true
	}
	if g, ok := loadsGlobal(v); ok && g.Pkg != nil && isRepoPkg(g.Pkg.Pkg) {
		return true
	}
	return false
}

// errFlow (R-FLOW): the error result of every call made by fns is returned,
// tested with a failing branch, or kept in a checked field. With repoOnly, only
// calls of repository functions are obligations (the walk of a generator: an
// error of a nested visit that is logged and skipped leaves partial output
// behind a success).
func errFlow(c *Check, rule string, fns []*ssa.Function, repoOnly bool) int {
	p := c.P
	nCalls := 0
	for _, f := range fns {
		eachInstr(f, func(_ *ssa.BasicBlock, i ssa.Instruction) {
			// go / defer with error results are discarded by construction
			var call *ssa.Call
			switch x := i.(type) {
			case *ssa.Call:
				call = x
			default:
				return
			}
			sig := call.Call.Signature()
			ei := errorResultIndex(sig)
			if ei < 0 {
				return
			}
			if _, isB := call.Call.Value.(*ssa.Builtin); isB {
				return
			}
			if o := calleeObj(call); o != nil {
				if rt := recvType(o); rt != nil && (typeIs(rt, "bytes", "Buffer") || typeIs(rt, "strings", "Builder")) {
					return // documented to always return a nil error
				}
			}
			if repoOnly {
				if sc := staticCallee(call); sc == nil || !isRepoFn(sc) {
					return
				}
			}
			nCalls++
			callee := "dynamic"
			if o := calleeObj(call); o != nil {
				callee = shortObj(o)
			} else if sc := staticCallee(call); sc != nil {
				callee = fnName(sc)
			}
			key := fmt.Sprintf("%s|%s", fnName(f), callee)
			ev := errValueOf(call, ei)
			if ev == nil {
				// `_ = f.Close()` on a handle that was opened for reading: nothing
				// can be lost by a failed close, and the discard is spelled out
				if o := calleeObj(call); o != nil && o.Name() == "Close" && explicitBlank(f, call) {
					recv := call.Call.Value
					if !call.Call.IsInvoke() && len(call.Call.Args) > 0 {
						recv = call.Call.Args[0]
					}
					readOnly := derives(recv, func(v ssa.Value) bool {
						oc, ok := v.(*ssa.Call)
						if !ok {
							return false
						}
						oo := calleeObj(oc)
						return oo != nil && oo.Name() == "Open"
					}, nil)
					if readOnly {
						c.Okf(rule, key, p.pos(call.Pos()), "the close error of a handle opened for reading is discarded explicitly")
						return
					}
				}
				c.Flagf(rule, key, p.pos(call.Pos()), "the error returned by %s is discarded", callee)
				return
			}
			u := classifyErrUses(ev)
			switch {
			case len(u.nilTests) > 0:
				bad := ""
				for _, t := range u.nilTests {
					if ok, why := failureRegionOK(t.Parent(), t); !ok {
						bad = why
					}
				}
				if bad != "" {
					c.Flagf(rule, key, p.pos(call.Pos()), "error of %s is tested but %s", callee, bad)
				} else {
					c.Okf(rule, key, p.pos(call.Pos()), "error is nil-tested; the failure branch ends in a non-nil error return without rejoining the success path")
				}
			case u.returned:
				c.Okf(rule, key, p.pos(call.Pos()), "error flows to a return operand")
			case len(u.fieldStore) > 0:
				ok, why := fieldErrChecked(p, f, u.fieldStore[0])
				c.Cond(ok, rule, key, p.pos(call.Pos()), "error is stored in a struct field whose later load is nil-tested with a failing branch", why)
			default:
				c.Flagf(rule, key, p.pos(call.Pos()), "the error returned by %s is neither returned nor tested against nil (uses: %d calls, %d other)", callee, len(u.passed), u.other)
			}
		})
	}
	return nCalls
}
