package main

import (
	"fmt"
	"go/constant"
	"go/types"
	"regexp/syntax"
	"sort"
	"strings"

	"golang.org/x/tools/go/ssa"
)

func init() { register("C09", LoadTyped, checkC09) }

const pbutilPkg = repoMod + "/pkg/pbutil"

// globalRegexp returns the constant pattern a package-level *regexp.Regexp is
// initialised with.
func globalRegexpPattern(p *Program, g *ssa.Global) (string, bool) {
	pat, ok := "", false
	if g.Pkg == nil {
		return "", false
	}
	for _, m := range g.Pkg.Members {
		f, isF := m.(*ssa.Function)
		if !isF || !strings.HasPrefix(f.Name(), "init") {
			continue
		}
		eachInstr(f, func(_ *ssa.BasicBlock, i ssa.Instruction) {
			st, isSt := i.(*ssa.Store)
			if !isSt || st.Addr != ssa.Value(g) {
				return
			}
			if call, isC := st.Val.(*ssa.Call); isC && callIs(call, "regexp", "MustCompile") {
				if s, isS := constString(call.Call.Args[0]); isS {
					pat, ok = s, true
				}
			}
		})
	}
	return pat, ok
}

func checkC09(c *Check) {
	p := c.P
	c.Explanation = "C09 (structural clauses): the regular expression applied to the JSON encoder's bytes is anchored at the beginning of a line (multi-line mode), captures only optional whitespace and one quoted key followed by `: `, removes exactly one following space and is replaced by `$1` — so it cannot touch text inside a string value; each output mode's marshal package is the unmarshal package the reader selects for that mode's suffix, and no reader suffix shadows another; no importer format other than the compiled-model format has a file extension that ends in a suffix the compiled-model reader accepts (an OpenAPI x.json is not decoded as a model); a compiled model named in an import still flows through post-processing before the module is returned. Equality after decode and idempotence of post-processing are not decided."
	c.Assumptions = append(c.Assumptions,
		"protojson never emits a raw newline inside a string value (JSON escapes it), so a line start is never inside a string",
		"protojson/prototext/proto Unmarshal invert their own Marshal (library contract)")
	sp := p.SSAPkgs[pbutilPkg]
	if sp == nil {
		c.Undecidedf("ANCHOR", "pkg/pbutil", "-", "package not found")
		return
	}
	c09Regex(c, sp)
	sourceTextIntact(c, "CONTENT-INTACT")
	c09Truncate(c)
	c09DecodeLimits(c)
	suffixes := c09Pairing(c, sp)
	c09Disjoint(c, suffixes)
	c09PostProcess(c)
	// decoding the same bytes twice gives equal, independent models only if the
	// codec package keeps nothing between two calls: no package-level variable of
	// pkg/pbutil is written after initialisation (a decode cache that hands out
	// the remembered module lets one caller's edits show in another's model)
	var codecFns []*ssa.Function
	for _, f := range p.RepoFuncs() {
		if fnPkgPath(f) == pbutilPkg && f.Parent() == nil && !strings.HasSuffix(p.fnFile(f), "_test.go") {
			codecFns = append(codecFns, f)
		}
	}
	c07Globals(c, codecFns)
	c.Okf("SHARED-GLOBAL", "scan", "-", "%d functions of the codec package scanned for writes to package-level variables", len(codecFns))
}

func c09Regex(c *Check, sp *ssa.Package) {
	p := c.P
	n := 0
	for _, f := range p.RepoFuncs() {
		if fnPkgPath(f) != pbutilPkg {
			continue
		}
		usesJSON := false
		eachCall(f, func(cl ssa.CallInstruction) {
			if o := calleeObj(cl); o != nil && o.Pkg() != nil && strings.HasSuffix(o.Pkg().Path(), "encoding/protojson") && o.Name() == "Marshal" {
				usesJSON = true
			}
		})
		if !usesJSON {
			continue
		}
		eachCall(f, func(cl ssa.CallInstruction) {
			o := calleeObj(cl)
			if o == nil || o.Pkg() == nil || o.Pkg().Path() != "regexp" || !strings.HasPrefix(o.Name(), "Replace") {
				return
			}
			n++
			key := fnName(f) + "|JSON clean-up"
			g, isG := loadsGlobal(cl.Common().Args[0])
			if !isG {
				c.Undecidedf("JSON-CLEANUP-REGEX", key, p.pos(cl.Pos()), "the clean-up regexp is not a package-level constant pattern")
				return
			}
			pat, ok := globalRegexpPattern(p, g)
			if !ok {
				c.Undecidedf("JSON-CLEANUP-REGEX", key, p.pos(cl.Pos()), "cannot fold the pattern of %s", g.Name())
				return
			}
			problems := regexShapeProblems(pat)
			// applied to one scanned line at a time, ^ without (?m) is a line start too
			if len(cl.Common().Args) >= 2 {
				perLine := derives(cl.Common().Args[1], func(v ssa.Value) bool {
					call, ok := v.(*ssa.Call)
					if !ok {
						return false
					}
					o := calleeObj(call)
					return o != nil && o.Pkg() != nil && o.Pkg().Path() == "bufio" && (o.Name() == "Bytes" || o.Name() == "Text")
				}, nil)
				if perLine {
					var kept []string
					for _, pr := range problems {
						if !strings.Contains(pr, "not anchored") || !strings.HasPrefix(pat, "^") {
							kept = append(kept, pr)
						}
					}
					problems = kept
				}
			}
			// replacement must be the constant "$1"
			repl := ""
			if len(cl.Common().Args) >= 3 {
				derives(cl.Common().Args[2], func(v ssa.Value) bool {
					if cv, ok := v.(*ssa.Const); ok && cv.Value != nil && cv.Value.Kind() == constant.String {
						repl = constant.StringVal(cv.Value)
						return true
					}
					return false
				}, nil)
			}
			if repl != "$1" {
				problems = append(problems, fmt.Sprintf("replacement is %q, expected \"$1\"", repl))
			}
			if len(problems) == 0 {
				c.Okf("JSON-CLEANUP-REGEX", key, p.pos(cl.Pos()), "pattern %q is line-anchored, matches one key prefix and removes one space", pat)
			} else {
				c.Flagf("JSON-CLEANUP-REGEX", key, p.pos(cl.Pos()), "pattern %q can alter text inside string values: %s", pat, strings.Join(problems, "; "))
			}
		})
	}
	if n == 0 {
		c.Okf("JSON-CLEANUP-REGEX", "none", "-", "the JSON writer applies no regular-expression clean-up to the encoder's bytes")
	}
	// whatever is written must be the encoder's bytes, touched by nothing but
	// the verified clean-up: any other transformation between Marshal and Write
	// (a byte-level replace, a trim) can alter text inside string values
	nw := 0
	for _, f := range p.RepoFuncs() {
		if fnPkgPath(f) != pbutilPkg || strings.HasSuffix(p.fnFile(f), "_test.go") {
			continue
		}
		isMarshal := func(v ssa.Value) bool {
			cl, ok := v.(*ssa.Call)
			if !ok {
				return false
			}
			o := calleeObj(cl)
			return o != nil && o.Pkg() != nil && strings.HasPrefix(o.Pkg().Path(), "google.golang.org/protobuf/") && o.Name() == "Marshal"
		}
		hasMarshal := false
		eachInstr(f, func(_ *ssa.BasicBlock, i ssa.Instruction) {
			if v, ok := i.(ssa.Value); ok && isMarshal(v) {
				hasMarshal = true
			}
		})
		if !hasMarshal {
			continue
		}
		eachCall(f, func(cl ssa.CallInstruction) {
			cc := cl.Common()
			name := ""
			if cc.IsInvoke() {
				name = cc.Method.Name()
			} else if o := calleeObj(cl); o != nil {
				name = o.Name()
			}
			if name != "Write" && name != "WriteFile" && name != "WriteString" {
				return
			}
			for _, a := range cc.Args {
				if _, isBytes := a.Type().Underlying().(*types.Slice); !isBytes {
					continue
				}
				off, reached := flowOffender(a, isMarshal, func(x *ssa.Call) bool {
					o := calleeObj(x)
					return o != nil && o.Pkg() != nil && o.Pkg().Path() == "regexp" && strings.HasPrefix(o.Name(), "Replace") // shape verified above
				})
				if !reached {
					if _, isK := a.(*ssa.Const); isK {
						continue
					}
					// in a function that encodes and writes, bytes written that are not
					// the encoder's result came through something else (a scanner, a
					// second buffer): its framing and limits decide what is written
					nw++
					c.Flagf("ENCODED-BYTES-INTACT", fnName(f)+"|encoder bytes written unaltered", p.pos(cl.Pos()), "the bytes written here are not the encoder's result: they pass through an intermediate reader, scanner or buffer (token limits, line framing) between Marshal and Write, so what is written can differ from what was encoded")
					continue
				}
				nw++
				key := fnName(f) + "|encoder bytes written unaltered"
				if off != nil {
					callee := "a call"
					if o := calleeObj(off); o != nil {
						callee = shortObj(o)
					}
					c.Flagf("ENCODED-BYTES-INTACT", key, p.pos(off.Pos()), "%s rewrites the encoder's bytes before they are written: a transformation that is not anchored to the structure of the encoding can change text inside string values, so the decoded model differs from the encoded one", callee)
				} else {
					c.Okf("ENCODED-BYTES-INTACT", key, p.pos(cl.Pos()), "the bytes written are the encoder's result, passed only through the verified clean-up")
				}
			}
		})
	}
	c.Counts["encoder_writes"] = nw
	if nw == 0 {
		c.Undecidedf("ENCODED-BYTES-INTACT", "writers", "-", "no write of marshalled bytes found in pkg/pbutil: unresolved anchor")
	}
}

// regexShapeProblems checks (?m)^(\s*"[^"]*": ) <one space>.
func regexShapeProblems(pat string) []string {
	var out []string
	re, err := syntax.Parse(pat, syntax.Perl)
	if err != nil {
		return []string{"pattern does not parse: " + err.Error()}
	}
	re = re.Simplify()
	subs := []*syntax.Regexp{re}
	if re.Op == syntax.OpConcat {
		subs = re.Sub
	}
	if len(subs) == 0 || subs[0].Op != syntax.OpBeginLine {
		out = append(out, "it is not anchored at the beginning of a line with (?m)^")
	}
	var capt *syntax.Regexp
	var after []*syntax.Regexp
	for i, s := range subs {
		if s.Op == syntax.OpCapture {
			if capt != nil {
				out = append(out, "more than one capture group")
			}
			capt = s
			after = subs[i+1:]
		}
	}
	if capt == nil {
		return append(out, "no capture group to keep the key")
	}
	// what follows the capture: exactly one literal space
	tail := ""
	for _, a := range after {
		if a.Op != syntax.OpLiteral {
			out = append(out, "non-literal text after the captured key is removed")
			continue
		}
		tail += string(a.Rune)
	}
	if tail != " " {
		out = append(out, fmt.Sprintf("removes %q after the key instead of exactly one space", tail))
	}
	// inside: \s* " [^"]* ": _
	in := capt.Sub[0]
	parts := []*syntax.Regexp{in}
	if in.Op == syntax.OpConcat {
		parts = in.Sub
	}
	i := 0
	if i < len(parts) && parts[i].Op == syntax.OpStar && parts[i].Sub[0].Op == syntax.OpCharClass {
		i++ // optional leading whitespace
	}
	lit := func(r *syntax.Regexp) string {
		if r.Op == syntax.OpLiteral {
			return string(r.Rune)
		}
		return "\x00"
	}
	if !(i < len(parts) && lit(parts[i]) == `"`) {
		out = append(out, "the captured part does not start with the opening quote of a key")
		return out
	}
	i++
	if !(i < len(parts) && parts[i].Op == syntax.OpStar && parts[i].Sub[0].Op == syntax.OpCharClass && !classContains(parts[i].Sub[0], '"')) {
		out = append(out, "the key body is not `[^\"]*` (it can run across a closing quote)")
		return out
	}
	i++
	rest := ""
	for ; i < len(parts); i++ {
		rest += lit(parts[i])
	}
	if rest != `": ` {
		out = append(out, fmt.Sprintf("after the key body the pattern expects %q, not `\": `", rest))
	}
	return out
}

func classContains(r *syntax.Regexp, ch rune) bool {
	for i := 0; i+1 < len(r.Rune); i += 2 {
		if r.Rune[i] <= ch && ch <= r.Rune[i+1] {
			return true
		}
	}
	return false
}

// c09Pairing: writer marshal packages and reader suffix dispatch.
func c09Pairing(c *Check, sp *ssa.Package) []string {
	p := c.P
	codecOf := func(o *types.Func) string {
		if o == nil || o.Pkg() == nil {
			return ""
		}
		switch {
		case strings.HasSuffix(o.Pkg().Path(), "encoding/protojson"):
			return "protojson"
		case strings.HasSuffix(o.Pkg().Path(), "encoding/prototext"):
			return "prototext"
		case strings.HasSuffix(o.Pkg().Path(), "protobuf/proto"):
			return "proto"
		}
		return ""
	}
	// reader: function with HasSuffix(path, const) tests followed by Unmarshal
	type arm struct {
		suffix, codec string
		pos           string
		ord           int
	}
	var arms []arm
	var reader *ssa.Function
	for _, f := range p.RepoFuncs() {
		if fnPkgPath(f) != pbutilPkg {
			continue
		}
		var local []arm
		eachInstr(f, func(b *ssa.BasicBlock, i ssa.Instruction) {
			call, ok := i.(*ssa.Call)
			if !ok || !callIs(call, "strings", "HasSuffix") {
				return
			}
			suf, ok := constString(call.Call.Args[1])
			if !ok {
				return
			}
			// the true successor's unmarshal call
			for _, br := range branchesOn(call) {
				codec := ""
				seen := map[*ssa.BasicBlock]bool{}
				var walk func(bb *ssa.BasicBlock)
				walk = func(bb *ssa.BasicBlock) {
					if seen[bb] || codec != "" {
						return
					}
					seen[bb] = true
					for _, ins := range bb.Instrs {
						if cl, ok := ins.(ssa.CallInstruction); ok {
							if o := calleeObj(cl); o != nil && strings.HasPrefix(o.Name(), "Unmarshal") {
								if k := codecOf(o); k != "" {
									codec = k
									return
								}
							}
						}
						// the decoder selected as a function value (returned or stored, called later)
						for _, fv := range funcValueOperands(ins) {
							if o, ok := fv.Object().(*types.Func); ok && strings.HasPrefix(o.Name(), "Unmarshal") {
								if k := codecOf(o); k != "" {
									codec = k
									return
								}
							}
						}
					}
					for _, s := range bb.Succs {
						if br.TrueSucc.Dominates(s) {
							walk(s)
						}
					}
				}
				walk(br.TrueSucc)
				local = append(local, arm{suf, codec, p.pos(call.Pos()), len(local)})
			}
		})
		if len(local) >= 2 {
			arms, reader = local, f
		}
	}
	if reader == nil {
		// the same pairing written as a table: a package-level list of
		// {suffix, unmarshal function} filled in the package initialiser and walked
		// in order by a function that tests strings.HasSuffix with the entry's suffix
		if init := sp.Func("init"); init != nil {
			type row struct {
				suffix, codec, pos string
				have               int
			}
			rows := map[string]*row{} // by element address
			var order []string
			eachInstr(init, func(_ *ssa.BasicBlock, i ssa.Instruction) {
				st, ok := i.(*ssa.Store)
				if !ok {
					return
				}
				fa, ok := st.Addr.(*ssa.FieldAddr)
				if !ok {
					return
				}
				ia, ok := fa.X.(*ssa.IndexAddr)
				if !ok {
					return
				}
				k, isK := constInt(ia.Index)
				if !isK {
					return
				}
				id := fmt.Sprintf("%p/%03d", ia.X, k)
				r := rows[id]
				if r == nil {
					r = &row{}
					rows[id] = r
					order = append(order, id)
				}
				if suf, ok := constString(st.Val); ok {
					r.suffix, r.pos = suf, p.pos(st.Pos())
					r.have |= 1
				}
				if fn, ok := stripValue(st.Val).(*ssa.Function); ok {
					if o, ok := fn.Object().(*types.Func); ok && strings.HasPrefix(o.Name(), "Unmarshal") {
						if k := codecOf(o); k != "" {
							r.codec = k
							r.have |= 2
						}
					}
				}
			})
			sort.Strings(order)
			var local []arm
			for _, id := range order {
				if r := rows[id]; r.have == 3 {
					local = append(local, arm{r.suffix, r.codec, r.pos, len(local)})
				}
			}
			if len(local) >= 2 {
				for _, f := range p.RepoFuncs() {
					if fnPkgPath(f) != pbutilPkg || reader != nil {
						continue
					}
					eachCall(f, func(cl ssa.CallInstruction) {
						if callIs(cl, "strings", "HasSuffix") {
							if _, isConst := cl.Common().Args[1].(*ssa.Const); !isConst {
								arms, reader = local, f
							}
						}
					})
				}
			}
		}
	}
	if reader == nil {
		c.Undecidedf("CODEC-PAIRING", "reader", "-", "the suffix-dispatching reader of compiled models was not found in pkg/pbutil")
		return nil
	}
	want := func(suffix string) string {
		switch {
		case strings.HasSuffix(suffix, "json"):
			return "protojson"
		case strings.HasSuffix(suffix, "textpb") || strings.HasSuffix(suffix, "txt"):
			return "prototext"
		case strings.HasSuffix(suffix, ".pb"):
			return "proto"
		}
		return "?"
	}
	var sufs []string
	for _, a := range arms {
		sufs = append(sufs, a.suffix)
		c.Cond(a.codec == want(a.suffix), "CODEC-PAIRING", fmt.Sprintf("%s|suffix %s", fnName(reader), a.suffix), a.pos,
			fmt.Sprintf("files ending %s are decoded with %s", a.suffix, a.codec),
			fmt.Sprintf("files ending %s are decoded with %q; the writer of that mode uses %s", a.suffix, a.codec, want(a.suffix)))
	}
	// shadowing: an earlier suffix that is a suffix of a later one makes the later arm unreachable
	for i := range arms {
		for j := i + 1; j < len(arms); j++ {
			if strings.HasSuffix(arms[j].suffix, arms[i].suffix) {
				c.Flagf("CODEC-PAIRING", fmt.Sprintf("%s|%s shadows %s", fnName(reader), arms[i].suffix, arms[j].suffix), arms[j].pos,
					"the test for %s comes first and also matches every file ending %s: those files are decoded with the wrong codec", arms[i].suffix, arms[j].suffix)
			}
		}
	}
	// writers: each FJSON*/FText*/GeneratePBBinary* function marshals with the codec its name/mode says
	for _, f := range p.RepoFuncs() {
		if fnPkgPath(f) != pbutilPkg || f.Parent() != nil || !strings.HasSuffix(p.fnFile(f), "/output.go") {
			continue
		}
		codec := ""
		eachCall(f, func(cl ssa.CallInstruction) {
			if o := calleeObj(cl); o != nil && o.Name() == "Marshal" {
				if k := codecOf(o); k != "" {
					codec = k
				}
			}
		})
		if codec == "" {
			continue
		}
		n := strings.ToLower(f.Name())
		exp := "?"
		switch {
		case strings.Contains(n, "json"):
			exp = "protojson"
		case strings.Contains(n, "text"):
			exp = "prototext"
		case strings.Contains(n, "binary"):
			exp = "proto"
		}
		c.Cond(codec == exp, "CODEC-PAIRING", fnName(f)+"|writer codec", p.pos(f.Pos()), "writer marshals with "+codec, fmt.Sprintf("writer %s marshals with %s, expected %s", f.Name(), codec, exp))
	}
	sort.Strings(sufs)
	return sufs
}

// c09Disjoint: importer format extensions vs compiled-model reader suffixes.
func c09Disjoint(c *Check, readerSuffixes []string) {
	p := c.P
	if len(readerSuffixes) == 0 {
		return
	}
	ip := p.SSAPkgs[repoMod+"/pkg/importer"]
	if ip == nil {
		c.Undecidedf("SUFFIX-DISJOINT", "pkg/importer", "-", "package not found")
		return
	}
	// fold Format{Name, FileExt} composite literals from the package initialiser
	type format struct {
		name string
		exts []string
		pos  string
	}
	var formats []format
	for _, m := range ip.Members {
		g, ok := m.(*ssa.Global)
		if !ok || !typeIs(g.Type().(*types.Pointer).Elem(), repoMod+"/pkg/importer", "Format") {
			continue
		}
		f := format{pos: p.pos(g.Pos())}
		init := ip.Func("init")
		eachInstr(init, func(_ *ssa.BasicBlock, i ssa.Instruction) {
			st, ok := i.(*ssa.Store)
			if !ok {
				return
			}
			_, fld, base, ok := fieldOfAddr(st.Addr)
			if !ok || base != ssa.Value(g) {
				return
			}
			switch fld {
			case "Name":
				if s, ok := constString(st.Val); ok {
					f.name = s
				}
			case "FileExt":
				// slice of a local array whose elements are constant stores
				if sl, ok := st.Val.(*ssa.Slice); ok {
					if al, ok := sl.X.(*ssa.Alloc); ok {
						for _, r := range *al.Referrers() {
							if ia, ok := r.(*ssa.IndexAddr); ok {
								for _, r2 := range *ia.Referrers() {
									if s2, ok := r2.(*ssa.Store); ok {
										if s, ok := constString(s2.Val); ok {
											f.exts = append(f.exts, s)
										}
									}
								}
							}
						}
					}
				}
			}
		})
		if f.name != "" {
			sort.Strings(f.exts)
			formats = append(formats, f)
		}
	}
	sort.Slice(formats, func(i, j int) bool { return formats[i].name < formats[j].name })
	c.Counts["importer_formats"] = len(formats)
	if len(formats) < 10 {
		c.Undecidedf("SUFFIX-DISJOINT", "formats", "-", "only %d importer formats could be folded from the source", len(formats))
		return
	}
	for _, f := range formats {
		isModel := false
		for _, e := range f.exts {
			for _, r := range readerSuffixes {
				if e == r {
					isModel = true
				}
			}
		}
		if isModel && strings.Contains(strings.ToLower(f.name), "pb") {
			c.Okf("SUFFIX-DISJOINT", "format "+f.name, f.pos, "the compiled-model format itself (%v)", f.exts)
			continue
		}
		bad := ""
		for _, e := range f.exts {
			for _, r := range readerSuffixes {
				if strings.HasSuffix(e, r) {
					bad = fmt.Sprintf("extension %s ends in the compiled-model suffix %s: every %s file named in an import is decoded as a model instead of being imported", e, r, f.name)
				}
			}
		}
		c.Cond(bad == "", "SUFFIX-DISJOINT", "format "+f.name, f.pos, fmt.Sprintf("extensions %v do not end in a compiled-model suffix %v", f.exts, readerSuffixes), bad)
	}
}

// c09PostProcess: the success return of the per-file parse function is
// preceded by post-processing on every path.
func c09PostProcess(c *Check) {
	p := c.P
	var post *ssa.Function
	for _, f := range p.RepoFuncs() {
		if fnPkgPath(f) == repoMod+"/pkg/parse" && f.Name() == "postProcess" {
			post = f
		}
	}
	if post == nil {
		// by role: the function of the package that is handed the shared listener's
		// module (and nothing else of the listener) by the parse function, one of
		// its steps or a closure of them — the largest such function
		for _, f := range p.RepoFuncs() {
			if fnPkgPath(f) != repoMod+"/pkg/parse" {
				continue
			}
			eachCall(f, func(cl ssa.CallInstruction) {
				sc := staticCallee(cl)
				if sc == nil || fnPkgPath(sc) != repoMod+"/pkg/parse" || sc.Parent() != nil || len(sc.Blocks) == 0 {
					return
				}
				for _, a := range cl.Common().Args {
					if !typeIs(a.Type(), syslPkg, "Module") {
						continue
					}
					if own, _, _, ok := loadedField(a); ok && own != nil && own.Obj().Name() == "TreeShapeListener" {
						if post == nil || len(sc.Blocks) > len(post.Blocks) {
							post = sc
						}
					}
				}
			})
		}
	}
	if post == nil {
		c.Undecidedf("IMPORT-POSTPROCESS", "postProcess", "-", "post-processing function not found: unresolved anchor")
		return
	}
	callsPost := func(f *ssa.Function) bool {
		found := false
		for _, g := range withClosures(f) {
			eachCall(g, func(cl ssa.CallInstruction) {
				if staticCallee(cl) == post {
					found = true
				}
			})
		}
		return found
	}
	isWalk := func(cl ssa.CallInstruction) bool {
		o := calleeObj(cl)
		return o != nil && o.Name() == "Walk" && o.Pkg() != nil && strings.HasSuffix(o.Pkg().Path(), "/antlr")
	}
	// runsPost: the call i runs post-processing — it calls it, is handed a
	// closure that does, or calls a step of the same package in which such a
	// call dominates every return
	var runsPost func(i ssa.Instruction, depth int) bool
	stepRunsPost := func(g *ssa.Function, depth int) bool {
		if len(g.Blocks) == 0 || depth > 3 {
			return false
		}
		found := false
		eachInstr(g, func(_ *ssa.BasicBlock, i ssa.Instruction) {
			if found || !runsPost(i, depth) {
				return
			}
			all := true
			for _, b := range g.Blocks {
				if ret, ok := b.Instrs[len(b.Instrs)-1].(*ssa.Return); ok && !instrDominates(i, ret) {
					all = false
				}
			}
			if all {
				found = true
			}
		})
		return found
	}
	runsPost = func(i ssa.Instruction, depth int) bool {
		cl, ok := i.(ssa.CallInstruction)
		if !ok {
			return false
		}
		sc := staticCallee(cl)
		if sc == post {
			return true
		}
		for _, a := range cl.Common().Args {
			if mc, ok := a.(*ssa.MakeClosure); ok {
				if fn, ok := mc.Fn.(*ssa.Function); ok && callsPost(fn) {
					return true
				}
			}
		}
		return sc != nil && sc != post && fnPkgPath(sc) == repoMod+"/pkg/parse" && stepRunsPost(sc, depth+1)
	}
	n := 0
	for _, f := range p.RepoFuncs() {
		if fnPkgPath(f) != repoMod+"/pkg/parse" || f.Parent() != nil || moduleResultIndex(f.Signature) < 0 {
			continue
		}
		// the function that walks trees (itself, or in the steps it is split into)
		walks := reachesCall(f, repoMod+"/pkg/parse", 3, isWalk)
		if !walks {
			continue
		}
		ei := errorResultIndex(f.Signature)
		for _, b := range f.Blocks {
			ret, ok := b.Instrs[len(b.Instrs)-1].(*ssa.Return)
			if !ok {
				continue
			}
			vals, cell := returnValues(ret)
			if cell[ei] || !isNilConst(vals[ei]) {
				continue
			}
			// a return nothing was walked before (parsing switched off) has nothing to
			// post-process; a module handed on from another function of the family
			// is that function's to post-process
			walked, handedOn := false, false
			mi := moduleResultIndex(f.Signature)
			_, fld, base, isF := loadedField(vals[mi])
			_ = fld
			if own, _, _, _ := loadedField(vals[mi]); !isF || own == nil || own.Obj().Name() != "TreeShapeListener" {
				base = nil
			}
			related := func(a ssa.Value) bool {
				if base == nil {
					return true // not the module of a listener: located no more precisely
				}
				// the object the listener is read from (a context struct) counts as well
				for r := base; r != nil; {
					if r == a || unspill(r) == unspill(a) {
						return true
					}
					switch x := r.(type) {
					case *ssa.UnOp:
						r = x.X
					case *ssa.FieldAddr:
						r = x.X
					case *ssa.Field:
						r = x.X
					default:
						r = nil
					}
				}
				return derives(base, func(v ssa.Value) bool { return v == a || v == unspill(a) }, nil)
			}
			eachInstr(f, func(_ *ssa.BasicBlock, i ssa.Instruction) {
				if !canReach(i, ret, nil) {
					return
				}
				switch x := i.(type) {
				case *ssa.MakeClosure:
					fn, _ := x.Fn.(*ssa.Function)
					if fn == nil || !reachesCall(fn, repoMod+"/pkg/parse", 3, isWalk) {
						return
					}
					for _, b := range x.Bindings {
						if related(b) {
							walked = true
						}
					}
				case ssa.CallInstruction:
					sc := staticCallee(x)
					if !isWalk(x) && !(sc != nil && sc != f && fnPkgPath(sc) == repoMod+"/pkg/parse" && reachesCall(sc, repoMod+"/pkg/parse", 3, isWalk)) {
						return
					}
					for _, a := range x.Common().Args {
						if related(a) {
							walked = true
						}
					}
					if sc != nil && moduleResultIndex(sc.Signature) >= 0 && x.Value() != nil &&
						derives(vals[mi], func(v ssa.Value) bool { return v == ssa.Value(x.Value()) }, nil) {
						handedOn = true
					}
				}
			})
			if !walked || handedOn {
				continue
			}
			n++
			// dominated by a call that runs postProcess
			dom := false
			eachInstr(f, func(_ *ssa.BasicBlock, i ssa.Instruction) {
				if !dom && instrDominates(i, ret) && runsPost(i, 0) {
					dom = true
				}
			})
			c.Cond(dom, "IMPORT-POSTPROCESS", fnName(f)+"|post-process before success return", p.pos(ret.Pos()),
				"every successful return of the merged module is dominated by post-processing (also when the last file was a compiled model)",
				"a successful return is reachable without post-processing: a module merged from a compiled model skips mixin copy, type inference and collector attributes")
		}
	}
	if n == 0 {
		c.Undecidedf("IMPORT-POSTPROCESS", "success returns", "-", "no success return of the tree-walking parse function found")
	}
}

// c09Truncate: a compiled model written over an existing, longer file must
// replace it. Every file opened for writing in the commands and the output
// helpers is opened with Create (which truncates) or with a constant flag set
// that contains O_TRUNC or O_APPEND; O_WRONLY|O_CREATE alone leaves the old tail
// behind, and the file no longer decodes.
func c09Truncate(c *Check) {
	p := c.P
	n := 0
	for _, f := range p.RepoFuncs() {
		pp := fnPkgPath(f)
		if strings.HasSuffix(p.fnFile(f), "_test.go") || !(strings.HasPrefix(pp, repoMod+"/cmd/") || pp == pbutilPkg || pp == repoMod+"/pkg/diagrams" || pp == repoMod+"/pkg/cmdutils") {
			continue
		}
		eachCall(f, func(cl ssa.CallInstruction) {
			cc := cl.Common()
			name := ""
			if cc.IsInvoke() {
				name = cc.Method.Name()
			} else if o := calleeObj(cl); o != nil {
				name = o.Name()
			}
			switch name {
			case "Create":
				if cc.IsInvoke() || (calleeObj(cl) != nil && calleeObj(cl).Pkg() != nil && (calleeObj(cl).Pkg().Path() == "os" || strings.HasSuffix(calleeObj(cl).Pkg().Path(), "afero"))) {
					n++
					c.Okf("WRITE-TRUNCATES", fnName(f)+"|Create", p.pos(cl.Pos()), "Create truncates an existing file")
				}
			case "OpenFile":
				// flag argument: the int-typed one
				var flag ssa.Value
				for _, a := range cc.Args {
					if b, ok := a.Type().Underlying().(*types.Basic); ok && b.Kind() == types.Int {
						flag = a
					}
				}
				if flag == nil {
					return
				}
				n++
				key := fnName(f) + "|OpenFile"
				k, isK := constInt(flag)
				if !isK {
					c.Okf("WRITE-TRUNCATES", key, p.pos(cl.Pos()), "flags are passed through from the caller (wrapper)")
					return
				}
				const oWRONLY, oRDWR, oAPPEND, oCREATE, oTRUNC = 0x1, 0x2, 0x400, 0x40, 0x200
				writes := k&oWRONLY != 0 || k&oRDWR != 0
				if writes && k&oCREATE != 0 && k&oTRUNC == 0 && k&oAPPEND == 0 {
					c.Flagf("WRITE-TRUNCATES", key, p.pos(cl.Pos()), "the output file is opened for writing with O_CREATE but without O_TRUNC: written over a longer existing file, the old tail stays and the file no longer decodes")
				} else {
					c.Okf("WRITE-TRUNCATES", key, p.pos(cl.Pos()), "flag set %#x truncates, appends or does not write", k)
				}
			}
		})
	}
	c.Counts["output_file_openings"] = n
	if n == 0 {
		c.Undecidedf("WRITE-TRUNCATES", "openings", "-", "no output file opening found in the commands and output helpers: unresolved anchor")
	}
}

// c09DecodeLimits: whatever the writers emit the readers must accept. The
// protobuf decoders accept messages nested up to 10000 deep by default, which
// is also the encoders' bound; a decode option in pkg/pbutil that lowers
// RecursionLimit makes models that were written successfully unreadable.
func c09DecodeLimits(c *Check) {
	p := c.P
	pkg := p.SSAPkgs[pbutilPkg]
	if pkg == nil {
		return
	}
	var fns []*ssa.Function
	for _, m := range pkg.Members {
		if f, ok := m.(*ssa.Function); ok {
			fns = append(fns, withClosures(f)...)
		}
	}
	bad := 0
	for _, f := range fns {
		if strings.HasSuffix(p.fnFile(f), "_test.go") {
			continue
		}
		eachInstr(f, func(_ *ssa.BasicBlock, i ssa.Instruction) {
			st, ok := i.(*ssa.Store)
			if !ok {
				return
			}
			own, fld, _, ok := fieldOfAddr(st.Addr)
			if !ok || own == nil || own.Obj().Pkg() == nil || !strings.HasPrefix(own.Obj().Pkg().Path(), "google.golang.org/protobuf/") || own.Obj().Name() != "UnmarshalOptions" || fld != "RecursionLimit" {
				return
			}
			k, isK := constInt(st.Val)
			if isK && (k == 0 || k >= 10000) {
				return
			}
			bad++
			c.Flagf("DECODE-LIMITS", "pkg/pbutil|decoder accepts what the encoder emits", p.pos(st.Pos()), "a decode option lowers RecursionLimit below the encoders' bound: a deeply nested model is written without complaint and can then neither be decoded nor imported")
		})
	}
	if bad == 0 {
		c.Okf("DECODE-LIMITS", "pkg/pbutil|decoder accepts what the encoder emits", "-", "%d functions of pkg/pbutil scanned: no decode option lowers the nesting limit", len(fns))
	}
}
