package main

import (
	"sort"
	"strings"

	"golang.org/x/tools/go/ssa"
)

func init() { register("C19", LoadWhole, checkC19) }

func c19Scope(p *Program, f *ssa.Function) bool {
	pp := fnPkgPath(f)
	switch {
	case strings.Contains(pp, "/pkg/lsp"), strings.HasSuffix(pp, "/pkg/testrig"), strings.Contains(pp, "/language/"),
		strings.HasSuffix(pp, "/pkg/syslwrapper") && strings.HasSuffix(p.fnFile(f), "test_helper.go"):
		return false
	}
	return true
}

func checkC19(c *Check) {
	p := c.P
	c.Explanation = "C19 (structural clause): every `range` over a Go map in non-generated repository code (LSP server and test rig excluded) is classified by an unordered-iteration taint analysis on SSA: inside the loop, writes to writers/builders/files held outside the loop, appends to outer slices that are not sorted before their next use, string concatenation onto outer variables, last-writer-wins assignments and map updates under non-injective keys, early returns of iteration-dependent values, and calls to functions whose bottom-up summaries (over the whole-program VTA call graph) say they write output or state through an operand that lives outside the loop, are order-sensitive. Plus the who-may-call rule for other nondeterminism sources (time, rand, pid, non-deterministic proto.Marshal) flowing to output. A loop with no such effect cannot make output depend on map order; a flagged loop is excepted with a reason, a reproduced known finding, or a violation."
	c.Assumptions = append(c.Assumptions,
		"distinct map values do not alias each other (writes through one iteration's value do not affect another's)",
		"logging is not output",
		"third-party encoders (encoding/json, protojson, prototext, ghodss/yaml) are deterministic for a given input — trusted",
		"arr.ai bundles are opaque")
	e := newOrderEngine(p)
	runOrder(c, "MAP-ORDER", e, func(f *ssa.Function) bool { return c19Scope(p, f) })
	nondetSources(c, "NONDET-SOURCE", func(f *ssa.Function) bool { return c19Scope(p, f) })
	// the compiled model is an output too: the order in which imported files are
	// merged must come from the import walk, never from the order in which the
	// concurrent fetchers arrive
	arrivalOrder(c, "ARRIVAL-ORDER")
	// same model, same output within one process: a generator that returns the
	// content of a buffer kept in a long-lived view must start from an empty buffer
	c.Counts["buffer_returning_call_sites"] = freshBuffers(c, "FRESH-BUFFER", func(f *ssa.Function) bool { return c19Scope(p, f) })
	// … and must leave the model it read as it found it: a write into a model
	// object the generator did not create shows in the next run over the same
	// module (diagram generators, exporters, script writers; not the importers
	// and the compiler, whose job is to build the model)
	var gens []*ssa.Function
	for _, f := range p.RepoFuncs() {
		if !c19Scope(p, f) || p.isGeneratedFile(p.fnFile(f)) {
			continue
		}
		switch pk := strings.TrimPrefix(fnPkgPath(f), repoMod+"/"); {
		case pk == "pkg/cmdutils", pk == "pkg/sequencediagram", pk == "pkg/integrationdiagram", pk == "pkg/datamodeldiagram",
			pk == "pkg/database", pk == "pkg/exporter", pk == "pkg/syslwrapper", pk == "pkg/printer", pk == "pkg/arrai/relmod",
			strings.HasPrefix(pk, "pkg/mermaid"):
			gens = append(gens, f)
		}
	}
	sort.Slice(gens, func(i, j int) bool { return fnName(gens[i]) < fnName(gens[j]) })
	c.Counts["model_writes"] = modelWrites(c, "MODEL-READ-ONLY", gens)
	c.Okf("MODEL-READ-ONLY", "scan", "-", "%d functions of the generator packages scanned for writes into model objects they did not create: %d found", len(gens), c.Counts["model_writes"])
}

// nondetSources: calls that read the clock, random numbers, process identity,
// or encode protobuf without the Deterministic option.
func nondetSources(c *Check, rule string, sel func(*ssa.Function) bool) {
	p := c.P
	n, nm := 0, 0
	for _, f := range p.RepoFuncs() {
		if p.isGeneratedFile(p.fnFile(f)) || !sel(f) {
			continue
		}
		eachCall(f, func(cl ssa.CallInstruction) {
			o := calleeObj(cl)
			if o == nil || o.Pkg() == nil {
				return
			}
			full := o.Pkg().Path() + "." + objLocalName(o)
			switch {
			case full == "time.Now", full == "time.Since", full == "os.Getpid", full == "os.Hostname",
				full == "os.Getppid", full == "os.Getwd", full == "time.Until", full == "os.Executable",
				o.Pkg().Path() == "math/rand", o.Pkg().Path() == "crypto/rand", o.Pkg().Path() == "math/rand/v2",
				o.Pkg().Path() == "hash/maphash": // seeded per process
				n++
				c.Flagf(rule, fnName(f)+"|"+full, p.pos(cl.Pos()), "%s is read in generator code: output may differ between runs if it flows to output", full)
			case full == "google.golang.org/protobuf/proto.Marshal" || full == "github.com/golang/protobuf/proto.Marshal":
				nm++
				c.Flagf(rule, fnName(f)+"|proto.Marshal", p.pos(cl.Pos()), "proto.Marshal without Deterministic: map fields are encoded in random order")
			case full == "google.golang.org/protobuf/proto.MarshalOptions.Marshal":
				nm++
				// the options value must have Deterministic: true
				det := false
				if len(cl.Common().Args) > 0 {
					det = derives(cl.Common().Args[0], func(v ssa.Value) bool {
						if fa, ok := v.(*ssa.FieldAddr); ok {
							if _, fld, _, ok := fieldOfAddr(fa); ok && fld == "Deterministic" {
								for _, r := range *fa.Referrers() {
									if st, ok := r.(*ssa.Store); ok {
										if cv, ok := st.Val.(*ssa.Const); ok && cv.Value != nil && cv.Value.String() == "true" {
											return true
										}
									}
								}
							}
						}
						return false
					}, nil)
					if !det {
						// composite literal stored as a whole struct value
						if al, ok := unspillDeep(cl.Common().Args[0]).(*ssa.Alloc); ok {
							for _, r := range *al.Referrers() {
								if fa, ok := r.(*ssa.FieldAddr); ok {
									if _, fld, _, ok := fieldOfAddr(fa); ok && fld == "Deterministic" {
										for _, r2 := range *fa.Referrers() {
											if st, ok := r2.(*ssa.Store); ok {
												if cv, ok := st.Val.(*ssa.Const); ok && cv.Value != nil && cv.Value.String() == "true" {
													det = true
												}
											}
										}
									}
								}
							}
						}
					}
				}
				c.Cond(det, rule, fnName(f)+"|proto.MarshalOptions.Marshal", p.pos(cl.Pos()), "binary encoding uses MarshalOptions{Deterministic: true}", "binary protobuf encoding without Deterministic: true")
			}
		})
	}
	c.Counts[rule+"_clock_random_sites"] = n
	c.Counts[rule+"_proto_marshal_sites"] = nm
	c.Okf(rule, "scan", "-", "scanned generator code for clock/random/pid reads (%d) and binary protobuf encodings (%d)", n, nm)
}

func unspillDeep(v ssa.Value) ssa.Value {
	for i := 0; i < 4; i++ {
		switch x := v.(type) {
		case *ssa.UnOp:
			v = x.X
		default:
			return v
		}
	}
	return v
}
