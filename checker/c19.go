package main

import (
	"strings"

	"golang.org/x/tools/go/ssa"
)

func init() { register("C19", LoadWhole, checkC19) }

func c19Scope(p *Program, f *ssa.Function) bool {
	pp := fnPkgPath(f)
	switch {
	case strings.Contains(pp, "/pkg/lsp"), strings.HasSuffix(pp, "/pkg/testrig"), strings.Contains(pp, "/language/"),
		strings.HasSuffix(pp, "/pkg/syslwrapper") && strings.HasSuffix(p.fnFile(f), "test_helper.go"):
		return false
	}
	return true
}

func checkC19(c *Check) {
	p := c.P
	c.Explanation = "C19 (structural clause): every `range` over a Go map in non-generated repository code (LSP server and test rig excluded) is classified by an unordered-iteration taint analysis on SSA: inside the loop, writes to writers/builders/files held outside the loop, appends to outer slices that are not sorted before their next use, string concatenation onto outer variables, last-writer-wins assignments and map updates under non-injective keys, early returns of iteration-dependent values, and calls to functions whose bottom-up summaries (over the whole-program VTA call graph) say they write output or state through an operand that lives outside the loop, are order-sensitive. Plus the who-may-call rule for other nondeterminism sources (time, rand, pid, non-deterministic proto.Marshal) flowing to output. A loop with no such effect cannot make output depend on map order; a flagged loop is excepted with a reason, a reproduced known finding, or a violation."
	c.Assumptions = append(c.Assumptions,
		"distinct map values do not alias each other (writes through one iteration's value do not affect another's)",
		"logging is not output",
		"third-party encoders (encoding/json, protojson, prototext, ghodss/yaml) are deterministic for a given input — trusted",
		"arr.ai bundles are opaque")
	e := newOrderEngine(p)
	runOrder(c, "MAP-ORDER", e, func(f *ssa.Function) bool { return c19Scope(p, f) })
}
