package main

import (
	"fmt"
	"go/token"
	"go/types"
	"sort"
	"strings"

	"golang.org/x/tools/go/ssa"
)

// R-KINDS: exhaustiveness, descent and kind-table agreement over the protobuf
// oneofs of pkg/sysl.

type kindInfo struct {
	Name         string       // Statement_Call
	Wrapper      *types.Named // sysl.Statement_Call
	Payload      *types.Named // sysl.Call (nil for scalar payloads)
	Getter       string       // GetCall
	ChildField   string       // "Stmt" | "Choice" | "" — list of child statements
	ChildBearing bool
	Producible   bool
}

// oneofKinds lists the implementers of an unexported oneof marker interface
// of pkg/sysl (e.g. "isStatement_Stmt").
func oneofKinds(p *Program, marker string) []kindInfo {
	pk := p.Pkg("pkg/sysl")
	if pk == nil {
		return nil
	}
	obj := pk.Types.Scope().Lookup(marker)
	if obj == nil {
		return nil
	}
	iface, ok := obj.Type().Underlying().(*types.Interface)
	if !ok {
		return nil
	}
	// producible: composite literals (heap allocations) of the wrapper in pkg/parse
	prod := map[*types.Named]bool{}
	for _, f := range p.RepoFuncs() {
		if fnPkgPath(f) != repoMod+"/pkg/parse" {
			continue
		}
		eachInstr(f, func(_ *ssa.BasicBlock, i ssa.Instruction) {
			if al, ok := i.(*ssa.Alloc); ok {
				if n := namedOf(al.Type()); n != nil {
					prod[n] = true
				}
			}
		})
	}
	var out []kindInfo
	sc := pk.Types.Scope()
	for _, name := range sc.Names() {
		tn, ok := sc.Lookup(name).(*types.TypeName)
		if !ok {
			continue
		}
		n, ok := tn.Type().(*types.Named)
		if !ok {
			continue
		}
		if _, isI := n.Underlying().(*types.Interface); isI {
			continue
		}
		if !types.Implements(types.NewPointer(n), iface) {
			continue
		}
		k := kindInfo{Name: n.Obj().Name(), Wrapper: n, Producible: prod[n]}
		if st, ok := n.Underlying().(*types.Struct); ok && st.NumFields() >= 1 {
			for i := 0; i < st.NumFields(); i++ {
				fld := st.Field(i)
				if !fld.Exported() {
					continue
				}
				k.Getter = "Get" + fld.Name()
				k.Payload = namedOf(fld.Type())
			}
		}
		if k.Payload != nil {
			if pst, ok := k.Payload.Underlying().(*types.Struct); ok {
				for i := 0; i < pst.NumFields(); i++ {
					fld := pst.Field(i)
					if sl, ok := fld.Type().(*types.Slice); ok {
						if en := namedOf(sl.Elem()); en != nil && en.Obj().Pkg() == n.Obj().Pkg() {
							switch {
							case en.Obj().Name() == "Statement":
								k.ChildField, k.ChildBearing = fld.Name(), true
							case hasStmtList(en):
								k.ChildField, k.ChildBearing = fld.Name(), true // Alt → Choice → Stmt
							}
						}
					}
				}
			}
		}
		out = append(out, k)
	}
	sort.Slice(out, func(i, j int) bool { return out[i].Name < out[j].Name })
	return out
}

func hasStmtList(n *types.Named) bool {
	st, ok := n.Underlying().(*types.Struct)
	if !ok {
		return false
	}
	for i := 0; i < st.NumFields(); i++ {
		if sl, ok := st.Field(i).Type().(*types.Slice); ok {
			if en := namedOf(sl.Elem()); en != nil && en.Obj().Name() == "Statement" {
				return true
			}
		}
	}
	return false
}

// kindsCovered: which kinds the function set mentions — by type assertion /
// type switch on the wrapper, or by calling the oneof getter on the owner.
func kindsCovered(fns []*ssa.Function, kinds []kindInfo) map[string]ssa.Instruction {
	cov := map[string]ssa.Instruction{}
	for _, f := range fns {
		eachInstr(f, func(_ *ssa.BasicBlock, i ssa.Instruction) {
			switch x := i.(type) {
			case *ssa.TypeAssert:
				if n := namedOf(x.AssertedType); n != nil {
					for _, k := range kinds {
						if k.Wrapper == n {
							cov[k.Name] = i
						}
					}
				}
			case *ssa.Call:
				if sc := x.Call.StaticCallee(); sc != nil && sc.Signature.Recv() != nil {
					for _, k := range kinds {
						if sc.Name() == k.Getter && k.Payload != nil && sc.Signature.Results().Len() == 1 && namedOf(sc.Signature.Results().At(0).Type()) == k.Payload {
							cov[k.Name] = i
						}
					}
				}
			}
		})
	}
	return cov
}

// childListForwarded: the function set reads kind k's child list and hands it
// (or its elements) on: as a call argument, into a constructed element, or by
// ranging over it with the element handed on.
func childListForwarded(fns []*ssa.Function, k kindInfo) (bool, ssa.Instruction) {
	var reads []ssa.Value
	// selector helpers: functions of the same package called from the traverser
	// (two levels) that may read the child list and return it
	scope := append([]*ssa.Function{}, fns...)
	inScope := map[*ssa.Function]bool{}
	for _, f := range fns {
		inScope[f] = true
	}
	for level := 0; level < 2; level++ {
		for _, f := range append([]*ssa.Function{}, scope...) {
			eachCall(f, func(cl ssa.CallInstruction) {
				h := cl.Common().StaticCallee()
				if h == nil || inScope[h] || !isRepoFn(h) || len(h.Blocks) == 0 || len(fns) == 0 || fnPkgPath(h) != fnPkgPath(fns[0]) {
					return
				}
				if h.Signature.Results().Len() != 1 || !isTreeType(h.Signature.Results().At(0).Type()) {
					return
				}
				inScope[h] = true
				scope = append(scope, h)
			})
		}
	}
	helper := map[*ssa.Function]bool{}
	for _, f := range scope[len(fns):] {
		helper[f] = true
	}
	for _, f := range scope {
		eachInstr(f, func(_ *ssa.BasicBlock, i ssa.Instruction) {
			switch x := i.(type) {
			case *ssa.FieldAddr:
				if own, fld, _, ok := fieldOfAddr(x); ok && own == k.Payload && fld == k.ChildField {
					for _, r := range *x.Referrers() {
						if ld, ok := r.(*ssa.UnOp); ok && ld.Op == token.MUL {
							reads = append(reads, ld)
						}
					}
				}
			case *ssa.Call:
				if sc := x.Call.StaticCallee(); sc != nil && sc.Signature.Recv() != nil && sc.Name() == "Get"+k.ChildField && namedOf(sc.Signature.Recv().Type()) == k.Payload {
					reads = append(reads, x)
				}
			}
		})
	}
	for _, rd := range reads {
		seen := map[ssa.Value]bool{}
		// inner: the iteration over an intermediate container (the choices of an
		// Alt) that the value passed through: what is handed on must be handed
		// on inside that loop, once per element — a variable overwritten in the
		// loop and consumed after it carries the last element only.
		var inner *ssa.BasicBlock
		var fwd func(v ssa.Value, d int) ssa.Instruction
		fwd = func(v ssa.Value, d int) ssa.Instruction {
			if d > 10 || seen[v] || v.Referrers() == nil {
				return nil
			}
			seen[v] = true
			for _, r := range *v.Referrers() {
				switch x := r.(type) {
				case ssa.CallInstruction:
					if b, ok := x.Common().Value.(*ssa.Builtin); ok {
						if b.Name() == "len" || b.Name() == "cap" {
							continue
						}
						if b.Name() == "append" {
							if cv, ok := x.(*ssa.Call); ok { // accumulation: follow the grown slice
								if at := fwd(cv, d+1); at != nil {
									return at
								}
							}
							continue
						}
					}
					// a getter on the element is a selection step, not a hand-over
					if sc := x.Common().StaticCallee(); sc != nil && sc.Signature.Recv() != nil && strings.HasPrefix(sc.Name(), "Get") && len(x.Common().Args) == 1 && x.Common().Args[0] == v {
						if cv, ok := x.(*ssa.Call); ok {
							if at := fwd(cv, d+1); at != nil {
								return at
							}
						}
						continue
					}
					if inner != nil && !inLoopOf(inner, x.Block()) && !accumulated(v) {
						continue // consumed after the loop: only the last element arrives
					}
					if helper[x.Parent()] {
						continue // inside a selector helper only the returned value counts
					}
					return x
				case *ssa.Store:
					if x.Val == v {
						if _, _, _, isField := fieldOfAddr(x.Addr); isField {
							return x
						}
						if al, ok := x.Addr.(*ssa.Alloc); ok {
							for _, r2 := range *al.Referrers() {
								if ld, ok := r2.(*ssa.UnOp); ok && ld.Op == token.MUL {
									if at := fwd(ld, d+1); at != nil {
										return at
									}
								}
							}
						}
					}
				case *ssa.IndexAddr:
					if k.ChildField != "Stmt" && x.X == v {
						// a slice range loop: the index is the loop's induction phi
						idx := x.Index
						if b, ok := idx.(*ssa.BinOp); ok {
							idx = b.X
						}
						if ph, ok := idx.(*ssa.Phi); ok {
							inner = ph.Block()
						}
					}
					if at := fwd(x, d+1); at != nil {
						return at
					}
				case *ssa.UnOp:
					if at := fwd(x, d+1); at != nil {
						return at
					}
				case *ssa.Phi:
					if at := fwd(x, d+1); at != nil {
						return at
					}
				case *ssa.Slice:
					if at := fwd(x, d+1); at != nil {
						return at
					}
				case *ssa.Range:
					if at := fwd(x, d+1); at != nil {
						return at
					}
				case *ssa.Next:
					if k.ChildField != "Stmt" { // iterating the intermediate container
						inner = x.Block()
					}
					if at := fwd(x, d+1); at != nil {
						return at
					}
				case *ssa.Extract:
					if at := fwd(x, d+1); at != nil {
						return at
					}
				case *ssa.FieldAddr: // element.Stmt of an Alt choice
					if at := fwd(x, d+1); at != nil {
						return at
					}
				case *ssa.MakeInterface:
					if at := fwd(x, d+1); at != nil {
						return at
					}
				case *ssa.Return:
					// returned by a selector helper: continue at its call sites
					if h := x.Parent(); helper[h] {
						for _, f := range scope {
							var at ssa.Instruction
							eachInstr(f, func(_ *ssa.BasicBlock, j ssa.Instruction) {
								if cv, ok := j.(*ssa.Call); ok && at == nil && cv.Call.StaticCallee() == h {
									at = fwd(cv, d+1)
								}
							})
							if at != nil {
								return at
							}
						}
					}
				}
			}
			return nil
		}
		if at := fwd(rd, 0); at != nil {
			return true, at
		}
	}
	return false, nil
}

// runStmtKinds checks coverage and descent of a statement traverser.
func runStmtKinds(c *Check, rule, name string, fns []*ssa.Function) {
	p := c.P
	kinds := oneofKinds(p, "isStatement_Stmt")
	if len(kinds) < 8 {
		c.Undecidedf(rule, name, "-", "statement kinds could not be computed from pkg/sysl (%d found)", len(kinds))
		return
	}
	if len(fns) == 0 {
		c.Undecidedf(rule, name, "-", "traverser functions not found: unresolved anchor")
		return
	}
	cov := kindsCovered(fns, kinds)
	for _, k := range kinds {
		if !k.Producible {
			continue
		}
		at, ok := cov[k.Name]
		pos := p.pos(fns[0].Pos())
		if ok {
			pos = p.pos(at.Pos())
		}
		c.Cond(ok, rule, fmt.Sprintf("%s|handles %s", name, k.Name), pos,
			"the traverser has a case for this statement kind",
			fmt.Sprintf("the traverser has no case for statements of kind %s, which the compiler produces: they are skipped or hit the default arm", k.Name))
		if k.ChildBearing {
			fw, at2 := childListForwarded(fns, k)
			pos2 := pos
			if at2 != nil {
				pos2 = p.pos(at2.Pos())
			}
			c.Cond(fw, rule, fmt.Sprintf("%s|descends into %s.%s", name, k.Name, k.ChildField), pos2,
				"the nested statements of this kind are read and handed on to the traversal",
				fmt.Sprintf("the traverser never hands on the nested statements (%s.%s) of %s: everything nested inside such a block is ignored", k.Payload.Obj().Name(), k.ChildField, k.Name))
		}
	}
}

// ---- kind-table agreement -------------------------------------------------------

// stringConstsStoredToField: all string constants that can be stored (through
// phis) into field `field` of struct type `owner` by the functions.
func stringConstsStoredToField(fns []*ssa.Function, owner *types.Named, field string) map[string]bool {
	out := map[string]bool{}
	for _, f := range fns {
		eachInstr(f, func(_ *ssa.BasicBlock, i ssa.Instruction) {
			st, ok := i.(*ssa.Store)
			if !ok {
				return
			}
			own, fld, _, ok := fieldOfAddr(st.Addr)
			if !ok || own != owner || fld != field {
				return
			}
			seen := map[ssa.Value]bool{}
			var walk func(v ssa.Value)
			walk = func(v ssa.Value) {
				if seen[v] {
					return
				}
				seen[v] = true
				switch x := v.(type) {
				case *ssa.Const:
					if s, ok := constString(x); ok && s != "" {
						out[s] = true
					}
				case *ssa.Phi:
					for _, e := range x.Edges {
						walk(e)
					}
				case *ssa.UnOp:
					if al, ok := x.X.(*ssa.Alloc); ok {
						for _, r := range *al.Referrers() {
							if s, ok := r.(*ssa.Store); ok && s.Addr == al {
								walk(s.Val)
							}
						}
					}
				}
			}
			walk(st.Val)
		})
	}
	return out
}

// switchConstsOnField: string constants compared (==) with a load of field
// `field` of `owner` in f.
func switchConstsOnField(f *ssa.Function, owner *types.Named, field string) map[string]bool {
	out := map[string]bool{}
	eachInstr(f, func(_ *ssa.BasicBlock, i ssa.Instruction) {
		bin, ok := i.(*ssa.BinOp)
		if !ok || bin.Op != token.EQL {
			return
		}
		s, isC := constString(bin.Y)
		x := bin.X
		if !isC {
			s, isC = constString(bin.X)
			x = bin.Y
		}
		if !isC {
			return
		}
		if own, fld, _, ok := loadedField(x); ok && own == owner && fld == field {
			out[s] = true
		}
	})
	return out
}

func lowerAll(m map[string]int64, skipZero bool) []string {
	var out []string
	for k, v := range m {
		if skipZero && v == 0 {
			continue
		}
		out = append(out, strings.ToLower(k))
	}
	sort.Strings(out)
	return out
}

// inLoopOf: is block b in the natural loop(s) headed by h?
func inLoopOf(h, b *ssa.BasicBlock) bool {
	if h == b {
		return true
	}
	body := map[*ssa.BasicBlock]bool{h: true}
	var work []*ssa.BasicBlock
	for _, t := range h.Preds {
		if h.Dominates(t) && !body[t] {
			body[t] = true
			work = append(work, t)
		}
	}
	for len(work) > 0 {
		n := work[len(work)-1]
		work = work[:len(work)-1]
		for _, pr := range n.Preds {
			if !body[pr] {
				body[pr] = true
				work = append(work, pr)
			}
		}
	}
	return body[b]
}

// accumulated: v is (a phi over) the result of an append — a grown slice, not a
// variable overwritten per iteration.
func accumulated(v ssa.Value) bool {
	seen := map[ssa.Value]bool{}
	var rec func(v ssa.Value, d int) bool
	rec = func(v ssa.Value, d int) bool {
		if v == nil || seen[v] || d > 5 {
			return false
		}
		seen[v] = true
		switch x := v.(type) {
		case *ssa.Call:
			if b, ok := x.Call.Value.(*ssa.Builtin); ok && b.Name() == "append" {
				return true
			}
		case *ssa.Phi:
			for _, e := range x.Edges {
				if rec(e, d+1) {
					return true
				}
			}
		}
		return false
	}
	return rec(v, 0)
}

// blockKindsAgree (BLOCK-KINDS): a function that distinguishes statement kinds
// and has a case for two or more of the kinds that contain nested statements
// (if/else, loops, for-each, groups, one-of) is looking inside blocks; a block
// kind it has no case for is a block it does not look into. Each function of the
// scope is judged on its own (with its closures): a partial cover is reported,
// a function that mentions none or one block kind is not a block walker.
func blockKindsAgree(c *Check, rule string, fns map[*ssa.Function]bool) int {
	p := c.P
	kinds := oneofKinds(p, "isStatement_Stmt")
	var blocks []kindInfo
	for _, k := range kinds {
		if k.ChildBearing && k.Producible {
			blocks = append(blocks, k)
		}
	}
	if len(blocks) < 4 {
		return 0
	}
	var list []*ssa.Function
	for f := range fns {
		if f.Parent() == nil && !p.isGeneratedFile(p.fnFile(f)) {
			list = append(list, f)
		}
	}
	sort.Slice(list, func(i, j int) bool { return fnName(list[i]) < fnName(list[j]) })
	// direct static callers: a selector helper may leave one block kind to the
	// function that calls it (the one-of block has choices, not one body)
	callers := map[*ssa.Function][]*ssa.Function{}
	for _, g := range p.RepoFuncs() {
		eachCall(g, func(cl ssa.CallInstruction) {
			if h := cl.Common().StaticCallee(); h != nil && h != g {
				root := g
				for root.Parent() != nil {
					root = root.Parent()
				}
				callers[h] = append(callers[h], root)
			}
		})
	}
	n := 0
	for _, f := range list {
		cov := kindsCovered(withClosures(f), blocks)
		if len(cov) < 2 {
			continue
		}
		n++
		unit := withClosures(f)
		for _, g := range callers[f] {
			unit = append(unit, withClosures(g)...)
		}
		covUnit := kindsCovered(unit, blocks)
		for _, k := range blocks {
			_, ok := covUnit[k.Name]
			c.Cond(ok, rule, fmt.Sprintf("%s|looks into %s", fnName(f), k.Name), p.pos(f.Pos()),
				"the function has a case for this block kind like for the other block kinds",
				fmt.Sprintf("the function has cases for %d of the %d statement kinds that contain nested statements but neither it nor a function that calls it has one for %s: what is nested in such a block is treated as absent", len(cov), len(blocks), k.Name))
		}
	}
	return n
}
