package main

import (
	"fmt"
	"go/token"
	"go/types"
	"strings"

	"golang.org/x/tools/go/ssa"
)

func init() {
	register("C13", LoadWhole, checkC13)
	register("C14", LoadWhole, checkC14)
}

const cmdutilsPkg = repoMod + "/pkg/cmdutils"

func checkC13(c *Check) {
	p := c.P
	c.Explanation = "C13 (structural clauses): the sequence visitor's recursive descent into a called endpoint is guarded by the `visited` multiset — membership test before, increment before, decrement after on every success path (so cycles end and repeated, non-nested calls are expanded again); Indent/Unindent and Activated/deactivate pair on every success path of every visitor method; every function that opens a block writes the closing `end` on its success path; visitStatment has a case for every statement kind the compiler can produce and the nested statements of every block kind are handed on; participants are written from the symbol table after the walk from a sorted slice; no explicit panic, unchecked by-name look-up or unguarded recursion is reachable from GenerateSequenceDiag / DoConstructSequenceDiagrams; no map iteration reaches the diagram text unsorted. That the arrows equal the reachable calls in source order is not decided."
	c.Assumptions = append(c.Assumptions, "on error returns the partial diagram is discarded (pairing is required on success paths only)")
	entries := funcsNamed(c, "pkg/sequencediagram.GenerateSequenceDiag", "pkg/sequencediagram.DoConstructSequenceDiagrams")
	if len(entries) < 2 {
		return
	}
	runGenEngines(c, genOpts{entries: entries, order: true, guard: true, deref: true, rec: true, modelRO: true})
	vis := methodsOfType(p, "pkg/cmdutils", "SequenceDiagramVisitor")
	if len(vis) < 10 {
		c.Undecidedf("ANCHOR", "SequenceDiagramVisitor", "-", "visitor methods not found")
		return
	}
	// pairing
	n1 := pairOnSuccessPaths(c, "PAIRING", vis, "Indent/Unindent",
		func(i ssa.Instruction) bool {
			return methodCallNamed(i, cmdutilsPkg, "SequenceDiagramWriter", "Indent")
		},
		func(i ssa.Instruction) bool {
			return methodCallNamed(i, cmdutilsPkg, "SequenceDiagramWriter", "Unindent")
		})
	// Activated → call of the returned closure
	n2 := 0
	for _, f := range vis {
		eachInstr(f, func(_ *ssa.BasicBlock, i ssa.Instruction) {
			call, ok := i.(*ssa.Call)
			if !ok || !callIs(call, cmdutilsPkg, "SequenceDiagramWriter.Activated") {
				return
			}
			n2++
			key := fmt.Sprintf("%s|Activated/deactivate", fnName(f))
			closeFn := func(x ssa.Instruction) bool {
				cl, ok := x.(*ssa.Call)
				if !ok {
					return false
				}
				return unspill(cl.Call.Value) == ssa.Value(call) || cl.Call.Value == ssa.Value(call)
			}
			if ret, bad := reachAvoiding(call, isSuccessReturn, closeFn); bad {
				c.Flagf("PAIRING", key, p.pos(call.Pos()), "a success path reaches the return at %s without calling the deactivation closure returned by Activated: the participant stays activated in the diagram", p.pos(ret.Pos()))
			} else {
				c.Okf("PAIRING", key, p.pos(call.Pos()), "every success path from Activated calls the returned deactivation closure")
			}
		})
	}
	c.Counts["indent_sites"] = n1
	c.Counts["activated_sites"] = n2
	if n1 < 2 || n2 < 1 {
		c.Undecidedf("PAIRING", "sites", "-", "expected ≥2 Indent sites and ≥1 Activated site in the visitor, found %d/%d", n1, n2)
	}
	// a direct Deactivate in the visitor closes an activation the same function
	// opened: on every path to it an Activate of the same participant precedes
	// (must-analysis). A Deactivate that can run without it closes the activation
	// of a participant that is still executing — the endpoint already in progress.
	nd := 0
	for _, f := range vis {
		isAct := func(i ssa.Instruction) bool {
			return methodCallNamed(i, cmdutilsPkg, "SequenceDiagramWriter", "Activate")
		}
		isDeact := func(i ssa.Instruction) bool {
			return methodCallNamed(i, cmdutilsPkg, "SequenceDiagramWriter", "Deactivate")
		}
		hs := mustHold(f, isAct, isDeact)
		k := 0
		eachInstr(f, func(_ *ssa.BasicBlock, i ssa.Instruction) {
			if !isDeact(i) {
				return
			}
			nd++
			k++
			key := fmt.Sprintf("%s|Deactivate#%d closes an activation opened here", fnName(f), k)
			paired := hs.At(i)
			if !paired {
				// guarded by a flag that is set where the Activate is made: no feasible
				// path reaches the Deactivate without passing an Activate
				target := i
				paired = !feasibleReach(f, nil, nil, func(j ssa.Instruction) bool { return j == target }, isAct)
			}
			c.Cond(paired, "PAIRING", key, p.pos(i.Pos()),
				"every path to this Deactivate passes an Activate in the same function",
				"a path reaches this Deactivate without an Activate in the same function: it closes the activation of a participant that is still running (the endpoint in progress), which then sends its remaining calls while inactive and is never deactivated at its return")
		})
	}
	c.Counts["direct_deactivate_sites"] = nd
	// the Activated closure deactivates at most once: its flag is cleared before Deactivate
	for _, f := range p.RepoFuncs() {
		if f.Parent() != nil && fnName(f.Parent()) == "(*pkg/cmdutils.SequenceDiagramWriter).Activated" {
			okOnce := false
			eachInstr(f, func(_ *ssa.BasicBlock, i ssa.Instruction) {
				if st, ok := i.(*ssa.Store); ok {
					if _, isFV := st.Addr.(*ssa.FreeVar); isFV {
						if cv, ok := st.Val.(*ssa.Const); ok && cv.Value != nil && cv.Value.String() == "false" {
							// and a Deactivate call follows in the same block
							for _, j := range st.Block().Instrs {
								if methodCallNamed(j, cmdutilsPkg, "SequenceDiagramWriter", "Deactivate") {
									okOnce = true
								}
							}
						}
					}
				}
			})
			c.Cond(okOnce, "PAIRING", fnName(f)+"|deactivates at most once", p.pos(f.Pos()),
				"the closure clears its flag when it deactivates, so a second call is a no-op",
				"the deactivation closure no longer clears its flag: calling it twice emits two deactivations")
		}
	}
	// block close: callers of the block helper write "end" on success paths
	var blockHelper *ssa.Function
	for _, f := range vis {
		if f.Name() == "visitBlockStmt" {
			blockHelper = f
		}
	}
	if blockHelper == nil {
		// by role: the one visitor function that both indents and unindents
		var cands []*ssa.Function
		for _, f := range vis {
			in, un := false, false
			eachInstr(f, func(_ *ssa.BasicBlock, i ssa.Instruction) {
				if methodCallNamed(i, cmdutilsPkg, "SequenceDiagramWriter", "Indent") {
					in = true
				}
				if methodCallNamed(i, cmdutilsPkg, "SequenceDiagramWriter", "Unindent") {
					un = true
				}
			})
			// … and is handed the statements of the block
			takesStmts := false
			for _, prm := range f.Params {
				if sl, ok := prm.Type().Underlying().(*types.Slice); ok && typeIs(sl.Elem(), syslPkg, "Statement") {
					takesStmts = true
				}
			}
			if in && un && takesStmts && f.Parent() == nil {
				cands = append(cands, f)
			}
		}
		if len(cands) == 1 {
			blockHelper = cands[0]
		}
	}
	if blockHelper == nil {
		c.Undecidedf("BLOCK-CLOSE", "visitBlockStmt", "-", "block-opening helper not found")
	} else {
		n := 0
		for _, f := range vis {
			if f == blockHelper {
				continue
			}
			calls := false
			eachCall(f, func(cl ssa.CallInstruction) {
				if staticCallee(cl) == blockHelper {
					calls = true
				}
			})
			if !calls {
				continue
			}
			n++
			// every return that is not the propagation of the helper's error is preceded by a write of "end"
			endWrite := func(x ssa.Instruction) bool {
				cl, ok := x.(ssa.CallInstruction)
				if !ok {
					return false
				}
				o := calleeObj(cl)
				if o == nil || o.Pkg() == nil || o.Pkg().Path() != "fmt" || !strings.HasPrefix(o.Name(), "Fprint") {
					return false
				}
				found := false
				for _, a := range cl.Common().Args {
					derives(a, func(v ssa.Value) bool {
						if s, ok := constString(v); ok && strings.HasPrefix(strings.TrimSpace(s), "end") {
							found = true
							return true
						}
						return false
					}, nil)
				}
				return found
			}
			bad := ""
			eachCall(f, func(cl ssa.CallInstruction) {
				if staticCallee(cl) != blockHelper {
					return
				}
				call, _ := cl.(*ssa.Call)
				if ret, escapes := reachAvoiding(cl, func(x ssa.Instruction) bool {
					r, ok := x.(*ssa.Return)
					if !ok {
						return false
					}
					// the error-propagation return of this very call is not a success path
					if call != nil && len(r.Results) == 1 && r.Results[0] == ssa.Value(call) {
						// `return err` directly after `if err := helper(); err != nil`
						return !failureBranchOf(call, r)
					}
					return true
				}, endWrite); escapes {
					bad = fmt.Sprintf("the return at %s is reachable from the block opened at %s without writing `end`", p.pos(ret.Pos()), p.pos(cl.Pos()))
				}
			})
			c.Cond(bad == "", "BLOCK-CLOSE", fnName(f)+"|opened block is closed", p.pos(f.Pos()),
				"every success path after opening a block writes the closing `end`", bad)
		}
		if n < 2 {
			c.Undecidedf("BLOCK-CLOSE", "openers", "-", "expected ≥2 functions that open blocks, found %d", n)
		}
	}
	// an error of a nested visit ends the diagram with that error: it is returned,
	// not logged and skipped with what was drawn so far left in the output
	c.Counts["visitor_error_calls"] = errFlow(c, "ERR-FLOW", vis, true)
	// statement kinds
	runStmtKinds(c, "STMT-KINDS", "sequence visitor", vis)
	// participants: head written from a sorted slice (the MAP-ORDER rule covers the loop; here: WriteHead only in one function)
	var heads []string
	for _, f := range p.RepoFuncs() {
		eachCall(f, func(cl ssa.CallInstruction) {
			if callIs(cl, cmdutilsPkg, "SequenceDiagramWriter.WriteHead") {
				heads = append(heads, fnName(f))
			}
		})
	}
	one := len(heads) >= 1
	for _, h := range heads {
		if h != heads[0] {
			one = false
		}
	}
	c.Cond(one, "PARTICIPANTS", "declared in one place", "-", fmt.Sprintf("participants are written to the diagram head only by %v", heads), fmt.Sprintf("participant declarations are written from several places: %v", heads))
}

// failureBranchOf: ret lies in the region entered only when call's error result is non-nil.
func failureBranchOf(call *ssa.Call, ret *ssa.Return) bool {
	for _, r := range *call.Referrers() {
		bin, ok := r.(*ssa.BinOp)
		if !ok || (bin.Op != token.NEQ && bin.Op != token.EQL) || !(isNilConst(bin.X) || isNilConst(bin.Y)) {
			continue
		}
		for _, br := range branchesOn(bin) {
			fail := br.TrueSucc
			if bin.Op == token.EQL {
				fail = br.FalseSucc
			}
			if fail == ret.Block() || fail.Dominates(ret.Block()) {
				return true
			}
		}
	}
	return false
}

func checkC14(c *Check) {
	p := c.P
	c.Explanation = "C14 (structural clauses): the pass-through walk of the integration builder is guarded by an in-progress set (test, insert, deferred removal), so pass-through applications that call each other in a cycle terminate; ProcessCalls has a case for every producible statement kind and hands on the nested statements of every block kind; in each call handler passed to ProcessCalls every AddCall and every append to the final application list is reached only after a negative test of the exclude set (or a positive test of a set whose members passed it); application and endpoint names are iterated from sorted slices; no explicit panic, unchecked by-name look-up or unguarded recursion is reachable from GenerateIntegrations. Soundness and completeness of the arrows against the model are not decided."
	entries := funcsNamed(c, "pkg/integrationdiagram.GenerateIntegrations")
	if len(entries) < 1 {
		return
	}
	runGenEngines(c, genOpts{entries: entries, order: true, guard: true, deref: true, rec: true, modelRO: true})
	var pc []*ssa.Function
	if f := p.FuncByName("pkg/integrationdiagram.ProcessCalls"); f != nil {
		pc = withClosures(f)
	}
	runStmtKinds(c, "STMT-KINDS", "ProcessCalls", pc)
	// guard before effect in the handlers
	// walkers: ProcessCalls and every repository function that forwards one of its
	// own parameters to a walker's handler slot (a helper such as walkEndpoints);
	// for each walker the positions of the handler and of the application name.
	type slots struct{ handler, app int }
	walkers := map[*ssa.Function]slots{}
	if pcf := p.FuncByName("pkg/integrationdiagram.ProcessCalls"); pcf != nil && len(pcf.Params) >= 4 {
		walkers[pcf] = slots{handler: 3, app: 0}
	}
	for changed, round := true, 0; changed && round < 4; round++ {
		changed = false
		for _, f := range p.RepoFuncs() {
			if _, done := walkers[f]; done || fnPkgPath(f) != repoMod+"/pkg/integrationdiagram" {
				continue
			}
			eachCall(f, func(cl ssa.CallInstruction) {
				w, ok := walkers[normFn(p, staticCallee(cl))]
				if !ok {
					return
				}
				ops := opsOf(cl)
				if w.handler >= len(ops) || w.app >= len(ops) {
					return
				}
				hp, isH := unspill(ops[w.handler]).(*ssa.Parameter)
				ap, isA := unspill(ops[w.app]).(*ssa.Parameter)
				if !isH {
					return
				}
				sl := slots{handler: paramIndex(f, hp), app: -1}
				if isA {
					sl.app = paramIndex(f, ap)
				}
				if sl.handler >= 0 {
					walkers[f] = sl
					changed = true
				}
			})
		}
	}
	isWalkerCall := func(cl ssa.CallInstruction) (slots, bool) {
		sc := staticCallee(cl)
		if sc == nil {
			return slots{}, false
		}
		w, ok := walkers[normFn(p, sc)]
		return w, ok
	}
	handlers := map[*ssa.Function]bool{}
	for _, f := range p.RepoFuncs() {
		eachCall(f, func(cl ssa.CallInstruction) {
			if _, ok := isWalkerCall(cl); !ok {
				return
			}
			for _, a := range opsOf(cl) {
				if fn, ok := stripFuncValue(a); ok {
					handlers[normFn(p, fn)] = true
				}
				if mc, ok := a.(*ssa.MakeClosure); ok {
					if fn, ok := mc.Fn.(*ssa.Function); ok {
						handlers[normFn(p, fn)] = true
					}
				}
			}
		})
	}
	// handlers invoked for applications that were not admitted yet (the loop over all applications)
	untrusted := map[*ssa.Function]bool{}
	for _, f := range p.RepoFuncs() {
		eachCall(f, func(cl ssa.CallInstruction) {
			w, ok := isWalkerCall(cl)
			if !ok || w.app < 0 || w.app >= len(opsOf(cl)) {
				return
			}
			appArg := opsOf(cl)[w.app]
			admitted := derives(appArg, func(v ssa.Value) bool {
				_, fld, _, ok := loadedField(v)
				return ok && (fld == "SeedApps" || fld == "FinalApps" || fld == "SeedAppsMap" || fld == "FinalAppsMap")
			}, nil)
			if _, isParam := unspill(appArg).(*ssa.Parameter); isParam {
				admitted = true // forwarded by the recursive descent / pass-through walk
			}
			if admitted {
				return
			}
			for _, a := range opsOf(cl) {
				if fn, ok := stripFuncValue(a); ok {
					untrusted[normFn(p, fn)] = true
				}
			}
		})
	}
	c.Counts["call_handlers"] = len(handlers)
	if len(handlers) < 3 {
		c.Undecidedf("EXCLUDE-GUARD", "handlers", "-", "expected ≥3 call handlers passed to ProcessCalls, found %d", len(handlers))
	}
	for h := range handlers {
		// membership tests in h: Contains calls on receiver sets; classify by field name
		type test struct {
			field string
			val   ssa.Value
		}
		var tests []test
		helperArg := map[*ssa.Call]ssa.Value{}
		eachInstr(h, func(_ *ssa.BasicBlock, i ssa.Instruction) {
			cl, ok := i.(*ssa.Call)
			if !ok {
				return
			}
			if o := calleeObj(cl); o == nil || o.Name() != "Contains" {
				// a predicate helper that is exactly a membership test of a set field
				if hp := staticCallee(cl); hp != nil && isRepoFn(hp) {
					if fld, pi, ok := exactMembership(hp); ok && pi < len(cl.Call.Args) {
						tests = append(tests, test{fld, cl})
						helperArg[cl] = cl.Call.Args[pi]
					}
				}
				return
			}
			ops := opsOf(cl)
			if len(ops) == 0 {
				return
			}
			if _, fld, _, ok := loadedField(ops[0]); ok {
				tests = append(tests, test{fld, cl})
			}
		})
		// argument of a membership test
		argOf := func(v ssa.Value) ssa.Value {
			if cl, ok := v.(*ssa.Call); ok {
				if a, ok := helperArg[cl]; ok {
					return a
				}
				ops := opsOf(cl)
				if len(ops) >= 2 {
					return ops[1]
				}
			}
			return nil
		}
		// an untrusted source application must itself be tested against the exclude set
		if untrusted[h] && len(h.Params) >= 2 {
			src := h.Params[len(h.Params)-3] // (recv?, sourceApp, epname, stmt)
			okSrc := false
			var firstEffect ssa.Instruction
			eachInstr(h, func(_ *ssa.BasicBlock, i ssa.Instruction) {
				if cl, ok := i.(ssa.CallInstruction); ok {
					if sc := staticCallee(cl); sc != nil && sc.Name() == "AddCall" && firstEffect == nil {
						firstEffect = i
					}
				}
			})
			for _, t := range tests {
				if strings.Contains(strings.ToLower(t.field), "exclude") && argOf(t.val) == ssa.Value(src) && firstEffect != nil {
					for _, br := range branchesOn(t.val) {
						if !blockReaches(br.TrueSucc, firstEffect.Block(), nil) && blockReaches(br.FalseSucc, firstEffect.Block(), nil) {
							okSrc = true
						}
					}
				}
			}
			c.Cond(okSrc, "EXCLUDE-GUARD", fmt.Sprintf("%s|source application tested", fnName(h)), p.pos(h.Pos()),
				"the handler is invoked for every application of the model and tests its source application against the exclude set before drawing",
				"the handler is invoked for every application of the model but does not test its source application against the exclude set: excluded callers are drawn")
		}
		guardedAt := func(ins ssa.Instruction) (bool, string) {
			for _, t := range tests {
				for _, br := range branchesOn(t.val) {
					in, out := br.TrueSucc, br.FalseSucc
					switch {
					case strings.Contains(strings.ToLower(t.field), "exclude"):
						// effect must be unreachable from the "contains" outcome
						if !blockReaches(in, ins.Block(), nil) && blockReaches(out, ins.Block(), nil) {
							return true, "negative test of " + t.field
						}
					case strings.HasSuffix(t.field, "AppsMap"):
						// effect only on the "contains" outcome of a set built from admitted applications
						if blockReaches(in, ins.Block(), nil) && !blockReaches(out, ins.Block(), nil) {
							return true, "positive test of " + t.field
						}
					}
				}
			}
			return false, ""
		}
		eachInstr(h, func(_ *ssa.BasicBlock, i ssa.Instruction) {
			what := ""
			switch x := i.(type) {
			case ssa.CallInstruction:
				if sc := staticCallee(x); sc != nil && sc.Name() == "AddCall" {
					what = "AddCall"
				}
			case *ssa.Store:
				if _, fld, _, ok := fieldOfAddr(x.Addr); ok && fld == "FinalApps" && appendCall(x.Val) != nil {
					what = "append to FinalApps"
				}
			}
			if what == "" {
				return
			}
			ok, by := guardedAt(i)
			c.Cond(ok, "EXCLUDE-GUARD", fmt.Sprintf("%s|%s", fnName(h), what), p.pos(i.Pos()),
				"reached only after a "+by,
				fmt.Sprintf("%s is reachable without a negative test of the exclude set (or a positive test of an admitted-applications set): excluded applications can be drawn", what))
		})
	}
}

// exactMembership: h is a bool predicate that is exactly "the set held in field
// F of the receiver contains parameter k": every return gives the result of
// that Contains call, the constant false, or the constant true on a path taken
// only when the Contains call was true. A helper with any other way to answer
// true tests something wider than membership and is not accepted as the guard.
func exactMembership(h *ssa.Function) (string, int, bool) {
	if len(h.Blocks) == 0 || h.Signature.Results().Len() != 1 || !isBoolType(h.Signature.Results().At(0).Type()) {
		return "", 0, false
	}
	var contains *ssa.Call
	field, pidx := "", -1
	eachInstr(h, func(_ *ssa.BasicBlock, i ssa.Instruction) {
		cl, ok := i.(*ssa.Call)
		if !ok || contains != nil {
			return
		}
		o := calleeObj(cl)
		if o == nil || o.Name() != "Contains" {
			return
		}
		ops := opsOf(cl)
		if len(ops) < 2 {
			return
		}
		_, fld, _, ok := loadedField(ops[0])
		if !ok {
			return
		}
		for k, prm := range h.Params {
			if unspill(ops[1]) == ssa.Value(prm) {
				contains, field, pidx = cl, fld, k
			}
		}
	})
	if contains == nil {
		return "", 0, false
	}
	onTrue := map[*ssa.BasicBlock]bool{}
	for _, br := range branchesOn(contains) {
		for _, b := range h.Blocks {
			if (b == br.TrueSucc || br.TrueSucc.Dominates(b)) && len(br.TrueSucc.Preds) == 1 {
				onTrue[b] = true
			}
		}
	}
	for _, b := range h.Blocks {
		ret, ok := b.Instrs[len(b.Instrs)-1].(*ssa.Return)
		if !ok || b == h.Recover {
			continue
		}
		v := retVal(ret, 0)
		var leaves []ssa.Value
		var preds []*ssa.BasicBlock
		if ph, isPhi := v.(*ssa.Phi); isPhi {
			leaves, preds = ph.Edges, ph.Block().Preds
		} else {
			leaves, preds = []ssa.Value{v}, []*ssa.BasicBlock{b}
		}
		for k, lv := range leaves {
			switch {
			case lv == ssa.Value(contains):
			case isConstBool(lv, false):
			case isConstBool(lv, true) && onTrue[preds[k]]:
			default:
				return "", 0, false
			}
		}
	}
	return field, pidx, true
}

func isConstBool(v ssa.Value, want bool) bool {
	cv, ok := v.(*ssa.Const)
	if !ok || cv.Value == nil || !isBoolType(cv.Type()) {
		return false
	}
	return (cv.Value.String() == "true") == want
}
