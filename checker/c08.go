package main

import (
	"fmt"
	"go/token"
	"go/types"
	"strings"

	"golang.org/x/tools/go/ssa"
)

func init() { register("C08", LoadTyped, checkC08) }

const syslPkg = repoMod + "/pkg/sysl"

func isListenerCallback(f *ssa.Function) bool {
	if f.Parent() != nil || f.Signature.Recv() == nil {
		return false
	}
	if !typeIs(f.Signature.Recv().Type(), repoMod+"/pkg/parse", "TreeShapeListener") {
		return false
	}
	if !(strings.HasPrefix(f.Name(), "Enter") || strings.HasPrefix(f.Name(), "Exit")) {
		return false
	}
	return f.Signature.Params().Len() == 1
}

func checkC08(c *Check) {
	p := c.P
	c.Explanation = "C08 (structural clauses): the start of a recorded location is written only inside the location constructor (found by role: the pkg/parse function that builds a SourceContext from two ANTLR tokens); there Start.Line is the start token's line minus one and Start.Col its column unchanged; every listener callback that records a location derives it from its own rule context (or tokens of it), never from a parent, and child contexts only at the sites frozen as exceptions; every callback that does look-up-or-create on a keyed element appends a location on the found branch too; in the per-file loop the file stamp of the listener is assigned from that iteration's file name before the walk. Says nothing about positions being the right numbers."
	c.Assumptions = append(c.Assumptions, "ANTLR tokens report 1-based lines and 0-based columns")
	sourceTextIntact(c, "TEXT-INTACT")
	walkEveryFile(c, "WALK-EVERY-FILE")
	c.Counts["constant_trim_cutsets"] = pathCutsets(c, "PATH-CUTSET", func(pk string) bool {
		return pk == repoMod+"/pkg/parse" || pk == repoMod+"/pkg/syslutil" || pk == repoMod+"/pkg/loader" || pk == repoMod+"/pkg/mod" || pk == repoMod+"/pkg/importer"
	})
	pk := p.Pkg(parsePkg)
	if pk == nil {
		c.Undecidedf("ANCHOR", parsePkg, "-", "package not found")
		return
	}
	// constructor: function in pkg/parse returning *sysl.SourceContext with two antlr.Token params
	var ctor *ssa.Function
	for _, f := range p.RepoFuncs() {
		if fnPkgPath(f) != pk.PkgPath || f.Parent() != nil {
			continue
		}
		rs := f.Signature.Results()
		if rs.Len() != 1 || !typeIs(rs.At(0).Type(), syslPkg, "SourceContext") {
			continue
		}
		nTok := 0
		for i := 0; i < f.Signature.Params().Len(); i++ {
			if n := namedOf(f.Signature.Params().At(i).Type()); n != nil && n.Obj().Name() == "Token" {
				nTok++
			}
		}
		isCtor := false
		eachInstr(f, func(_ *ssa.BasicBlock, i ssa.Instruction) {
			if al, ok := i.(*ssa.Alloc); ok && typeIs(al.Type(), syslPkg, "SourceContext") {
				isCtor = true
			}
		})
		if nTok == 2 && isCtor {
			ctor = f
		}
	}
	if ctor == nil {
		c.Undecidedf("ANCHOR", "location constructor", "-", "no pkg/parse function builds a *sysl.SourceContext from two tokens: unresolved anchor")
		return
	}
	c.Okf("ANCHOR", "location constructor="+fnName(ctor), p.pos(ctor.Pos()), "constructor found by role")

	// (1) Start write-once
	nStores := 0
	for _, f := range p.RepoFuncs() {
		if !strings.HasPrefix(fnPkgPath(f), repoMod+"/pkg/parse") {
			continue
		}
		eachInstr(f, func(_ *ssa.BasicBlock, i ssa.Instruction) {
			st, ok := i.(*ssa.Store)
			if !ok {
				return
			}
			own, fld, base, ok := fieldOfAddr(st.Addr)
			if !ok || own == nil || own.Obj().Pkg() == nil || own.Obj().Pkg().Path() != syslPkg {
				return
			}
			isStart := false
			switch {
			case own.Obj().Name() == "SourceContext" && fld == "Start":
				isStart = true
			case own.Obj().Name() == "SourceContext_Location" && (fld == "Line" || fld == "Col"):
				// which location? the base pointer must come from a .Start field
				if derives(base, func(v ssa.Value) bool {
					_, f2, _, ok := loadedField(v)
					return ok && f2 == "Start"
				}, nil) {
					isStart = true
				}
				if f == ctor {
					// in the constructor the Location literals are fresh allocations stored into Start/End
					isStart = false
				}
			}
			if !isStart {
				return
			}
			nStores++
			c.Cond(f == ctor, "START-WRITE-ONCE", fmt.Sprintf("%s|store %s.%s", fnName(f), own.Obj().Name(), fld), p.pos(st.Pos()),
				"start position written in the location constructor",
				"the start position of a recorded location is modified outside the location constructor (only End may be adjusted later)")
		})
	}
	c.Counts["start_stores"] = nStores
	if nStores == 0 {
		c.Undecidedf("START-WRITE-ONCE", "constructor store", "-", "the constructor's own store to Start was not found: rule blind")
	}

	// (2) zero-based conversion in the constructor
	c08ZeroBased(c, ctor)
	// (3) provenance
	c08Provenance(c, ctor)
	// (4) one location per declaration
	c08PerDeclaration(c)
	// (5) file stamping
	c08FileStamp(c)
}

func c08ZeroBased(c *Check, ctor *ssa.Function) {
	p := c.P
	// find the Location allocation stored into .Start, and its Line / Col stores
	var startLoc ssa.Value
	eachInstr(ctor, func(_ *ssa.BasicBlock, i ssa.Instruction) {
		if st, ok := i.(*ssa.Store); ok {
			if own, fld, _, ok := fieldOfAddr(st.Addr); ok && own != nil && own.Obj().Name() == "SourceContext" && fld == "Start" {
				startLoc = st.Val
			}
		}
	})
	if startLoc == nil {
		c.Undecidedf("ZERO-BASED", fnName(ctor), p.pos(ctor.Pos()), "store to Start not found in the constructor")
		return
	}
	startTok := ctor.Params[len(ctor.Params)-2]
	check := func(field, getter string, minus int64) {
		var val ssa.Value
		eachInstr(ctor, func(_ *ssa.BasicBlock, i ssa.Instruction) {
			if st, ok := i.(*ssa.Store); ok {
				if _, fld, base, ok := fieldOfAddr(st.Addr); ok && fld == field && base == startLoc {
					val = st.Val
				}
			}
		})
		key := fmt.Sprintf("%s|Start.%s", fnName(ctor), field)
		if val == nil {
			c.Flagf("ZERO-BASED", key, p.pos(ctor.Pos()), "Start.%s is not assigned in the constructor", field)
			return
		}
		v := val
		if cv, ok := v.(*ssa.Convert); ok {
			v = cv.X
		}
		got := int64(0)
		if b, ok := v.(*ssa.BinOp); ok && b.Op == token.SUB {
			if k, ok := constInt(b.Y); ok {
				got = k
				v = b.X
			}
		} else if b, ok := v.(*ssa.BinOp); ok && b.Op == token.ADD {
			if k, ok := constInt(b.Y); ok {
				got = -k
				v = b.X
			}
		}
		call, ok := v.(*ssa.Call)
		good := ok && call.Call.IsInvoke() && call.Call.Method.Name() == getter && call.Call.Value == ssa.Value(startTok) && got == minus
		c.Cond(good, "ZERO-BASED", key, p.pos(val.(ssa.Instruction).Pos()),
			fmt.Sprintf("Start.%s = start.%s() − %d", field, getter, minus),
			fmt.Sprintf("Start.%s is not computed as the start token's %s() minus %d", field, getter, minus))
	}
	check("Line", "GetLine", 1)
	check("Col", "GetColumn", 0)
}

func c08Provenance(c *Check, ctor *ssa.Function) {
	p := c.P
	// helpers: listener methods that (transitively, statically) call the constructor and take a context / tokens
	helpers := map[*ssa.Function]bool{}
	for _, f := range p.RepoFuncs() {
		if fnPkgPath(f) != p.Pkg(parsePkg).PkgPath || f.Parent() != nil {
			continue
		}
		eachCall(f, func(cl ssa.CallInstruction) {
			if staticCallee(cl) == ctor && !isListenerCallback(f) {
				helpers[f] = true
			}
		})
	}
	for changed := true; changed; {
		changed = false
		for _, f := range p.RepoFuncs() {
			if helpers[f] || fnPkgPath(f) != p.Pkg(parsePkg).PkgPath || f.Parent() != nil || isListenerCallback(f) {
				continue
			}
			if !strings.HasPrefix(f.Name(), "getSrcCtx") {
				continue
			}
			eachCall(f, func(cl ssa.CallInstruction) {
				if sc := staticCallee(cl); sc != nil && helpers[sc] {
					helpers[f] = true
					changed = true
				}
			})
		}
	}
	n := 0
	for _, f := range p.RepoFuncs() {
		if !isListenerCallback(f) {
			continue
		}
		own := f.Params[1]
		eachCall(f, func(cl ssa.CallInstruction) {
			sc := staticCallee(cl)
			if sc == nil || !(helpers[sc] || sc == ctor) {
				return
			}
			n++
			args := cl.Common().Args[1:]
			// classify each context/token argument
			verdict, why := "own", ""
			for _, a := range args {
				if !isRefLike(a.Type()) {
					continue
				}
				k, w := contextOrigin(a, own)
				if k != "own" {
					verdict, why = k, w
				}
			}
			key := fmt.Sprintf("%s|location from %s", fnName(f), verdict)
			if verdict == "own" {
				c.Okf("PROVENANCE", key, p.pos(cl.Pos()), "location is built from the callback's own rule context")
			} else {
				c.Flagf("PROVENANCE", key, p.pos(cl.Pos()), "the location recorded here is not taken from the callback's own rule context: %s", why)
			}
		})
	}
	c.Counts["callback_location_sites"] = n
	if n < 60 {
		c.Undecidedf("PROVENANCE", "sites", "-", "only %d location sites found in listener callbacks", n)
	}
}

// contextOrigin: "own" when v is the callback's context parameter, its embedded
// BaseParserRuleContext, or a token obtained from it (GetStart/GetStop);
// "child" when it goes through an accessor of the context; "parent" through GetParent.
func contextOrigin(v ssa.Value, own *ssa.Parameter) (string, string) {
	kind := "own"
	why := ""
	seen := map[ssa.Value]bool{}
	var rec func(v ssa.Value, d int) bool
	rec = func(v ssa.Value, d int) bool {
		if v == nil || seen[v] || d > 20 {
			return false
		}
		seen[v] = true
		v = unspill(v)
		switch x := v.(type) {
		case *ssa.Parameter:
			return x == own
		case *ssa.MakeInterface:
			return rec(x.X, d+1)
		case *ssa.ChangeInterface:
			return rec(x.X, d+1)
		case *ssa.TypeAssert:
			return rec(x.X, d+1)
		case *ssa.UnOp:
			return rec(x.X, d+1)
		case *ssa.FieldAddr:
			return rec(x.X, d+1)
		case *ssa.Field:
			return rec(x.X, d+1)
		case *ssa.Extract:
			return rec(x.Tuple, d+1)
		case *ssa.Phi:
			ok := false
			for _, e := range x.Edges {
				if rec(e, d+1) {
					ok = true
				}
			}
			return ok
		case *ssa.Call:
			name := ""
			var recv ssa.Value
			if x.Call.IsInvoke() {
				name, recv = x.Call.Method.Name(), x.Call.Value
			} else if sc := x.Call.StaticCallee(); sc != nil && sc.Signature.Recv() != nil && len(x.Call.Args) > 0 {
				name, recv = sc.Name(), x.Call.Args[0]
			} else if sc := x.Call.StaticCallee(); sc != nil && len(x.Call.Args) == 1 {
				// helper taking the context (lastToken(ctx)): a repository function
				// from a tree node to one of its tokens stays within the context
				name, recv = sc.Name(), x.Call.Args[0]
				if isRepoFn(sc) && sc.Signature.Results().Len() == 1 {
					if rn := namedOf(sc.Signature.Results().At(0).Type()); rn != nil && rn.Obj().Name() == "Token" && rn.Obj().Pkg() != nil && strings.HasSuffix(rn.Obj().Pkg().Path(), "/antlr") {
						name = "lastToken"
					}
				}
			}
			if recv == nil {
				return false
			}
			switch {
			case name == "GetStart" || name == "GetStop" || name == "GetSymbol" || name == "lastToken" || name == "GetRuleContext" || name == "GetBaseRuleContext":
				return rec(recv, d+1)
			case name == "GetParent" || name == "GetParentCtx":
				if rec(recv, d+1) {
					kind, why = "parent", "goes through "+name+"()"
				}
				return kind == "parent"
			default:
				if rec(recv, d+1) {
					if kind == "own" {
						kind, why = "child "+name, "goes through the child accessor "+name+"()"
					}
					return true
				}
			}
		}
		return false
	}
	if !rec(v, 0) {
		return "unknown", "the context argument does not derive from the callback's parameter (listener state or another value)"
	}
	return kind, why
}

// c08PerDeclaration: look-up-or-create callbacks append a location when the
// element already exists.
func c08PerDeclaration(c *Check) {
	p := c.P
	n := 0
	for _, f := range p.RepoFuncs() {
		if !isListenerCallback(f) || !strings.HasPrefix(f.Name(), "Enter") {
			continue
		}
		// look-ups on model maps whose element type has a SourceContexts field
		eachInstr(f, func(_ *ssa.BasicBlock, i ssa.Instruction) {
			lk, ok := i.(*ssa.Lookup)
			if !ok {
				return
			}
			mt, isMap := lk.X.Type().Underlying().(*types.Map)
			if !isMap {
				return
			}
			en := namedOf(mt.Elem())
			if en == nil || en.Obj().Pkg() == nil || en.Obj().Pkg().Path() != syslPkg || !hasField(en, "SourceContexts") {
				return
			}
			// is there a creating MapUpdate on the same map in this function?
			var create *ssa.MapUpdate
			eachInstr(f, func(_ *ssa.BasicBlock, j ssa.Instruction) {
				if mu, ok := j.(*ssa.MapUpdate); ok && exprKey(mu.Map, 0) == exprKey(lk.X, 0) && exprKey(mu.Key, 0) == exprKey(lk.Index, 0) {
					create = mu
				}
			})
			if create == nil {
				return
			}
			// the creation must be control-dependent on the look-up's outcome (otherwise
			// it is replace-semantics: C04's subject)
			if !controlledByLookup(lk, create) {
				return
			}
			n++
			key := fmt.Sprintf("%s|%s re-declared", fnName(f), en.Obj().Name())
			// appends to SourceContexts in this function
			var appends []*ssa.Store
			eachInstr(f, func(_ *ssa.BasicBlock, j ssa.Instruction) {
				if st, ok := j.(*ssa.Store); ok {
					if o2, fld, _, ok := fieldOfAddr(st.Addr); ok && fld == "SourceContexts" && o2 == en && appendCall(st.Val) != nil {
						appends = append(appends, st)
					}
				}
			})
			// found branch: blocks not dominated by the creation's block; an append must be
			// reachable without passing through the creation
			// on the found path (creation not executed) every way out of the
			// callback must pass an append to SourceContexts
			isAppend := map[ssa.Instruction]bool{}
			for _, ap := range appends {
				isAppend[ap] = true
			}
			_, escapes := reachAvoiding(lk, isReturn, func(x ssa.Instruction) bool { return x == ssa.Instruction(create) || isAppend[x] })
			okFound := len(appends) > 0 && !escapes
			c.Cond(okFound, "LOCATION-PER-DECLARATION", key, p.pos(lk.Pos()),
				"when the element already exists, this declaration's location is appended to its SourceContexts",
				"a re-declared element gets no additional location: SourceContexts is only initialised on creation")
		})
	}
	c.Counts["lookup_or_create_callbacks"] = n
	if n < 4 {
		c.Undecidedf("LOCATION-PER-DECLARATION", "callbacks", "-", "only %d look-up-or-create callbacks found", n)
	}
}

func hasField(n *types.Named, name string) bool {
	st, ok := n.Underlying().(*types.Struct)
	if !ok {
		return false
	}
	for i := 0; i < st.NumFields(); i++ {
		if st.Field(i).Name() == name {
			return true
		}
	}
	return false
}

// c08FileStamp: in the per-file loop the listener's source-context helper is
// assigned from that iteration's file name and dominates the walk.
func c08FileStamp(c *Check) {
	p := c.P
	n := 0
	for _, f := range p.RepoFuncs() {
		if fnPkgPath(f) != p.Pkg(parsePkg).PkgPath || strings.HasSuffix(p.fnFile(f), "_test.go") {
			continue
		}
		root := f
		for root.Parent() != nil {
			root = root.Parent()
		}
		eachCall(f, func(cl ssa.CallInstruction) {
			o := calleeObj(cl)
			if o == nil || o.Name() != "Walk" || !strings.HasSuffix(o.Pkg().Path(), "/antlr") {
				return
			}
			n++
			key := fnName(root) + "|file stamp before walk"
			// a store to field `sc` of the listener in root (or f) whose value depends on a file name
			ok := false
			for _, g := range withClosures(root) {
				eachInstr(g, func(_ *ssa.BasicBlock, i ssa.Instruction) {
					st, isSt := i.(*ssa.Store)
					if !isSt {
						return
					}
					own, fld, _, isF := fieldOfAddr(st.Addr)
					// the listener's file stamp: whichever field of the listener is assigned
					// from the current file's name (the source-context helper)
					_ = fld
					if !isF || own == nil || own.Obj().Name() != "TreeShapeListener" {
						return
					}
					// the stamp is a record (file name, version), not a plain string such as
					// the base directory of imports
					if _, isStruct := st.Val.Type().Underlying().(*types.Struct); !isStruct {
						return
					}
					dep := derives(st.Val, func(v ssa.Value) bool {
						if _, f2, _, ok := loadedField(v); ok && fileNameFields(p)[strings.ToLower(f2)] {
							return true
						}
						// a stamp built by the caller and handed in (a parameter of the stamp's own type)
						if prm, ok := v.(*ssa.Parameter); ok && types.Identical(prm.Type(), st.Val.Type()) {
							return true
						}
						return false
					}, &deriveOpts{throughCalls: func(*ssa.Call) bool { return true }, throughBinOp: true})
					if !dep {
						return
					}
					if g == f && instrDominates(st, cl) {
						ok = true
					}
					if g != f && g == root {
						// the walk happens in a closure created after the store
						eachInstr(root, func(_ *ssa.BasicBlock, k ssa.Instruction) {
							if mc, isMC := k.(*ssa.MakeClosure); isMC && mc.Fn == ssa.Value(f) && instrDominates(st, mc) {
								ok = true
							}
						})
					}
				})
			}
			c.Cond(ok, "FILE-STAMP", key, p.pos(cl.Pos()),
				"the listener's file stamp is assigned from the current file's name on every path before the tree walk",
				"the tree walk is not preceded by an assignment of the listener's file stamp derived from the current file name: locations would carry another file's name")
		})
	}
	if n < 2 {
		c.Undecidedf("FILE-STAMP", "walks", "-", "expected two tree walks in pkg/parse, found %d", n)
	}
}

// controlledByLookup: some branch whose condition derives from the look-up has
// exactly one successor from which the creation is reachable.
func controlledByLookup(lk *ssa.Lookup, create ssa.Instruction) bool {
	var conds []ssa.Value
	seen := map[ssa.Value]bool{}
	var walk func(v ssa.Value, d int)
	walk = func(v ssa.Value, d int) {
		if d > 5 || seen[v] || v.Referrers() == nil {
			return
		}
		seen[v] = true
		for _, r := range *v.Referrers() {
			switch y := r.(type) {
			case *ssa.Extract:
				walk(y, d+1)
			case *ssa.BinOp:
				conds = append(conds, y)
				walk(y, d+1)
			case *ssa.UnOp:
				walk(y, d+1)
			case *ssa.If:
				conds = append(conds, v)
			case *ssa.Phi:
				walk(y, d+1)
			case *ssa.FieldAddr:
				walk(y, d+1) // v.Attribute == nil
			}
		}
	}
	walk(lk, 0)
	for _, cv := range conds {
		for _, br := range branchesOn(cv) {
			t := blockReaches(br.TrueSucc, create.Block(), nil)
			f := blockReaches(br.FalseSucc, create.Block(), nil)
			if t != f {
				return true
			}
		}
	}
	return false
}
