package main

import (
	"fmt"
	"go/constant"
	"go/token"
	"go/types"
	"sort"
	"strings"

	"golang.org/x/tools/go/callgraph"
	"golang.org/x/tools/go/ssa"
)

func init() { register("C18", LoadWhole, checkC18) }

const aferoPath = "github.com/spf13/afero"

type chrootInfo struct {
	T        *types.Named
	fsField  string
	rootFld  string
	join     *ssa.Function
	allow    *ssa.Function
	ctor     []*ssa.Function
	methods  []*ssa.Function
	aferoFs  *types.Interface
	aferoPkg *types.Package
}

// findChroot discovers the confining wrapper by role: a named struct type of
// pkg/syslutil that implements afero.Fs and holds a field of type afero.Fs.
func findChroot(c *Check) *chrootInfo {
	p := c.P
	pk := p.Pkg("pkg/syslutil")
	if pk == nil {
		return nil
	}
	var af *types.Package
	for _, imp := range pk.Types.Imports() {
		if imp.Path() == aferoPath {
			af = imp
		}
	}
	if af == nil {
		return nil
	}
	fsObj := af.Scope().Lookup("Fs")
	if fsObj == nil {
		return nil
	}
	fsIface, _ := fsObj.Type().Underlying().(*types.Interface)
	var cands []*chrootInfo
	sc := pk.Types.Scope()
	for _, name := range sc.Names() {
		tn, ok := sc.Lookup(name).(*types.TypeName)
		if !ok {
			continue
		}
		n, _ := tn.Type().(*types.Named)
		if n == nil {
			continue
		}
		st, _ := n.Underlying().(*types.Struct)
		if st == nil || !types.Implements(types.NewPointer(n), fsIface) {
			continue
		}
		ci := &chrootInfo{T: n, aferoFs: fsIface, aferoPkg: af}
		for i := 0; i < st.NumFields(); i++ {
			f := st.Field(i)
			if types.Identical(f.Type(), fsObj.Type()) {
				ci.fsField = f.Name()
			}
			if b, ok := f.Type().(*types.Basic); ok && b.Kind() == types.String {
				ci.rootFld = f.Name()
			}
		}
		if ci.fsField == "" || ci.rootFld == "" {
			continue
		}
		cands = append(cands, ci)
	}
	// Among candidates the confining type is the one that has a root string:
	// pick the one with a method calling filepath.Rel.
	for _, ci := range cands {
		ci.methods = p.methodsOf(ci.T)
		for _, m := range ci.methods {
			sig := m.Signature
			callsRel, callsJoin := false, false
			eachCall(m, func(cl ssa.CallInstruction) {
				if callIs(cl, "path/filepath", "Rel") {
					callsRel = true
				}
				if callIs(cl, "path/filepath", "Join") {
					callsJoin = true
				}
			})
			oneString := sig.Params().Len() == 1 && isStringType(sig.Params().At(0).Type())
			if callsRel && oneString && sig.Results().Len() == 1 && isErrorType(sig.Results().At(0).Type()) {
				ci.allow = m
			}
			// join by role: (string) -> (string, error), unexported helper
			// (a helper with the same signature that calls the join and the range test
			// is not the join: the join is the one that builds the path itself)
			if callsJoin && oneString && sig.Results().Len() == 2 && isStringType(sig.Results().At(0).Type()) && isErrorType(sig.Results().At(1).Type()) {
				ci.join = m
			}
		}
		if ci.allow != nil && ci.join != nil {
			// constructors: package functions returning *T
			sp := p.SSAPkg("pkg/syslutil")
			for _, mem := range sp.Members {
				if f, ok := mem.(*ssa.Function); ok {
					rs := f.Signature.Results()
					for i := 0; i < rs.Len(); i++ {
						if namedOf(rs.At(i).Type()) == ci.T {
							ci.ctor = append(ci.ctor, f)
						}
					}
				}
			}
			return ci
		}
	}
	return nil
}

// derivesFromWrappedFs: v is the wrapped afero.Fs (load of T.fsField) possibly
// through a type assertion.
func (ci *chrootInfo) derivesFromWrappedFs(v ssa.Value) bool {
	for i := 0; i < 6; i++ {
		switch x := v.(type) {
		case *ssa.TypeAssert:
			v = x.X
			continue
		case *ssa.Extract:
			v = x.Tuple
			continue
		case *ssa.ChangeInterface:
			v = x.X
			continue
		case *ssa.MakeInterface:
			v = x.X
			continue
		}
		break
	}
	own, fld, _, ok := loadedField(v)
	return ok && own == ci.T && fld == ci.fsField
}

func isStringType(t types.Type) bool {
	b, ok := t.Underlying().(*types.Basic)
	return ok && b.Info()&types.IsString != 0
}

// checkedAt decides whether string value v, used at instruction site, is a
// joined-and-allowed path: v is result 0 of the join function and site is
// dominated by the nil-outcome of allow(v); or v is a parameter of a closure
// that is only ever invoked with such values.
func (ci *chrootInfo) checkedAt(v ssa.Value, site ssa.Instruction, depth int) (bool, string) {
	if depth > 4 {
		return false, "funnel depth exceeded"
	}
	switch x := v.(type) {
	case *ssa.Extract:
		call, ok := x.Tuple.(*ssa.Call)
		if ok && x.Index == 0 && staticCallee(call) != ci.join {
			// a helper that joins and range-tests: every return of it that carries a
			// nil error returns a checked path; the caller must have seen that nil error
			if h := staticCallee(call); h != nil && ci.returnsCheckedPath(h, depth+1) {
				if nilOutcomeDominatesTuple(call, site) {
					return true, ""
				}
				return false, "the path comes from " + fnName(h) + " but is used without a dominating test of its error"
			}
		}
		if !ok || x.Index != 0 || staticCallee(call) != ci.join {
			return false, "value is not the result of the join function " + fnName(ci.join)
		}
		// look for allow(v) whose nil outcome dominates site
		for _, ref := range *v.Referrers() {
			ac, ok := ref.(*ssa.Call)
			if !ok || staticCallee(ac) != ci.allow {
				continue
			}
			if nilOutcomeDominates(ac, site) {
				return true, ""
			}
		}
		return false, "joined path is used without a dominating successful range test " + fnName(ci.allow) + "(path)"
	case *ssa.Parameter:
		fn := x.Parent()
		idx := -1
		for i, p := range fn.Params {
			if p == x {
				idx = i
			}
		}
		if fn.Parent() == nil || idx < 0 {
			return false, "path is a raw parameter of " + fnName(fn) + " (not joined, not range-tested)"
		}
		// fn is a closure: every MakeClosure of it must flow only into a
		// callee parameter that is invoked with checked values.
		outer := fn.Parent()
		found := 0
		for _, b := range outer.Blocks {
			for _, ins := range b.Instrs {
				mc, ok := ins.(*ssa.MakeClosure)
				if !ok || mc.Fn != fn {
					continue
				}
				found++
				for _, ref := range *mc.Referrers() {
					call, ok := ref.(ssa.CallInstruction)
					if !ok {
						return false, "closure escapes through a non-call use"
					}
					callee := staticCallee(call)
					if callee == nil || len(callee.Blocks) == 0 {
						return false, "closure passed to an unknown callee"
					}
					// which argument position(s)?
					for ai, a := range call.Common().Args {
						if a != mc {
							continue
						}
						pi := ai
						if call.Common().Signature().Recv() != nil && !call.Common().IsInvoke() {
							// static method call: Args[0] is the receiver, Params[0] too.
						}
						if pi >= len(callee.Params) {
							return false, "argument/parameter mismatch"
						}
						okk, why := ci.funcParamCalledWithChecked(callee, callee.Params[pi], idx, depth+1)
						if !okk {
							return false, why
						}
					}
				}
			}
		}
		if found == 0 {
			return false, "closure creation not found"
		}
		return true, ""
	case *ssa.FreeVar:
		// resolve the binding in the enclosing function
		fn := x.Parent()
		outer := fn.Parent()
		idx := -1
		for i, fv := range fn.FreeVars {
			if fv == x {
				idx = i
			}
		}
		if outer == nil || idx < 0 {
			return false, "unresolved free variable"
		}
		return false, "path captured from the enclosing function (captured paths are not range-tested by the funnel)"
	case *ssa.UnOp:
		if x.Op == token.MUL {
			return false, "path loaded from memory (" + x.X.Name() + "), not a funnelled value"
		}
	}
	return false, fmt.Sprintf("path value %s (%T) is not produced by the funnel", v.Name(), v)
}

// funcParamCalledWithChecked: in callee, parameter fp (a func value) is used
// only as the callee of calls whose argument argIdx is checked.
func (ci *chrootInfo) funcParamCalledWithChecked(callee *ssa.Function, fp *ssa.Parameter, argIdx, depth int) (bool, string) {
	refs := fp.Referrers()
	if refs == nil || len(*refs) == 0 {
		return true, ""
	}
	for _, ref := range *refs {
		call, ok := ref.(ssa.CallInstruction)
		if !ok || call.Common().Value != fp {
			if _, isDbg := ref.(*ssa.DebugRef); isDbg {
				continue
			}
			// captured by an inner closure (the parameter is spilled to a cell whose
			// address the closure binds): every call of it inside that closure must
			// pass a checked path, and the closure itself must be dispatched by a
			// helper that calls it with checked paths
			if st, isStore := ref.(*ssa.Store); isStore && st.Val == ssa.Value(fp) {
				if ok2, why := ci.capturedCallbackChecked(callee, st.Addr, argIdx, depth+1); ok2 {
					continue
				} else if why != "" {
					return false, why
				}
			}
			return false, fmt.Sprintf("in %s the operation callback is stored or forwarded, not called directly", fnName(callee))
		}
		if argIdx >= len(call.Common().Args) {
			return false, "callback arity mismatch"
		}
		ok2, why := ci.checkedAt(call.Common().Args[argIdx], call, depth)
		if !ok2 {
			return false, fmt.Sprintf("in %s: %s", fnName(callee), why)
		}
	}
	return true, ""
}

// capturedCallbackChecked: cell holds a callback parameter of outer; it is only
// bound into closures created in outer, and inside them only loaded and called
// with a checked path at argIdx.
func (ci *chrootInfo) capturedCallbackChecked(outer *ssa.Function, cell ssa.Value, argIdx, depth int) (bool, string) {
	al, ok := cell.(*ssa.Alloc)
	if !ok || al.Referrers() == nil || depth > 5 {
		return false, ""
	}
	n := 0
	for _, r := range *al.Referrers() {
		switch x := r.(type) {
		case *ssa.Store, *ssa.DebugRef:
		case *ssa.UnOp:
			// called directly in outer after the spill
			for _, r2 := range *x.Referrers() {
				call, ok := r2.(ssa.CallInstruction)
				if !ok || call.Common().Value != ssa.Value(x) || argIdx >= len(call.Common().Args) {
					return false, fmt.Sprintf("in %s the operation callback is stored or forwarded, not called directly", fnName(outer))
				}
				if ok2, why := ci.checkedAt(call.Common().Args[argIdx], call, depth); !ok2 {
					return false, fmt.Sprintf("in %s: %s", fnName(outer), why)
				}
				n++
			}
		case *ssa.MakeClosure:
			inner, _ := x.Fn.(*ssa.Function)
			if inner == nil {
				return false, ""
			}
			for k, b := range x.Bindings {
				if b != ssa.Value(al) || k >= len(inner.FreeVars) {
					continue
				}
				fv := inner.FreeVars[k]
				if fv.Referrers() == nil {
					continue
				}
				for _, r2 := range *fv.Referrers() {
					ld, ok := r2.(*ssa.UnOp)
					if !ok {
						if _, isDbg := r2.(*ssa.DebugRef); isDbg {
							continue
						}
						return false, fmt.Sprintf("in %s the captured operation callback is stored or overwritten", fnName(inner))
					}
					for _, r3 := range *ld.Referrers() {
						call, ok := r3.(ssa.CallInstruction)
						if !ok || call.Common().Value != ssa.Value(ld) || argIdx >= len(call.Common().Args) {
							return false, fmt.Sprintf("in %s the captured operation callback is forwarded, not called directly", fnName(inner))
						}
						if ok2, why := ci.checkedAt(call.Common().Args[argIdx], call, depth); !ok2 {
							return false, fmt.Sprintf("in %s: %s", fnName(inner), why)
						}
						n++
					}
				}
			}
		default:
			return false, ""
		}
	}
	return n > 0, ""
}

// nilOutcomeDominates: call returns an error e; site is only reachable when
// e == nil was observed.
func nilOutcomeDominates(call *ssa.Call, site ssa.Instruction) bool {
	for _, ref := range *call.Referrers() {
		bin, ok := ref.(*ssa.BinOp)
		if !ok || (bin.Op != token.NEQ && bin.Op != token.EQL) {
			continue
		}
		if !(isNilConst(bin.X) || isNilConst(bin.Y)) {
			continue
		}
		for _, r2 := range *bin.Referrers() {
			iff, ok := r2.(*ssa.If)
			if !ok {
				continue
			}
			blk := iff.Block()
			var nilSucc *ssa.BasicBlock
			if bin.Op == token.NEQ {
				nilSucc = blk.Succs[1]
			} else {
				nilSucc = blk.Succs[0]
			}
			other := blk.Succs[0]
			if other == nilSucc {
				other = blk.Succs[1]
			}
			if nilSucc == other {
				continue
			}
			// nilSucc must be entered only from this test
			if len(nilSucc.Preds) != 1 {
				continue
			}
			if nilSucc == site.Block() || nilSucc.Dominates(site.Block()) {
				return true
			}
		}
	}
	return false
}

func checkC18(c *Check) {
	p := c.P
	c.Explanation = "C18 (structural clause): every path string handed to the wrapped afero.Fs by the confining filesystem type is the result of its join function and has passed its range test on every path to the call (SSA dominance, closures followed to their unique dispatch helper); the type implements afero.Fs without promoted methods; join and range test have the documented shape; pkg/loader hands the parser only the confining filesystem; no OS-level file API is called from repository code reachable from (*parse.Parser).Parse in the whole-program VTA call graph. Decides that the lexical test is applied to every path, not that filepath.Rel/Clean are correct."
	c.Assumptions = append(c.Assumptions,
		"filepath.Abs/Join/Rel/Clean behave as documented (trusted)",
		"reflection and unsafe create no calls on the wrapped filesystem",
		"side-door rule reports only call sites located in repository functions; file access inside dependencies reached through the reader.Reader given to Parse is the reader's contract")
	ci := findChroot(c)
	if ci == nil {
		c.Undecidedf("CHROOT-TYPE", "pkg/syslutil", "-", "no type in pkg/syslutil implements afero.Fs with an afero.Fs field, a join method and a filepath.Rel range test: unresolved anchor")
		return
	}
	c.Okf("CHROOT-TYPE", "pkg/syslutil."+ci.T.Obj().Name(), p.pos(ci.T.Obj().Pos()),
		"confining type %s (wrapped fs field %q, root field %q), join=%s allow=%s", ci.T.Obj().Name(), ci.fsField, ci.rootFld, fnName(ci.join), fnName(ci.allow))

	c18LocalImportMark(c)

	c.Counts["constant_trim_cutsets"] = pathCutsets(c, "PATH-CUTSET", func(pk string) bool {
		return pk == repoMod+"/pkg/parse" || pk == repoMod+"/pkg/syslutil" || pk == repoMod+"/pkg/loader" || pk == repoMod+"/pkg/mod" || pk == repoMod+"/cmd/sysl" || pk == repoMod+"/pkg/pbutil"
	})

	// --- rule 1: funnel
	var scope []*ssa.Function
	for _, m := range ci.methods {
		scope = append(scope, withClosures(m)...)
	}
	for _, f := range ci.ctor {
		scope = append(scope, withClosures(f)...)
	}
	// plus every other function of the package that touches the wrapped field
	sp := p.SSAPkg("pkg/syslutil")
	inScope := map[*ssa.Function]bool{}
	for _, f := range scope {
		inScope[f] = true
	}
	for _, f := range p.RepoFuncs() {
		if inScope[f] || fnPkgPath(f) != sp.Pkg.Path() {
			continue
		}
		touches := false
		eachInstr(f, func(_ *ssa.BasicBlock, i ssa.Instruction) {
			if fa, ok := i.(*ssa.FieldAddr); ok {
				if own, fld, _, ok := fieldOfAddr(fa); ok && own == ci.T && fld == ci.fsField {
					touches = true
				}
			}
		})
		if touches {
			scope = append(scope, f)
		}
	}
	c.Counts["funnel_scope_functions"] = len(scope)
	nPathArgs := 0
	for _, f := range scope {
		eachCall(f, func(cl ssa.CallInstruction) {
			cc := cl.Common()
			onWrapped := false
			if cc.IsInvoke() && ci.derivesFromWrappedFs(cc.Value) {
				onWrapped = true
			}
			if !onWrapped {
				for _, a := range cc.Args {
					if ci.derivesFromWrappedFs(a) {
						onWrapped = true
					}
				}
			}
			if !onWrapped {
				return
			}
			callee := "?"
			if o := calleeObj(cl); o != nil {
				callee = objLocalName(o)
			}
			// type-only helper (cleanPathForMemFs(fs.fs, p)) – a call to a
			// function of the same package that never calls its fs argument
			if sc := staticCallee(cl); sc != nil && fnPkgPath(sc) == sp.Pkg.Path() {
				usesFs := false
				for _, prm := range sc.Params {
					if types.Identical(prm.Type(), ci.T.Underlying().(*types.Struct).Field(0).Type()) || typeIs(prm.Type(), aferoPath, "Fs") {
						for _, r := range *prm.Referrers() {
							switch rr := r.(type) {
							case *ssa.TypeAssert, *ssa.DebugRef:
							case ssa.CallInstruction:
								_ = rr
								usesFs = true
							default:
								usesFs = true
							}
						}
					}
				}
				if !usesFs {
					return
				}
			}
			ord := 0
			for ai, a := range cc.Args {
				if !isStringType(a.Type()) {
					continue
				}
				ord++
				nPathArgs++
				key := fmt.Sprintf("%s|%s arg%d", fnName(f), callee, ai)
				ok, why := ci.checkedAt(a, cl, 0)
				if ok {
					c.Okf("FUNNEL", key, p.pos(cl.Pos()), "path argument is join()ed and range-tested on every path to the call")
				} else {
					c.Flagf("FUNNEL", key, p.pos(cl.Pos()), "path argument %d of %s reaches the wrapped filesystem unchecked: %s", ai, callee, why)
				}
			}
		})
	}
	c.Counts["wrapped_fs_path_arguments"] = nPathArgs

	// --- rule 2: interface coverage
	ms := types.NewMethodSet(types.NewPointer(ci.T))
	for i := 0; i < ci.aferoFs.NumMethods(); i++ {
		m := ci.aferoFs.Method(i)
		sel := ms.Lookup(m.Pkg(), m.Name())
		key := ci.T.Obj().Name() + "." + m.Name()
		if sel == nil {
			c.Flagf("IFACE", key, "-", "method missing")
			continue
		}
		if len(sel.Index()) != 1 {
			c.Flagf("IFACE", key, p.pos(sel.Obj().Pos()), "afero.Fs method %s is promoted from an embedded field: it bypasses the funnel", m.Name())
			continue
		}
		c.Okf("IFACE", key, p.pos(sel.Obj().Pos()), "declared on the confining type itself")
	}
	// embedded fields at all?
	st := ci.T.Underlying().(*types.Struct)
	for i := 0; i < st.NumFields(); i++ {
		if st.Field(i).Embedded() {
			c.Flagf("IFACE", ci.T.Obj().Name()+" embeds "+st.Field(i).Name(), p.pos(st.Field(i).Pos()),
				"confining type embeds %s: its methods are promoted without the funnel", st.Field(i).Type())
		}
	}
	// who writes the wrapped-fs / root fields: only constructors
	for _, f := range p.RepoFuncs() {
		eachInstr(f, func(_ *ssa.BasicBlock, i ssa.Instruction) {
			s, ok := i.(*ssa.Store)
			if !ok {
				return
			}
			own, fld, _, ok := fieldOfAddr(s.Addr)
			if !ok || own != ci.T || (fld != ci.fsField && fld != ci.rootFld) {
				return
			}
			isCtor := false
			for _, ct := range ci.ctor {
				if ct == f {
					isCtor = true
				}
			}
			key := fmt.Sprintf("%s writes %s.%s", fnName(f), ci.T.Obj().Name(), fld)
			c.Cond(isCtor, "FIELD-OWNER", key, p.pos(s.Pos()), "written in constructor", "root or wrapped filesystem re-assigned outside the constructor")
		})
	}

	// --- rule 3: shapes
	c18JoinShape(c, ci)
	c18AllowShape(c, ci)

	// --- rule 4: loader wraps
	c18Loader(c, ci)

	// --- rule 5: side door
	c18SideDoor(c, ci)
	c18DependencyPaths(c)
}

func c18JoinShape(c *Check, ci *chrootInfo) {
	p := c.P
	f := ci.join
	key := fnName(f)
	// every non-error return's first result must derive from
	// filepath.Abs|Clean( filepath.Join(root, name') )
	okAll := true
	n := 0
	why := ""
	for _, b := range f.Blocks {
		ret, ok := b.Instrs[len(b.Instrs)-1].(*ssa.Return)
		if !ok {
			continue
		}
		v := retVal(ret, 0)
		if s, isC := constString(v); isC && s == "" {
			continue // error return
		}
		n++
		if !derivesFromCleanJoin(v, ci, 0) {
			okAll = false
			why = "returned path does not flow from filepath.Abs/Clean(filepath.Join(root, name))"
		}
	}
	if n == 0 {
		okAll, why = false, "no path-returning exit found"
	}
	c.Cond(okAll, "JOIN-SHAPE", key, p.pos(f.Pos()), "join result = Abs|Clean(Join(root, name)) on every path", why)
}

func derivesFromCleanJoin(v ssa.Value, ci *chrootInfo, depth int) bool {
	if depth > 8 {
		return false
	}
	switch x := v.(type) {
	case *ssa.Extract:
		return derivesFromCleanJoin(x.Tuple, ci, depth+1)
	case *ssa.Phi:
		for _, e := range x.Edges {
			if !derivesFromCleanJoin(e, ci, depth+1) {
				return false
			}
		}
		return true
	case *ssa.Call:
		if callIs(x, "path/filepath", "Abs") || callIs(x, "path/filepath", "Clean") {
			return containsJoinOfRoot(x.Call.Args[0], ci, 0)
		}
		// same-package helper that returns its string argument or a trimmed form
		if sc := staticCallee(x); sc != nil && isRepoFn(sc) {
			for _, a := range x.Call.Args {
				if isStringType(a.Type()) && derivesFromCleanJoin(a, ci, depth+1) {
					return helperPreservesClean(sc)
				}
			}
		}
	}
	return false
}

// helperPreservesClean: helper returns either its string parameter or the
// result of a volume-trimming helper on it (no Join, no concatenation).
func helperPreservesClean(f *ssa.Function) bool {
	ok := true
	eachInstr(f, func(_ *ssa.BasicBlock, i ssa.Instruction) {
		if b, isB := i.(*ssa.BinOp); isB && b.Op == token.ADD && isStringType(b.Type()) {
			ok = false
		}
		if cl, isC := i.(ssa.CallInstruction); isC {
			if callIs(cl, "path/filepath", "Join") || callIs(cl, "path", "Join") {
				ok = false
			}
		}
	})
	return ok
}

func containsJoinOfRoot(v ssa.Value, ci *chrootInfo, depth int) bool {
	call, ok := v.(*ssa.Call)
	if !ok || !callIs(call, "path/filepath", "Join") {
		return false
	}
	// variadic: args[0] is a slice built from root, name
	sawRoot := false
	var visit func(v ssa.Value, d int)
	visit = func(v ssa.Value, d int) {
		if d > 6 || v == nil {
			return
		}
		if own, fld, _, ok := loadedField(v); ok && own == ci.T && fld == ci.rootFld {
			sawRoot = true
			return
		}
		switch x := v.(type) {
		case *ssa.Slice:
			visit(x.X, d+1)
		case *ssa.Alloc:
			for _, r := range *x.Referrers() {
				if ia, ok := r.(*ssa.IndexAddr); ok {
					if k, ok := constInt(ia.Index); ok && k == 0 {
						for _, r2 := range *ia.Referrers() {
							if s, ok := r2.(*ssa.Store); ok {
								visit(s.Val, d+1)
							}
						}
					}
				}
			}
		}
	}
	visit(call.Call.Args[0], 0)
	return sawRoot
}

func c18AllowShape(c *Check, ci *chrootInfo) {
	p := c.P
	f := ci.allow
	key := fnName(f)
	// (a) filepath.Rel(root, param)
	var rel *ssa.Call
	eachCall(f, func(cl ssa.CallInstruction) {
		if call, ok := cl.(*ssa.Call); ok && callIs(cl, "path/filepath", "Rel") {
			rel = call
		}
	})
	if rel == nil {
		c.Flagf("ALLOW-SHAPE", key, p.pos(f.Pos()), "range test no longer computes filepath.Rel")
		return
	}
	own, fld, _, ok := loadedField(rel.Call.Args[0])
	relOK := ok && own == ci.T && fld == ci.rootFld
	if pr, isP := rel.Call.Args[1].(*ssa.Parameter); !isP || pr != f.Params[1] {
		relOK = false
	}
	c.Cond(relOK, "ALLOW-SHAPE", key+"|Rel(root,path)", p.pos(rel.Pos()), "relative path computed from the root field to the tested path", "filepath.Rel is not applied to (root field, tested path)")
	// (b) a comparison with ".." on the first segment whose true edge
	// returns a non-nil error; Rel's error is returned.
	found := false
	eachInstr(f, func(b *ssa.BasicBlock, i ssa.Instruction) {
		bin, ok := i.(*ssa.BinOp)
		if !ok || bin.Op != token.EQL {
			return
		}
		s, isC := constString(bin.Y)
		x := bin.X
		if !isC {
			s, isC = constString(bin.X)
			x = bin.Y
		}
		if !isC || s != ".." {
			return
		}
		// x must be element 0 of strings.Split(rel, sep) — or rel itself
		if !firstSegmentOf(x, rel) {
			return
		}
		for _, r := range *bin.Referrers() {
			iff, ok := r.(*ssa.If)
			if !ok {
				continue
			}
			t := iff.Block().Succs[0]
			if ret, ok := t.Instrs[len(t.Instrs)-1].(*ssa.Return); ok && len(ret.Results) == 1 && !isNilConst(retVal(ret, 0)) {
				found = true
			}
		}
	})
	if !found {
		found = rejectsParentByAtoms(f, rel)
	}
	c.Cond(found, "ALLOW-SHAPE", key+"|first segment == \"..\" ⇒ error", p.pos(f.Pos()),
		"a relative path whose first separator-delimited segment is \"..\" is rejected with an error",
		"no test of the first segment of the relative path against \"..\" that ends in a non-nil error")
	// (c) no return of nil before the test when Rel failed
	relErrReturned := false
	for _, r := range *rel.Referrers() {
		if ex, ok := r.(*ssa.Extract); ok && ex.Index == 1 {
			for _, r2 := range *ex.Referrers() {
				if _, ok := r2.(*ssa.Return); ok {
					relErrReturned = true
				}
			}
		}
	}
	c.Cond(relErrReturned, "ALLOW-SHAPE", key+"|Rel error returned", p.pos(rel.Pos()), "failure of filepath.Rel is returned as an error", "the error of filepath.Rel is not returned")
}

// rejectsParentByAtoms recognises the other spellings of "the first segment of
// the relative path is ..": `rel == ".." || strings.HasPrefix(rel, ".."+sep)`,
// written in the range test itself or in a bool predicate helper applied to the
// relative path. Both atoms must be present and each must, when true, lead to
// the error return (in the helper: to a true result).
func rejectsParentByAtoms(f *ssa.Function, rel *ssa.Call) bool {
	isRel := func(v ssa.Value) bool {
		ex, ok := v.(*ssa.Extract)
		return ok && ex.Tuple == rel && ex.Index == 0
	}
	// true outcome of cond leads to a non-nil error return of f
	rejectsIn := func(cond ssa.Value) bool {
		for _, br := range branchesOn(cond) {
			t := br.TrueSucc
			if ret, ok := t.Instrs[len(t.Instrs)-1].(*ssa.Return); ok && len(ret.Results) == 1 && !isNilConst(retVal(ret, 0)) {
				return true
			}
		}
		return false
	}
	atoms := func(g *ssa.Function, isPath func(ssa.Value) bool, implies func(ssa.Value) bool) bool {
		eq, prefix := false, false
		eachInstr(g, func(_ *ssa.BasicBlock, i ssa.Instruction) {
			switch x := i.(type) {
			case *ssa.BinOp:
				if x.Op != token.EQL {
					return
				}
				sv, isC := constString(x.Y)
				o := x.X
				if !isC {
					sv, isC = constString(x.X)
					o = x.Y
				}
				if isC && sv == ".." && isPath(o) && implies(x) {
					eq = true
				}
			case *ssa.Call:
				if !callIs(x, "strings", "HasPrefix") || len(x.Call.Args) != 2 || !isPath(x.Call.Args[0]) {
					return
				}
				pv := x.Call.Args[1]
				okPrefix := false
				if sv, ok := constString(pv); ok && (sv == "../" || sv == "..\\") {
					okPrefix = true
				}
				if b, ok := pv.(*ssa.BinOp); ok && b.Op == token.ADD {
					if sv, ok := constString(b.X); ok && sv == ".." {
						// ".." + string(os.PathSeparator)
						y := stripValue(b.Y)
						if cv, ok := y.(*ssa.Convert); ok {
							y = cv.X
						}
						if k, ok := constInt(y); ok && (k == '/' || k == '\\') {
							okPrefix = true
						}
						if sv2, ok := constString(y); ok && (sv2 == "/" || sv2 == "\\") {
							okPrefix = true
						}
					}
				}
				if okPrefix && implies(x) {
					prefix = true
				}
			}
		})
		return eq && prefix
	}
	// written in the range test itself
	if atoms(f, isRel, rejectsIn) {
		return true
	}
	// or in a predicate helper applied to the relative path
	ok := false
	eachInstr(f, func(_ *ssa.BasicBlock, i ssa.Instruction) {
		call, isCall := i.(*ssa.Call)
		if !isCall || ok {
			return
		}
		h := staticCallee(call)
		if h == nil || !isRepoFn(h) || len(h.Blocks) == 0 || h.Signature.Results().Len() != 1 || !isBoolType(h.Signature.Results().At(0).Type()) {
			return
		}
		pi := -1
		for k, a := range call.Call.Args {
			if isRel(a) {
				pi = k
			}
		}
		if pi < 0 || pi >= len(h.Params) || !rejectsIn(call) {
			return
		}
		prm := h.Params[pi]
		// an atom implies a true result when it is returned, is an edge of the
		// returned phi, or controls a branch whose true side gives the returned
		// phi a constant true
		returned := map[ssa.Value]bool{}
		var phis []*ssa.Phi
		for _, b := range h.Blocks {
			if ret, isRet := b.Instrs[len(b.Instrs)-1].(*ssa.Return); isRet && len(ret.Results) == 1 {
				returned[retVal(ret, 0)] = true
				if ph, isPhi := retVal(ret, 0).(*ssa.Phi); isPhi {
					phis = append(phis, ph)
					for _, e := range ph.Edges {
						returned[e] = true
					}
				}
			}
		}
		implies := func(v ssa.Value) bool {
			if returned[v] {
				return true
			}
			for _, br := range branchesOn(v) {
				for _, ph := range phis {
					for k, e := range ph.Edges {
						if cv, isC := e.(*ssa.Const); isC && cv.Value != nil && cv.Value.String() == "true" {
							pred := ph.Block().Preds[k]
							if pred == br.If.Block() && br.TrueSucc == ph.Block() {
								return true
							}
							if pred == br.TrueSucc {
								return true
							}
						}
					}
				}
				if ret, isRet := br.TrueSucc.Instrs[len(br.TrueSucc.Instrs)-1].(*ssa.Return); isRet && len(ret.Results) == 1 {
					if cv, isC := retVal(ret, 0).(*ssa.Const); isC && cv.Value != nil && cv.Value.String() == "true" {
						return true
					}
				}
			}
			return false
		}
		if atoms(h, func(v ssa.Value) bool { return v == ssa.Value(prm) }, implies) {
			ok = true
		}
	})
	return ok
}

func firstSegmentOf(x ssa.Value, rel *ssa.Call) bool {
	isRel := func(v ssa.Value) bool {
		ex, ok := v.(*ssa.Extract)
		return ok && ex.Tuple == rel && ex.Index == 0
	}
	if isRel(x) {
		return true
	}
	// load of IndexAddr(split, 0)
	u, ok := x.(*ssa.UnOp)
	if !ok || u.Op != token.MUL {
		return false
	}
	ia, ok := u.X.(*ssa.IndexAddr)
	if !ok {
		return false
	}
	if k, ok := constInt(ia.Index); !ok || k != 0 {
		return false
	}
	call, ok := ia.X.(*ssa.Call)
	if !ok || !callIs(call, "strings", "Split") {
		return false
	}
	if !isRel(call.Call.Args[0]) {
		return false
	}
	// separator must be the OS path separator
	sep := stripValue(call.Call.Args[1])
	if cv, ok := sep.(*ssa.Const); ok {
		if s, ok := constString(cv); ok {
			return s == "/" || s == "\\"
		}
		if n, ok := constInt(cv); ok {
			return n == '/' || n == '\\'
		}
	}
	return false
}

func c18Loader(c *Check, ci *chrootInfo) {
	p := c.P
	lp := p.SSAPkg("pkg/loader")
	if lp == nil {
		c.Undecidedf("LOADER-WRAPS", "pkg/loader", "-", "package not found")
		return
	}
	isCtorCall := func(v ssa.Value) bool {
		v = stripValue(v)
		call, ok := v.(*ssa.Call)
		if !ok {
			return false
		}
		sc := staticCallee(call)
		for _, ct := range ci.ctor {
			if ct == sc {
				return true
			}
		}
		return false
	}
	// fields of afero.Fs type written only from constructor results
	fieldAllCtor := func(own *types.Named, fld string) (bool, string) {
		n := 0
		for _, f := range p.RepoFuncs() {
			bad := ""
			eachInstr(f, func(_ *ssa.BasicBlock, i ssa.Instruction) {
				s, ok := i.(*ssa.Store)
				if !ok {
					return
				}
				o2, f2, _, ok := fieldOfAddr(s.Addr)
				if !ok || o2 != own || f2 != fld {
					return
				}
				n++
				if isNilConst(s.Val) {
					return
				}
				if !isCtorCall(s.Val) {
					bad = fmt.Sprintf("%s stores a filesystem that is not the result of the confining constructor into %s.%s at %s", fnName(f), own.Obj().Name(), fld, p.pos(s.Pos()))
				}
			})
			if bad != "" {
				return false, bad
			}
		}
		if n == 0 {
			return false, "no store to the field found"
		}
		return true, ""
	}
	n := 0
	for _, f := range p.RepoFuncs() {
		if fnPkgPath(f) != lp.Pkg.Path() {
			continue
		}
		eachCall(f, func(cl ssa.CallInstruction) {
			o := calleeObj(cl)
			if o == nil || o.Pkg() == nil || o.Pkg().Path() != repoMod+"/pkg/parse" {
				return
			}
			for ai, a := range cl.Common().Args {
				if !typeIs(a.Type(), aferoPath, "Fs") {
					continue
				}
				n++
				key := fmt.Sprintf("%s|%s arg%d", fnName(f), objLocalName(o), ai)
				if isCtorCall(a) {
					c.Okf("LOADER-WRAPS", key, p.pos(cl.Pos()), "filesystem argument is the result of the confining constructor")
					continue
				}
				if own, fld, _, ok := loadedField(a); ok {
					good, why := fieldAllCtor(own, fld)
					c.Cond(good, "LOADER-WRAPS", key, p.pos(cl.Pos()),
						fmt.Sprintf("filesystem argument is %s.%s, which is only ever assigned the confining constructor's result", own.Obj().Name(), fld), why)
					continue
				}
				// SyslRootMarker look-ups by FindRootFromSyslModule use afero.Exists, not parse.*
				c.Flagf("LOADER-WRAPS", key, p.pos(cl.Pos()), "a filesystem that is not wrapped by the confining type flows to parse.%s", objLocalName(o))
			}
		})
	}
	// The function that builds the confined filesystem holds the raw one. With a
	// root given, the raw filesystem must not be used for anything but the
	// confining constructor: every other call that receives it (the search for a
	// root marker stats every ancestor directory up to /) has to lie on the branch
	// where the root parameter is empty.
	nRaw := 0
	for _, f := range p.RepoFuncs() {
		if fnPkgPath(f) != lp.Pkg.Path() || f.Parent() != nil {
			continue
		}
		var ctorCall *ssa.Call
		eachInstr(f, func(_ *ssa.BasicBlock, i ssa.Instruction) {
			if cl, ok := i.(*ssa.Call); ok && isCtorCall(cl) && len(cl.Call.Args) >= 2 {
				ctorCall = cl
			}
		})
		if ctorCall == nil {
			continue
		}
		raw := stripValue(ctorCall.Call.Args[0])
		if _, isParam := raw.(*ssa.Parameter); !isParam {
			continue
		}
		rootArg := stripValue(ctorCall.Call.Args[1])
		// the string parameter that becomes the root
		var rootParam *ssa.Parameter
		for _, prm := range f.Params {
			if !isStringType(prm.Type()) {
				continue
			}
			if rootArg == ssa.Value(prm) {
				rootParam = prm
			}
			if own, fld, _, ok := loadedField(rootArg); ok {
				eachInstr(f, func(_ *ssa.BasicBlock, i ssa.Instruction) {
					if st, ok := i.(*ssa.Store); ok && st.Val == ssa.Value(prm) {
						if o2, f2, _, ok := fieldOfAddr(st.Addr); ok && o2 == own && f2 == fld {
							rootParam = prm
						}
					}
				})
			}
		}
		// blocks that run only when the root parameter is empty
		emptyOnly := map[*ssa.BasicBlock]bool{}
		if rootParam != nil && rootParam.Referrers() != nil {
			for _, r := range *rootParam.Referrers() {
				bin, ok := r.(*ssa.BinOp)
				if !ok || (bin.Op != token.EQL && bin.Op != token.NEQ) {
					continue
				}
				other := bin.Y
				if other == ssa.Value(rootParam) {
					other = bin.X
				}
				if sv, ok := constString(other); !ok || sv != "" {
					continue
				}
				for _, br := range branchesOn(bin) {
					empty, nonEmpty := br.TrueSucc, br.FalseSucc
					if bin.Op == token.NEQ {
						empty, nonEmpty = nonEmpty, empty
					}
					if len(empty.Preds) != 1 {
						continue
					}
					for _, b := range f.Blocks {
						if empty.Dominates(b) && !nonEmpty.Dominates(b) {
							emptyOnly[b] = true
						}
					}
				}
			}
		}
		eachCall(f, func(cl ssa.CallInstruction) {
			if cl == ssa.CallInstruction(ctorCall) {
				return
			}
			uses := false
			for _, a := range cl.Common().Args {
				if stripValue(a) == raw {
					uses = true
				}
			}
			if !uses {
				return
			}
			nRaw++
			callee := "a dynamic callee"
			if o := calleeObj(cl); o != nil {
				callee = shortObj(o)
			}
			key := fmt.Sprintf("%s|unconfined filesystem handed to %s only when no root is given", fnName(f), callee)
			switch {
			case rootParam == nil:
				c.Undecidedf("RAW-FS-USE", key, p.pos(cl.Pos()), "cannot identify the string parameter that becomes the root of the confined filesystem")
			case emptyOnly[cl.Block()]:
				c.Okf("RAW-FS-USE", key, p.pos(cl.Pos()), "the call lies on the branch where parameter %s is empty", rootParam.Name())
			default:
				c.Flagf("RAW-FS-USE", key, p.pos(cl.Pos()), "%s receives the unconfined filesystem on a path where the root parameter %s is set: files outside the given root are stat-ed or read", callee, rootParam.Name())
			}
		})
	}
	// The callers, inside the package, of a function that builds the confined
	// filesystem from a raw one they hold themselves: once the project is
	// configured, the raw filesystem has done its work. Handing it to anything
	// else on a path after the configuring call reads files the root does not
	// confine (a fast path that decodes a compiled module with it, say).
	builders := map[*ssa.Function]int{} // builder -> index of its raw-filesystem parameter
	for _, f := range p.RepoFuncs() {
		if fnPkgPath(f) != lp.Pkg.Path() || f.Parent() != nil {
			continue
		}
		eachInstr(f, func(_ *ssa.BasicBlock, i ssa.Instruction) {
			if cl, ok := i.(*ssa.Call); ok && isCtorCall(cl) && len(cl.Call.Args) >= 1 {
				if prm, ok := stripValue(cl.Call.Args[0]).(*ssa.Parameter); ok {
					builders[f] = paramIndex(f, prm)
				}
			}
		})
	}
	for _, f := range p.RepoFuncs() {
		if fnPkgPath(f) != lp.Pkg.Path() || f.Parent() != nil {
			continue
		}
		eachCall(f, func(cfg ssa.CallInstruction) {
			b := staticCallee(cfg)
			k, isBuilder := builders[b]
			if !isBuilder || b == f || k >= len(cfg.Common().Args) {
				return
			}
			raw, ok := stripValue(cfg.Common().Args[k]).(*ssa.Parameter)
			if !ok {
				return
			}
			eachCall(f, func(cl ssa.CallInstruction) {
				if cl == cfg || !canReach(cfg, cl, nil) {
					return
				}
				for _, a := range cl.Common().Args {
					if stripValue(a) != ssa.Value(raw) {
						continue
					}
					nRaw++
					callee := "a dynamic callee"
					if o := calleeObj(cl); o != nil {
						callee = shortObj(o)
					}
					c.Flagf("RAW-FS-USE", fmt.Sprintf("%s|unconfined filesystem handed to %s after the project is configured", fnName(f), callee), p.pos(cl.Pos()),
						"%s receives the filesystem that %s was given before it was confined, on a path after %s built the confined one: what it opens is not held inside the root", callee, f.Name(), b.Name())
				}
			})
		})
	}
	c.Okf("RAW-FS-USE", "scan", "-", "%d functions of the loader build the confined filesystem from a parameter; their callers in the package were scanned for later uses of the raw one", len(builders))
	c.Counts["raw_fs_uses_in_loader"] = nRaw
	c.Counts["loader_parse_fs_arguments"] = n
	if n == 0 {
		c.Undecidedf("LOADER-WRAPS", "pkg/loader", "-", "no call from pkg/loader into pkg/parse with a filesystem argument found: unresolved anchor")
	}
}

// OS-level file API considered a side door when called from repository code
// on the compile path.
var osFileFuncs = map[string]bool{
	"os.Open": true, "os.OpenFile": true, "os.Create": true, "os.ReadFile": true, "os.WriteFile": true,
	"os.Stat": true, "os.Lstat": true, "os.ReadDir": true, "os.Remove": true, "os.RemoveAll": true,
	"os.Rename": true, "os.Mkdir": true, "os.MkdirAll": true, "os.Chmod": true, "os.Chown": true, "os.Chtimes": true,
	"os.Readlink": true, "os.Symlink": true, "os.Link": true, "os.Truncate": true, "os.DirFS": true, "os.CreateTemp": true, "os.MkdirTemp": true,
	"io/ioutil.ReadFile": true, "io/ioutil.WriteFile": true, "io/ioutil.ReadDir": true, "io/ioutil.TempFile": true, "io/ioutil.TempDir": true,
	aferoPath + ".NewOsFs": true, aferoPath + ".NewBasePathFs": false,
	"path/filepath.Walk": true, "path/filepath.WalkDir": true, "path/filepath.Glob": true, "path/filepath.EvalSymlinks": true,
}

func c18SideDoor(c *Check, ci *chrootInfo) {
	p := c.P
	cg := p.CallGraph()
	var entries []*ssa.Function
	for _, n := range []string{"Parser.Parse", "Parser.ParseFromFs", "Parser.ParseString", "Parser.ParseFromFsWithVendor"} {
		if f := p.lookupFunc("pkg/parse", n); f != nil {
			entries = append(entries, f)
		}
	}
	if len(entries) == 0 {
		c.Undecidedf("SIDE-DOOR", "entries", "-", "parse.Parser.Parse not found: unresolved anchor")
		return
	}
	r := reachable(cg, entries, nil)
	nRepo := 0
	var fns []*ssa.Function
	for f := range r {
		if isRepoFn(f) {
			nRepo++
			fns = append(fns, f)
		}
	}
	sort.Slice(fns, func(i, j int) bool { return fnName(fns[i]) < fnName(fns[j]) })
	c.Counts["sidedoor_reachable_functions"] = len(r)
	c.Counts["sidedoor_reachable_repo_functions"] = nRepo
	sites := 0
	for _, f := range fns {
		eachCall(f, func(cl ssa.CallInstruction) {
			o := calleeObj(cl)
			if o == nil || o.Pkg() == nil {
				return
			}
			full := o.Pkg().Path() + "." + objLocalName(o)
			isOsFs := false
			if n := namedOf(recvType(o)); n != nil && n.Obj().Pkg() != nil && n.Obj().Pkg().Path() == aferoPath && n.Obj().Name() == "OsFs" {
				isOsFs = true
			}
			if !osFileFuncs[full] && !isOsFs {
				return
			}
			sites++
			key := fmt.Sprintf("%s|%s", fnName(f), strings.TrimPrefix(full, "github.com/spf13/"))
			if why, ok := deadByConstParam(cl, f, r, cg); ok {
				c.Okf("SIDE-DOOR", key, p.pos(cl.Pos()), "%s is unreachable on the compile path: %s", full, why)
				return
			}
			c.Ob("SIDE-DOOR", key, p.pos(cl.Pos()), Flag,
				fmt.Sprintf("OS-level file API %s is called from repository code reachable from the compiler entry points: file access that does not go through the afero.Fs the compiler was given", full),
				chainTo(r, f, p)...)
		})
	}
	c.Counts["sidedoor_sites"] = sites
	c.Okf("SIDE-DOOR", "scan", "-", "scanned %d repository functions reachable from %d compiler entry points in the whole-program VTA graph (%d functions)", nRepo, len(entries), len(r))
}

// c18DependencyPaths: a path string that repository code builds and hands to a
// file-touching API of a dependency (which goes to the OS, not through the
// confined afero.Fs) must be computed from the confined filesystem — in
// practice from its root directory. A path built from constants alone is
// relative to the working directory, i.e. outside the project root.
func c18DependencyPaths(c *Check) {
	p := c.P
	n := 0
	for _, f := range p.RepoFuncs() {
		pp := fnPkgPath(f)
		if pp != repoMod+"/pkg/parse" && pp != repoMod+"/pkg/loader" {
			continue
		}
		var fsParam *ssa.Parameter
		for _, prm := range f.Params {
			if typeIs(prm.Type(), aferoPath, "Fs") {
				fsParam = prm
			}
		}
		if fsParam == nil {
			continue
		}
		eachCall(f, func(cl ssa.CallInstruction) {
			o := calleeObj(cl)
			if o == nil || o.Pkg() == nil {
				return
			}
			path := o.Pkg().Path()
			if isRepoPkg(o.Pkg()) || !strings.Contains(strings.SplitN(path, "/", 2)[0], ".") || strings.HasPrefix(path, "github.com/spf13/afero") ||
				strings.HasPrefix(path, "github.com/sirupsen/logrus") || strings.HasPrefix(path, "github.com/pkg/errors") {
				return // repository code, the standard library (SIDE-DOOR), the confined fs, logging
			}
			for ai, a := range cl.Common().Args {
				if !isStringType(a.Type()) {
					continue
				}
				v := stripValue(a)
				switch v.(type) {
				case *ssa.Const, *ssa.Parameter:
					continue
				}
				if g, ok := loadsGlobal(v); ok && g.Pkg != nil && !isRepoPkg(g.Pkg.Pkg) {
					continue // a setting of the dependency itself (its cache directory)
				}
				pathLike := derives(v, func(x ssa.Value) bool {
					cc, ok := x.(*ssa.Call)
					return ok && (callIs(cc, "path/filepath", "Join") || callIs(cc, "path", "Join") || callIs(cc, "path/filepath", "Abs") || callIs(cc, "path/filepath", "Clean"))
				}, &deriveOpts{throughBinOp: true})
				if !pathLike {
					continue
				}
				n++
				fromFs := derives(v, func(x ssa.Value) bool { return x == ssa.Value(fsParam) },
					&deriveOpts{throughBinOp: true, throughCalls: func(*ssa.Call) bool { return true }})
				key := fmt.Sprintf("%s|path handed to %s arg%d is computed from the confined filesystem", fnName(f), shortObj(o), ai)
				c.Cond(fromFs, "DEPENDENCY-PATH", key, p.pos(cl.Pos()),
					"the path is computed from the filesystem parameter (its root directory)",
					fmt.Sprintf("%s works on the OS filesystem, and the path it is given is built without reference to the confined filesystem %s: it is resolved against the working directory, outside the project root", shortObj(o), fsParam.Name()))
			}
		})
	}
	c.Counts["dependency_path_arguments"] = n
	if n == 0 {
		c.Undecidedf("DEPENDENCY-PATH", "sites", "-", "no path handed to a dependency found in pkg/parse or pkg/loader (expected the pinner's modules.yaml)")
	}
}

func recvType(o *types.Func) types.Type {
	if r := o.Type().(*types.Signature).Recv(); r != nil {
		return r.Type()
	}
	return nil
}

// deadByConstParam: the call site is only reachable when a bool parameter of
// f is true, and every call of f from a function reachable from the entries
// passes the constant false for it (directly, or by forwarding a parameter of
// its own for which the same holds).
func deadByConstParam(site ssa.CallInstruction, f *ssa.Function, r map[*ssa.Function]reachInfo, cg *callgraph.Graph) (string, bool) {
	for _, b := range f.Blocks {
		iff, ok := b.Instrs[len(b.Instrs)-1].(*ssa.If)
		if !ok {
			continue
		}
		prm, ok := iff.Cond.(*ssa.Parameter)
		if !ok {
			continue
		}
		t := b.Succs[0]
		if len(t.Preds) != 1 || !(t == site.Block() || t.Dominates(site.Block())) {
			continue
		}
		n := 0
		if paramAlwaysFalse(f, prm, r, cg, 0, &n) && n > 0 {
			return fmt.Sprintf("guarded by parameter %q, which is the constant false at all %d call sites reachable from the compiler", prm.Name(), n), true
		}
	}
	return "", false
}

func paramAlwaysFalse(f *ssa.Function, prm *ssa.Parameter, r map[*ssa.Function]reachInfo, cg *callgraph.Graph, depth int, n *int) bool {
	if depth > 4 {
		return false
	}
	idx := -1
	for i, q := range f.Params {
		if q == prm {
			idx = i
		}
	}
	node := cg.Nodes[f]
	if idx < 0 || node == nil {
		return false
	}
	for _, e := range node.In {
		if _, reach := r[e.Caller.Func]; !reach {
			continue
		}
		args := e.Site.Common().Args
		if e.Site.Common().IsInvoke() || idx >= len(args) {
			return false
		}
		switch a := args[idx].(type) {
		case *ssa.Const:
			if a.Value == nil || a.Value.Kind() != constant.Bool || constant.BoolVal(a.Value) {
				return false
			}
			*n++
		case *ssa.Parameter:
			if !paramAlwaysFalse(e.Caller.Func, a, r, cg, depth+1, n) {
				return false
			}
		default:
			return false
		}
	}
	return true
}

// c18LocalImportMark: a local import whose path looks like a remote resource
// ("a.b/c/d/e") is marked with a leading "./" so that the reader opens the file
// under the root and does not fetch https://a.b/c/d into a cache directory
// outside it. The test "will the reader take this for remote?" has to be made
// on the string the reader will get — the joined, cleaned path — not on the
// text as written: "./a.b/c/d/e" or "a.b//c/d/e" only look remote after cleaning.
func c18LocalImportMark(c *Check) {
	p := c.P
	n := 0
	for _, f := range p.RepoFuncs() {
		if fnPkgPath(f) != repoMod+"/"+parsePkg || strings.HasSuffix(p.fnFile(f), "_test.go") {
			continue
		}
		eachCall(f, func(cl ssa.CallInstruction) {
			o := calleeObj(cl)
			if o == nil || o.Name() != "IsRemote" || o.Pkg() == nil || !strings.Contains(o.Pkg().Path(), "remotefs") {
				return
			}
			args := cl.Common().Args
			if len(args) == 0 {
				return
			}
			arg := args[len(args)-1]
			n++
			key := fnName(f) + "|remote test on the path the reader gets"
			joined := derives(arg, func(v ssa.Value) bool {
				call, ok := v.(*ssa.Call)
				if !ok {
					return false
				}
				co := calleeObj(call)
				return co != nil && co.Pkg() != nil && (co.Pkg().Path() == "path/filepath" || co.Pkg().Path() == "path") && (co.Name() == "Join" || co.Name() == "Clean")
			}, &deriveOpts{throughCalls: func(x *ssa.Call) bool {
				co := calleeObj(x)
				return co != nil && co.Pkg() != nil && co.Pkg().Path() == "strings" // ReplaceAll of separators
			}})
			c.Cond(joined, "LOCAL-IMPORT-MARK", key, p.pos(cl.Pos()),
				"the remote-looking test is applied to the joined, cleaned import path",
				"the remote-looking test is applied to the import path as written, before it is joined and cleaned: spellings that only look remote after cleaning (./a.b/c/d/e, a.b//c/d/e) lose the ./ mark, are fetched as a git resource and written to a cache directory outside the root")
		})
	}
	c.Counts["remote_tests_on_import_paths"] = n
	if n == 0 {
		c.Undecidedf("LOCAL-IMPORT-MARK", "pkg/parse", "-", "no remote-looking test on import paths found in pkg/parse: unresolved anchor")
	}
}

// returnsCheckedPath: h returns (string, error) and every return whose error is
// the nil constant returns a path that is joined and range-tested at that return.
func (ci *chrootInfo) returnsCheckedPath(h *ssa.Function, depth int) bool {
	if h == nil || len(h.Blocks) == 0 || depth > 3 || h.Signature.Results().Len() != 2 {
		return false
	}
	if !isStringType(h.Signature.Results().At(0).Type()) || !isErrorType(h.Signature.Results().At(1).Type()) {
		return false
	}
	n := 0
	for _, b := range h.Blocks {
		ret, ok := b.Instrs[len(b.Instrs)-1].(*ssa.Return)
		if !ok {
			continue
		}
		vals, _ := returnValues(ret)
		if !isNilConst(vals[1]) {
			continue // error return: the caller must not use the path
		}
		n++
		if ok2, _ := ci.checkedAt(vals[0], ret, depth); !ok2 {
			return false
		}
	}
	return n > 0
}

// nilOutcomeDominatesTuple: like nilOutcomeDominates for a call with several
// results: the error is the last extract.
func nilOutcomeDominatesTuple(call *ssa.Call, site ssa.Instruction) bool {
	if call.Referrers() == nil {
		return false
	}
	ei := errorResultIndex(call.Call.Signature())
	for _, ref := range *call.Referrers() {
		ex, ok := ref.(*ssa.Extract)
		if !ok || ex.Index != ei || ex.Referrers() == nil {
			continue
		}
		for _, r := range *ex.Referrers() {
			bin, ok := r.(*ssa.BinOp)
			if !ok || (bin.Op != token.NEQ && bin.Op != token.EQL) || !(isNilConst(bin.X) || isNilConst(bin.Y)) {
				continue
			}
			for _, br := range branchesOn(bin) {
				nilS, errS := br.FalseSucc, br.TrueSucc
				if bin.Op == token.EQL {
					nilS, errS = br.TrueSucc, br.FalseSucc
				}
				if (nilS == site.Block() || nilS.Dominates(site.Block())) && len(nilS.Preds) == 1 {
					return true
				}
				if br.If.Block().Dominates(site.Block()) && br.If.Block() != site.Block() && !blockReaches(errS, site.Block(), nil) {
					return true
				}
			}
		}
	}
	return false
}
