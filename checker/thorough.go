package main

import (
	"encoding/json"
	"fmt"
	"os"
	"os/exec"
	"path/filepath"
	"runtime"
	"sort"
	"strings"
	"sync"
)

// Thorough tier. The quick tier analyses the tree as built for the host
// (GOOS=linux). The thorough tier additionally
//   - re-runs the same rules on the tree as built for windows and darwin
//     (build-tagged files, path-separator dependent code) and merges every
//     obligation that is new or worse there;
//   - audits the committed tables against the obligations (rows that match
//     nothing any more are listed as stale);
//   - runs the sensitivity corpus: each committed mutant of the property is
//     applied as an in-memory overlay (nothing is written to /repo) in a child
//     process and must be reported; the result is recorded in the evidence.
//     A missed mutant is a statement about the checker, not about /repo: it is
//     printed and recorded, and does not change the verdict on the tree.

var thoroughVariants = []string{"windows", "darwin"}

type variantResult struct {
	GOOS        string `json:"goos"`
	Obligations int    `json:"obligations"`
	New         int    `json:"obligations_not_in_host_variant"`
	Worse       int    `json:"obligations_worse_than_host_variant"`
	Packages    int    `json:"repo_packages"`
	Functions   int    `json:"repo_functions"`
	Error       string `json:"error,omitempty"`
}

func severity(v Verdict) int {
	switch v {
	case OK:
		return 0
	case Flag:
		return 2
	case Undecided:
		return 3
	}
	return 1
}

// mergeVariant folds the raw (unclassified) obligations of a variant run into c.
func mergeVariant(c *Check, v *Check, goos string) variantResult {
	res := variantResult{GOOS: goos, Obligations: len(v.Obs), Packages: len(v.P.Repo), Functions: len(v.P.RepoFuncs())}
	byKey := map[string]*Obligation{}
	for _, o := range c.Obs {
		byKey[o.Key] = o
	}
	for _, o := range v.Obs {
		if have, ok := byKey[o.Key]; ok {
			if severity(o.Verdict) > severity(have.Verdict) {
				have.Verdict, have.Detail, have.Pos, have.Witness = o.Verdict, "[GOOS="+goos+"] "+o.Detail, o.Pos, o.Witness
				have.Variant = goos
				res.Worse++
			}
			continue
		}
		o.Detail = "[GOOS=" + goos + "] " + o.Detail
		o.Variant = goos
		c.Obs = append(c.Obs, o)
		byKey[o.Key] = o
		res.New++
	}
	return res
}

type mutantResult struct {
	Mutant      string `json:"mutant"`
	Description string `json:"description"`
	Status      string `json:"status"` // detected | other-alarm | missed | skipped
	Report      string `json:"report,omitempty"`
}

func runMutantChild(path string) mutantResult {
	var m mutantSpec
	_ = readJSON(path, &m)
	res := mutantResult{Mutant: filepath.Base(path), Description: m.Description}
	exe, err := os.Executable()
	if err != nil {
		res.Status, res.Report = "skipped", err.Error()
		return res
	}
	cmd := exec.Command(exe, "-props", m.Property, "-mutant", path)
	cmd.Env = os.Environ()
	out, err := cmd.Output()
	rc := 0
	if ee, ok := err.(*exec.ExitError); ok {
		rc = ee.ExitCode()
	} else if err != nil {
		res.Status, res.Report = "skipped", err.Error()
		return res
	}
	lines := strings.Split(string(out), "\n")
	if rc == 3 {
		res.Status = "skipped"
		for _, l := range lines {
			if strings.HasPrefix(l, "MUTANT-SKIPPED") {
				res.Report = l
			}
		}
		return res
	}
	var hits []string
	for _, l := range lines {
		t := strings.TrimSpace(l)
		if strings.HasPrefix(t, "violation ") || strings.HasPrefix(t, "undecided ") {
			hits = append(hits, t)
		}
	}
	if rc == 1 {
		for _, h := range hits {
			if strings.Contains(h, m.Expect) {
				res.Status, res.Report = "detected", clip(h, 220)
				return res
			}
		}
		res.Status = "other-alarm"
		if len(hits) > 0 {
			res.Report = clip(hits[0], 220)
		}
		return res
	}
	res.Status = "missed"
	return res
}

func clip(s string, n int) string {
	if len(s) > n {
		return s[:n] + "…"
	}
	return s
}

func runSensitivity(prop string, whole bool) []mutantResult {
	files, _ := filepath.Glob(filepath.Join(verifDir(), "mutants", prop, "*.json"))
	sort.Strings(files)
	par := runtime.NumCPU() / 2
	if whole && par > 4 {
		par = 4 // ~3 GB per whole-program child
	}
	if par < 1 {
		par = 1
	}
	out := make([]mutantResult, len(files))
	sem := make(chan struct{}, par)
	var wg sync.WaitGroup
	for i, f := range files {
		wg.Add(1)
		go func(i int, f string) {
			defer wg.Done()
			sem <- struct{}{}
			defer func() { <-sem }()
			out[i] = runMutantChild(f)
		}(i, f)
	}
	wg.Wait()
	return out
}

// staleRows lists rows of the committed tables for this property whose key
// matches no obligation of this run.
func staleRows(c *Check, t *Tables) []string {
	keys := map[string]bool{}
	for _, o := range c.Obs {
		keys[o.Key] = true
	}
	var out []string
	scan := func(name string, rows []tableRow) {
		for _, r := range rows {
			if r.Status == "fixed" {
				continue
			}
			if r.Property != c.Prop { // wildcard and list rows are shared between properties
				continue
			}
			if !keys[r.Key] {
				out = append(out, name+": "+r.Key)
			}
		}
	}
	scan("exceptions", t.Exceptions)
	scan("known_findings", t.Known)
	scan("baseline", t.Baseline)
	sort.Strings(out)
	return out
}

func runThorough(d *propDef, c *Check, overlay map[string][]byte, t *Tables) map[string]interface{} {
	extra := map[string]interface{}{}
	var vres []variantResult
	for _, goos := range thoroughVariants {
		prog, err := Load(d.Mode, overlay, goos)
		if err != nil {
			vres = append(vres, variantResult{GOOS: goos, Error: err.Error()})
			c.Undecidedf("VARIANT", "GOOS="+goos, "-", "the tree could not be analysed as built for %s: %v", goos, err)
			continue
		}
		v := NewCheck(d.ID, c.Tier, prog)
		d.Run(v)
		r := mergeVariant(c, v, goos)
		vres = append(vres, r)
		fmt.Printf("variant GOOS=%s: %d obligations, %d not present in the host variant, %d worse\n", goos, r.Obligations, r.New, r.Worse)
		prog, v = nil, nil
		runtime.GC()
	}
	extra["build_variants"] = vres
	c.Counts["build_variants"] = 1 + len(thoroughVariants)
	if dryRun { // a mutant child never recurses into the sensitivity corpus
		return extra
	}
	ms := runSensitivity(d.ID, d.Mode == LoadWhole)
	det := 0
	for _, m := range ms {
		if m.Status == "detected" {
			det++
		} else {
			fmt.Printf("SENSITIVITY-%s property=%s mutant=%s %s\n", strings.ToUpper(m.Status), d.ID, m.Mutant, m.Report)
		}
	}
	fmt.Printf("sensitivity corpus: %d/%d committed mutants of %s reported as expected\n", det, len(ms), d.ID)
	extra["sensitivity"] = map[string]interface{}{
		"explanation": "each committed mutant (mutants/" + d.ID + "/*.json: a realistic property-breaking edit that compiles) is applied as an in-memory overlay and the check must report the expected obligation; nothing is written to /repo",
		"applied":     len(ms), "detected": det, "results": ms,
	}
	c.Counts["mutants_applied"] = len(ms)
	c.Counts["mutants_detected"] = det
	return extra
}

var _ = json.Marshal
