package main

import (
	"fmt"
	"go/token"
	"go/types"
	"strings"

	"golang.org/x/tools/go/ssa"
)

func init() { register("C05", LoadTyped, checkC05) }

const parsePkg = "pkg/parse"

type importClosure struct {
	RL         *types.Named
	mapFld     string
	muFld      string
	keyType    types.Type
	elemType   *types.Named // fileInfo
	collector  *ssa.Function
	canon      *ssa.Function
	users      []*ssa.Function     // other functions touching RL.map
	claimer    *ssa.Function       // function holding the test-and-insert: the collector or a helper it calls
	claimCall  *ssa.Call           // the collector's call of the helper (nil when the collector claims itself)
	readCall   ssa.CallInstruction // the collector's read of the file: ReadHashBranch or the helper that forwards to it
	readHelper *ssa.Function
	accessors  map[*ssa.Function]bool // methods of the table that look one entry up under the mutex and return it
}

func findImportClosure(c *Check) *importClosure {
	p := c.P
	pk := p.Pkg(parsePkg)
	if pk == nil {
		return nil
	}
	ic := &importClosure{}
	sc := pk.Types.Scope()
	for _, name := range sc.Names() {
		tn, ok := sc.Lookup(name).(*types.TypeName)
		if !ok {
			continue
		}
		n, _ := tn.Type().(*types.Named)
		if n == nil {
			continue
		}
		st, _ := n.Underlying().(*types.Struct)
		if st == nil {
			continue
		}
		var mf, uf string
		var kt types.Type
		var et *types.Named
		for i := 0; i < st.NumFields(); i++ {
			f := st.Field(i)
			if m, ok := f.Type().Underlying().(*types.Map); ok {
				// the file table is the map keyed by a key type of this package; other
				// maps kept next to it (caches, counters) do not change its role
				_, elemIsPtr := m.Elem().Underlying().(*types.Pointer)
				if kn := namedOf(m.Key()); kn != nil && kn.Obj().Pkg() == pk.Types && isStringType(m.Key()) && elemIsPtr {
					mf = f.Name()
					kt = m.Key()
					et = namedOf(m.Elem())
				}
			}
			if typeIs(f.Type(), "sync", "Mutex") || typeIs(f.Type(), "sync", "RWMutex") {
				uf = f.Name()
			}
		}
		// the shared file table: a mutex next to a map keyed by a key type of this
		// package (further fields, e.g. counters, do not change its role)
		kn := namedOf(kt)
		if mf != "" && uf != "" && kn != nil && kn.Obj().Pkg() == pk.Types {
			ic.RL, ic.mapFld, ic.muFld, ic.keyType, ic.elemType = n, mf, uf, kt, et
		}
	}
	if ic.RL == nil {
		return nil
	}
	for _, f := range p.RepoFuncs() {
		if fnPkgPath(f) != pk.PkgPath {
			continue
		}
		if f.Parent() == nil && f.Signature.Results().Len() == 1 && types.Identical(f.Signature.Results().At(0).Type(), ic.keyType) {
			ic.canon = f
		}
	}
	// The collector: the function that reads a file through the reader
	// (ReadHashBranch, directly or through a small helper that only forwards the
	// call) and comes back to itself for the file's imports. Without recursion
	// (a work-list collector) the function that performs the read is taken.
	invokesRead := func(f *ssa.Function) ssa.CallInstruction {
		var at ssa.CallInstruction
		eachCall(f, func(cl ssa.CallInstruction) {
			if cl.Common().IsInvoke() && cl.Common().Method.Name() == "ReadHashBranch" {
				at = cl
			}
		})
		return at
	}
	var direct []*ssa.Function
	for _, f := range p.RepoFuncs() {
		if fnPkgPath(f) == pk.PkgPath && invokesRead(f) != nil {
			direct = append(direct, f)
		}
	}
	for _, f := range p.RepoFuncs() {
		if fnPkgPath(f) != pk.PkgPath || f.Parent() != nil || strings.HasSuffix(p.fnFile(f), "_test.go") {
			continue
		}
		// does f come back to itself?
		recursive := false
		for g := range repoReach(p, f) {
			eachCall(g, func(cl ssa.CallInstruction) {
				if normFn(p, cl.Common().StaticCallee()) == f {
					recursive = true
				}
			})
		}
		if !recursive {
			continue
		}
		if at := invokesRead(f); at != nil {
			ic.collector, ic.readCall = f, at
			break
		}
		eachCall(f, func(cl ssa.CallInstruction) {
			h := normFn(p, cl.Common().StaticCallee())
			if h == nil || h == f || ic.collector != nil {
				return
			}
			for _, d := range direct {
				if d == h && len(h.Blocks) <= 6 {
					ic.collector, ic.readCall, ic.readHelper = f, cl, h
				}
			}
		})
		if ic.collector != nil {
			break
		}
	}
	if ic.collector == nil && len(direct) > 0 {
		ic.collector = direct[len(direct)-1]
		ic.readCall = invokesRead(ic.collector)
	}
	// The claim (membership test + insertion into the shared file table) is made
	// by the collector itself or by a helper it calls (a method of the table).
	ic.claimer = ic.collector
	if ic.collector != nil && !ic.hasUpdate(ic.collector) {
		eachInstr(ic.collector, func(_ *ssa.BasicBlock, i ssa.Instruction) {
			cl, ok := i.(*ssa.Call)
			if !ok || ic.claimCall != nil {
				return
			}
			if h := cl.Call.StaticCallee(); h != nil && isRepoFn(h) && h != ic.collector && ic.hasUpdate(h) {
				ic.claimer, ic.claimCall = h, cl
			}
		})
	}
	for _, f := range p.RepoFuncs() {
		if f == ic.collector || f == ic.claimer || f == ic.readHelper || fnPkgPath(f) != pk.PkgPath {
			continue
		}
		if len(ic.mapAccesses(f)) > 0 {
			ic.users = append(ic.users, f)
		}
	}
	// locked accessors of the table are not users themselves: the functions that
	// call them are (their look-ups go through the accessor)
	ic.accessors = map[*ssa.Function]bool{}
	var rest []*ssa.Function
	for _, u := range ic.users {
		if ic.isLockedAccessor(u) {
			ic.accessors[u] = true
		} else {
			rest = append(rest, u)
		}
	}
	ic.users = rest
	if len(ic.accessors) > 0 {
		have := map[*ssa.Function]bool{}
		for _, u := range ic.users {
			have[u] = true
		}
		for _, f := range p.RepoFuncs() {
			if f == ic.collector || f == ic.claimer || f == ic.readHelper || ic.accessors[f] || have[f] || fnPkgPath(f) != pk.PkgPath {
				continue
			}
			if f.Parent() != nil && (f.Parent() == ic.collector) {
				continue
			}
			if len(ic.mapAccesses(f)) > 0 {
				ic.users = append(ic.users, f)
			}
		}
	}
	return ic
}

func (ic *importClosure) hasUpdate(f *ssa.Function) bool {
	for _, a := range ic.mapAccesses(f) {
		if _, ok := a.(*ssa.MapUpdate); ok {
			return true
		}
	}
	return false
}

func (ic *importClosure) isMapLoad(v ssa.Value) bool {
	own, fld, _, ok := loadedField(v)
	return ok && own == ic.RL && fld == ic.mapFld
}

// mapAccesses: instructions that read or write the retrieved map.
func (ic *importClosure) mapAccesses(f *ssa.Function) []ssa.Instruction {
	var out []ssa.Instruction
	eachInstr(f, func(_ *ssa.BasicBlock, i ssa.Instruction) {
		switch x := i.(type) {
		case *ssa.Lookup:
			if ic.isMapLoad(x.X) {
				out = append(out, i)
			}
		case *ssa.MapUpdate:
			if ic.isMapLoad(x.Map) {
				out = append(out, i)
			}
		case *ssa.Range:
			if ic.isMapLoad(x.X) {
				out = append(out, i)
			}
		case *ssa.Call:
			if b, ok := x.Call.Value.(*ssa.Builtin); ok && (b.Name() == "len" || b.Name() == "delete") {
				for _, a := range x.Call.Args {
					if ic.isMapLoad(a) {
						out = append(out, i)
					}
				}
			}
			if sc := x.Call.StaticCallee(); sc != nil && ic.accessors[sc] {
				out = append(out, i) // a keyed look-up made through the table's locked accessor
			}
		}
	})
	return out
}

// isLockedAccessor: a method of the table type whose only access to the map is
// a look-up keyed by its parameter, made while it holds the mutex itself.
func (ic *importClosure) isLockedAccessor(f *ssa.Function) bool {
	if f.Parent() != nil || f.Signature.Recv() == nil || namedOf(f.Signature.Recv().Type()) != ic.RL {
		return false
	}
	acc := ic.mapAccesses(f)
	if len(acc) != 1 {
		return false
	}
	lk, ok := acc[0].(*ssa.Lookup)
	if !ok {
		return false
	}
	if _, isParam := unspill(lk.Index).(*ssa.Parameter); !isParam {
		return false
	}
	hs := mustHold(f, func(i ssa.Instruction) bool { return ic.isMutexCall(i, "Lock") }, func(i ssa.Instruction) bool { return ic.isMutexCall(i, "Unlock") })
	return hs.At(lk)
}

func (ic *importClosure) isMutexCall(i ssa.Instruction, name string) bool {
	cl, ok := i.(ssa.CallInstruction)
	if !ok {
		return false
	}
	if _, isDefer := i.(*ssa.Defer); isDefer {
		return false
	}
	o := calleeObj(cl)
	if o == nil || o.Pkg() == nil || o.Pkg().Path() != "sync" || o.Name() != name {
		return false
	}
	if len(cl.Common().Args) == 0 {
		return false
	}
	own, fld, _, ok := fieldOfAddr(cl.Common().Args[0])
	return ok && own == ic.RL && fld == ic.muFld
}

func isGroupCall(i ssa.Instruction, name string) (ssa.CallInstruction, bool) {
	cl, ok := i.(ssa.CallInstruction)
	if !ok {
		return nil, false
	}
	o := calleeObj(cl)
	if o != nil && objIs(o, "golang.org/x/sync/errgroup", "Group."+name) {
		return cl, true
	}
	return nil, false
}

func checkC05(c *Check) {
	p := c.P
	c.Explanation = "C05 (structural clauses): in the import collector (discovered as the pkg/parse function that calls reader.Reader.ReadHashBranch) the claim of a file in the retrieved map dominates the read and lies in one Lock…Unlock region with the look-up; every access to the retrieved map in a function that can run on an errgroup goroutine is inside a must-locked region and Lock/Unlock pair on all paths; fields published before the read are not rewritten after publication while the already-claimed branch reads them; every errgroup Go is joined by Wait on all paths to return; the flatten function uses no map iteration, appends a file before visiting its imports, visits imports in forward order, tests membership before appending, and only runs after the collector has returned; map keys are produced only by the canonicalising function; the depth counter is incremented by exactly one per import level and compared with >=. SSA dominance and CFG path search; nothing is executed."
	c.Assumptions = append(c.Assumptions,
		"errgroup.Group.Wait returns only after all Go callbacks returned (library contract)",
		"order of importDef entries produced by the pre-parse listener is source order (not decided here)")
	ic := findImportClosure(c)
	if ic == nil || ic.collector == nil || ic.canon == nil {
		c.Undecidedf("ANCHOR", "import closure", "-", "cannot resolve the retrieved-list type / collector / canonicaliser in pkg/parse: unresolved anchor")
		return
	}
	col := ic.collector
	c.Okf("ANCHOR", "collector="+fnName(col), p.pos(col.Pos()), "retrieved list %s{%s,%s}, canonicaliser %s, other users %d",
		ic.RL.Obj().Name(), ic.mapFld, ic.muFld, fnName(ic.canon), len(ic.users))

	c.Counts["constant_trim_cutsets"] = pathCutsets(c, "PATH-CUTSET", func(pk string) bool {
		return pk == repoMod+"/pkg/parse" || pk == repoMod+"/pkg/syslutil" || pk == repoMod+"/pkg/loader" || pk == repoMod+"/pkg/mod" || pk == repoMod+"/pkg/importer"
	})

	// termination of the closure walk: tokens and locks taken by the collector
	// (and its goroutine closures) are given back on every exit and are not held
	// while a nested collector call can take them again
	colSet := map[*ssa.Function]bool{}
	for _, f := range withClosures(col) {
		colSet[f] = true
	}
	if ic.claimer != nil {
		colSet[ic.claimer] = true
	}
	c.Counts["collector_blocking_resources"] = blockingResources(c, "RESOURCE-PAIR", "HELD-ACROSS-NESTING", colSet)

	// a look-up-or-compute table on the import path must be keyed by everything
	// the remembered value depends on (the importing file's directory included)
	parseFns := map[*ssa.Function]bool{}
	for _, f := range p.RepoFuncs() {
		if fnPkgPath(f) == p.Pkg(parsePkg).PkgPath && !isListenerCode(p, f) {
			parseFns[f] = true
		}
	}
	nMemo := memoKeys(c, "MEMO-KEY", parseFns)
	c.Counts["memo_tables"] = nMemo
	c.Okf("MEMO-KEY", "scan", "-", "%d functions of pkg/parse scanned for look-up-or-compute tables: %d found and evaluated", len(parseFns), nMemo)
	c05Settings(c)
	arrivalOrder(c, "ARRIVAL-ORDER")
	importsInTextOrder(c, "IMPORTS-IN-TEXT-ORDER")
	flattenResultKept(c, "FLATTEN-RESULT-KEPT")

	collectorSharing(c, ic)
	// 5. join
	nGo := 0
	for _, f := range p.RepoFuncs() {
		if fnPkgPath(f) != p.Pkg(parsePkg).PkgPath {
			continue
		}
		eachInstr(f, func(_ *ssa.BasicBlock, i ssa.Instruction) {
			if _, ok := isGroupCall(i, "Go"); ok {
				nGo++
				wait := func(x ssa.Instruction) bool { _, ok := isGroupCall(x, "Wait"); return ok }
				if ret, bad := reachAvoiding(i, isReturn, wait); bad {
					c.Flagf("JOIN", fnName(f)+"|Go joined by Wait", p.pos(i.Pos()), "a path from Group.Go reaches the return at %s without Group.Wait: the function returns while imports are still being fetched", p.pos(ret.Pos()))
				} else {
					c.Okf("JOIN", fnName(f)+"|Go joined by Wait", p.pos(i.Pos()), "every path from Group.Go to a return passes Group.Wait")
				}
			}
			if g, ok := i.(*ssa.Go); ok {
				c.Flagf("JOIN", fnName(f)+"|bare go statement", p.pos(g.Pos()), "goroutine started without errgroup join on the compile pipeline")
			}
		})
	}
	c.Counts["errgroup_go_sites"] = nGo
	// the Wait error must be checked: handled under C06.

	// 6. flatten
	c05Flatten(c, ic)
	// 7. canonical keys
	c05Canon(c, ic)
	// 8. depth
	c05Depth(c, ic)
}

// collectorSharing: the rules on the file table shared by the goroutines of one
// closure walk — claim before read, test and claim in one critical section,
// every access under the mutex, unlocked readers only after the join, and no
// field read in the already-claimed branch that the claimer still writes.
// Claimed under C05 (each file once) and C07 (no data race, no dependence of the
// model on the schedule).
func collectorSharing(c *Check, ic *importClosure) {
	p := c.P
	col := ic.collector
	claimCompares(c, ic)
	// locate read, claim, lookup
	read := ic.readCall
	if read == nil {
		c.Undecidedf("CLAIM-BEFORE-READ", fnName(col), p.pos(col.Pos()), "the collector's read of the file was not found: unresolved anchor")
		return
	}
	claimer, claimCall := ic.claimer, ic.claimCall
	if claimer != col {
		c.Notes = append(c.Notes, "the claim is made by the helper "+fnName(claimer)+" called from the collector")
	}
	var claims []*ssa.MapUpdate
	var lookups []*ssa.Lookup
	for _, a := range ic.mapAccesses(claimer) {
		switch x := a.(type) {
		case *ssa.MapUpdate:
			claims = append(claims, x)
		case *ssa.Lookup:
			lookups = append(lookups, x)
		}
	}
	ck := fnName(col)
	// 1. claim before read
	if len(claims) == 0 {
		c.Flagf("CLAIM-BEFORE-READ", ck, p.pos(col.Pos()), "collector never records the file in the retrieved map")
	}
	for _, cm := range claims {
		var claimSite ssa.Instruction = cm
		if claimCall != nil {
			claimSite = claimCall
		}
		claimFirst := instrDominates(claimSite, read)
		if !claimFirst {
			// no feasible path reaches the read without passing the claim (the
			// look-up that precedes a put-if-absent leaves a path in the graph that
			// the value of its found flag rules out)
			claimFirst = !feasibleReach(col, nil, nil, func(i ssa.Instruction) bool { return i == read.(ssa.Instruction) }, func(i ssa.Instruction) bool { return i == claimSite })
		}
		c.Cond(claimFirst, "CLAIM-BEFORE-READ", ck+"|claim dominates ReadHashBranch", p.pos(claimSite.Pos()),
			"the insertion into the retrieved map dominates the read of the file",
			"the file is read before (or without) being claimed in the retrieved map: two goroutines can both fetch it, and a cycle no longer terminates")
		// lookup and claim in one critical section
		for _, lk := range lookups {
			unl := func(i ssa.Instruction) bool { return ic.isMutexCall(i, "Unlock") }
			// is there a path lookup → claim that crosses an Unlock?
			crosses := false
			if canReach(lk, cm, nil) && !canReach(lk, cm, unl) {
				crosses = true
			}
			// or some path where unlock happens and claim is still reached
			if !crosses {
				// any Unlock reachable from lookup from which claim is reachable
				eachInstr(claimer, func(_ *ssa.BasicBlock, i ssa.Instruction) {
					if unl(i) && canReach(lk, i, nil) && canReach(i, cm, nil) {
						crosses = true
					}
				})
			}
			c.Cond(!crosses && instrDominates(lk, cm), "CLAIM-ATOMIC", ck+"|lookup and claim in one critical section", p.pos(cm.Pos()),
				"no Unlock can execute between the membership test and the claim",
				"the mutex is released between the membership test and the claim (check-then-act race: a file can be claimed twice)")
		}
		// key of claim is canonical & same as lookup key
		for _, lk := range lookups {
			c.Cond(lk.Index == cm.Key, "CLAIM-ATOMIC", ck+"|same key tested and claimed", p.pos(cm.Pos()),
				"membership test and claim use the same key value", "membership test and claim use different keys")
		}
	}
	// 2. lock discipline in collector (+closures) and pairing
	lockOn := func(i ssa.Instruction) bool { return ic.isMutexCall(i, "Lock") }
	lockOff := func(i ssa.Instruction) bool { return ic.isMutexCall(i, "Unlock") }
	lockScope := withClosures(col)
	if claimer != col {
		lockScope = append(lockScope, withClosures(claimer)...)
	}
	for _, f := range lockScope {
		hs := mustHold(f, lockOn, lockOff)
		for _, a := range ic.mapAccesses(f) {
			if cl, ok := a.(*ssa.Call); ok && cl.Call.StaticCallee() != nil && ic.accessors[cl.Call.StaticCallee()] {
				c.Okf("LOCKED-ACCESS", fmt.Sprintf("%s|%T", fnName(f), a), p.pos(a.Pos()), "the look-up goes through %s, which takes the mutex itself", fnName(cl.Call.StaticCallee()))
				continue
			}
			c.Cond(hs.At(a), "LOCKED-ACCESS", fmt.Sprintf("%s|%T", fnName(f), a), p.pos(a.Pos()),
				"access to the shared retrieved map is inside a must-locked region",
				"the shared retrieved map is accessed on a goroutine without holding its mutex on every path")
		}
		// pairing: lock not held at any return; no double lock
		hasDeferUnlock := false
		eachInstr(f, func(_ *ssa.BasicBlock, i ssa.Instruction) {
			if d, ok := i.(*ssa.Defer); ok {
				if o := calleeObj(d); o != nil && o.Pkg() != nil && o.Pkg().Path() == "sync" && o.Name() == "Unlock" {
					hasDeferUnlock = true
				}
			}
		})
		nl := 0
		eachInstr(f, func(_ *ssa.BasicBlock, i ssa.Instruction) {
			if lockOn(i) {
				nl++
				// may-held analysis: from the Lock, a Return must not be reachable without an Unlock
				if ret, bad := reachAvoiding(i, isReturn, lockOff); bad && !hasDeferUnlock {
					c.Flagf("LOCK-PAIR", fnName(f)+"|Lock released on all paths", p.pos(i.Pos()),
						"a path from Lock reaches the return at %s without Unlock: every later import blocks forever", p.pos(ret.Pos()))
				} else {
					c.Okf("LOCK-PAIR", fnName(f)+"|Lock released on all paths", p.pos(i.Pos()), "every path from Lock to a return passes Unlock")
				}
				// a second Lock must not be reachable without an Unlock in between
				if l2, bad := reachAvoiding(i, lockOn, lockOff); bad {
					c.Flagf("LOCK-PAIR", fnName(f)+"|no re-lock", p.pos(l2.Pos()), "Lock can be re-acquired while held (self-deadlock)")
				}
			}
		})
		c.Counts["lock_sites"] += nl
	}
	// 3. other users of the map: allowed only after the collector returned
	for _, u := range ic.users {
		// every caller chain: find calls to u (or to u's root) in pkg/parse
		root := u
		for root.Parent() != nil {
			root = root.Parent()
		}
		ncalls := 0
		for _, f := range p.RepoFuncs() {
			if f == root {
				continue
			}
			eachCall(f, func(cl ssa.CallInstruction) {
				if staticCallee(cl) != root {
					return
				}
				ncalls++
				// must be dominated by a (non-go, non-closure) call to the collector in the same function
				dom := false
				eachCall(f, func(c2 ssa.CallInstruction) {
					if _, isGo := c2.(*ssa.Go); isGo {
						return
					}
					if staticCallee(c2) == col && instrDominates(c2, cl) {
						dom = true
					}
				})
				onGoroutine := f.Parent() != nil
				c.Cond(dom && !onGoroutine, "UNLOCKED-USER", fmt.Sprintf("%s|called from %s", fnName(root), fnName(f)), p.pos(cl.Pos()),
					"unlocked reader of the retrieved map runs only after the root collector call has returned (all goroutines joined)",
					"a function that reads the retrieved map without the mutex is called where the collector may still be running")
			})
		}
		if ncalls == 0 {
			c.Undecidedf("UNLOCKED-USER", fnName(root), p.pos(root.Pos()), "no static call of the unlocked map user found")
		}
	}
	// 4. publication safety
	if claimCall != nil {
		c05PublicationViaHelper(c, ic, claimer, claimCall)
	} else {
		c05Publication(c, ic, claims, lookups)
	}
}

func c05Publication(c *Check, ic *importClosure, claims []*ssa.MapUpdate, lookups []*ssa.Lookup) {
	p := c.P
	col := ic.collector
	if len(claims) != 1 || len(lookups) != 1 {
		c.Undecidedf("PUBLICATION", fnName(col), p.pos(col.Pos()), "expected one claim and one look-up in the collector, found %d/%d", len(claims), len(lookups))
		return
	}
	claim, lk := claims[0], lookups[0]
	pub := claim.Value // *fileInfo
	// stores through pub after publication
	var after [][]string
	var afterPos []token.Pos
	for _, f := range withClosures(col) {
		eachInstr(f, func(_ *ssa.BasicBlock, i ssa.Instruction) {
			s, ok := i.(*ssa.Store)
			if !ok {
				return
			}
			root, path := fieldPath(s.Addr)
			if len(path) == 0 {
				return
			}
			if root != pub && !(f != col) {
				return
			}
			if root != pub {
				// in closures: a free variable bound to pub
				return
			}
			if f == col && instrDominates(s, claim) {
				return // before publication
			}
			after = append(after, path)
			afterPos = append(afterPos, s.Pos())
		})
	}
	// reads through the looked-up value in the claimed branch
	var found ssa.Value
	for _, r := range *lk.Referrers() {
		if ex, ok := r.(*ssa.Extract); ok && ex.Index == 0 {
			found = ex
		}
	}
	nReads := 0
	if found != nil {
		var walk func(v ssa.Value, path []string)
		walk = func(v ssa.Value, path []string) {
			for _, r := range *v.Referrers() {
				switch x := r.(type) {
				case *ssa.FieldAddr:
					st := x.X.Type().Underlying().(*types.Pointer).Elem().Underlying().(*types.Struct)
					walk(x, append(append([]string{}, path...), st.Field(x.Field).Name()))
				case *ssa.UnOp:
					if x.Op == token.MUL && len(path) > 0 {
						nReads++
						conflict := -1
						for k, a := range after {
							if hasPrefixPath(a, path) || hasPrefixPath(path, a) {
								conflict = k
							}
						}
						key := fmt.Sprintf("%s|claimed-branch read of .%s", fnName(ic.collector), strings.Join(path, "."))
						if conflict >= 0 {
							c.Flagf("PUBLICATION", key, p.pos(x.Pos()), "the already-claimed branch reads .%s, which the claiming goroutine writes after publication at %s without the mutex (data race; value depends on fetch timing)",
								strings.Join(path, "."), p.pos(afterPos[conflict]))
						} else {
							c.Okf("PUBLICATION", key, p.pos(x.Pos()), "field is written only before the entry is published under the mutex")
						}
					}
				}
			}
		}
		walk(found, nil)
	}
	c.Counts["post_publication_stores"] = len(after)
	c.Counts["claimed_branch_reads"] = nReads
	if nReads == 0 {
		c.Okf("PUBLICATION", fnName(col)+"|claimed branch reads nothing", p.pos(lk.Pos()), "the already-claimed branch does not read the published entry")
	}
}

func c05Flatten(c *Check, ic *importClosure) {
	p := c.P
	for _, u := range ic.users {
		if u.Parent() != nil {
			continue
		}
		// a plain accessor of the table (look one entry up and return it) builds no
		// list: it is judged by the lock rules, not by the flatten rules
		buildsList := false
		eachInstr(u, func(b *ssa.BasicBlock, i ssa.Instruction) {
			if cl, ok := i.(*ssa.Call); ok {
				if bi, ok := cl.Call.Value.(*ssa.Builtin); ok && bi.Name() == "append" {
					buildsList = true
				}
				if staticCallee(cl) == u {
					buildsList = true
				}
			}
			if len(enclosingLoop(b)) > 0 {
				buildsList = true
			}
		})
		if !buildsList {
			continue
		}
		key := fnName(u)
		// (a) no iteration over the map
		for _, a := range ic.mapAccesses(u) {
			if r, ok := a.(*ssa.Range); ok {
				c.Flagf("FLATTEN-ORDER", key+"|no map iteration", p.pos(r.Pos()), "the ordered file list is built by iterating the retrieved map: order depends on Go's map iteration")
			}
			if _, ok := a.(*ssa.MapUpdate); ok {
				c.Flagf("FLATTEN-ORDER", key+"|read-only", p.pos(a.Pos()), "flatten writes the retrieved map")
			}
		}
		c.Okf("FLATTEN-ORDER", key+"|map only indexed by key", p.pos(u.Pos()), "%d keyed accesses, no range over the map", len(ic.mapAccesses(u)))
		lookupRules := func(ap *ssa.Call) {
			// the appended element derives from the looked-up entry, and the loop ranges over that entry's imports
			var lkp ssa.Value
			for _, a := range ic.mapAccesses(u) {
				if l, ok := a.(*ssa.Lookup); ok {
					lkp = l
				}
				if cl, ok := a.(*ssa.Call); ok && cl.Call.StaticCallee() != nil && ic.accessors[cl.Call.StaticCallee()] {
					lkp = cl // (entry, found) from the locked accessor
				}
			}
			if lkp != nil {
				okA := derives(ap.Call.Args[1], func(v ssa.Value) bool { return v == lkp }, nil)
				c.Cond(okA, "FLATTEN-ORDER", key+"|appends the looked-up file", p.pos(ap.Pos()), "appended element comes from the entry found under the canonical key", "appended element is not the entry found under the key")
				// found-guard: append only on found==true
				guard := false
				for _, r := range *lkp.Referrers() {
					if ex, ok := r.(*ssa.Extract); ok && ex.Index == 1 {
						for _, br := range branchesOn(ex) {
							if edgeDominates(br.If.Block(), br.TrueSucc, ap.Block()) {
								guard = true
							}
						}
					}
				}
				c.Cond(guard, "FLATTEN-ORDER", key+"|missing entry skipped", p.pos(ap.Pos()), "append is guarded by the comma-ok result of the look-up", "entry used without checking it was found (nil dereference for depth-limited imports)")
			}
		}
		memberRule := func(ap *ssa.Call) {
			// (each once) membership test before append: a comparison of two canonical
			// keys whose true edge returns, located in a loop that dominates the append
			member := false
			eachInstr(u, func(b *ssa.BasicBlock, i ssa.Instruction) {
				bin, ok := i.(*ssa.BinOp)
				if !ok || bin.Op != token.EQL {
					return
				}
				isCanon := func(v ssa.Value) bool {
					call, ok := v.(*ssa.Call)
					return ok && staticCallee(call) == ic.canon
				}
				if !isCanon(bin.X) || !isCanon(bin.Y) {
					return
				}
				// one side must be computed from an element of the *whole* output
				// list: list[i] with list loaded directly from the pointer parameter
				// (no re-slicing), i a forward induction variable bounded by len(list)
				whole := false
				for _, side := range []ssa.Value{bin.X, bin.Y} {
					call := side.(*ssa.Call)
					derives(call.Call.Args[0], func(v ssa.Value) bool {
						ia, ok := v.(*ssa.IndexAddr)
						if !ok {
							return false
						}
						ld, ok := ia.X.(*ssa.UnOp)
						if !ok || ld.Op != token.MUL {
							return false
						}
						if _, isParam := unspill(ld.X).(*ssa.Parameter); !isParam {
							return false
						}
						if fwd, _ := inductionForward(ia.Index); !fwd {
							return false
						}
						// bound: idx < len(list)
						bounded := false
						for _, r := range *ia.Index.Referrers() {
							if cmp, ok := r.(*ssa.BinOp); ok && cmp.Op == token.LSS {
								if lc, ok := cmp.Y.(*ssa.Call); ok {
									if bi, ok := lc.Call.Value.(*ssa.Builtin); ok && bi.Name() == "len" && lc.Call.Args[0] == ssa.Value(ld) {
										bounded = true
									}
								}
							}
						}
						if bounded {
							whole = true
						}
						return bounded
					}, nil)
				}
				if !whole {
					return
				}
				for _, br := range branchesOn(bin) {
					t := br.TrueSucc
					if _, isRet := t.Instrs[len(t.Instrs)-1].(*ssa.Return); isRet && len(t.Instrs) == 1 {
						// the loop header dominates the append block and append is reached only via loop exit
						if br.If.Block().Dominates(ap.Block()) || loopHeaderOf(br.If.Block()).Dominates(ap.Block()) {
							member = true
						}
					}
				}
			})
			if !member {
				member = memberByHelper(ic, u, ap)
			}
			c.Cond(member, "EACH-ONCE", key+"|membership test before append", p.pos(ap.Pos()),
				"flatten returns early when the canonical key of the file is already in the list (each file once; cycles end)",
				"no early return on an already-listed canonical key precedes the append: a file reached twice is merged twice and an import cycle recurses forever")
		}
		// recursive calls
		var recCalls []*ssa.Call
		eachCall(u, func(cl ssa.CallInstruction) {
			if call, ok := cl.(*ssa.Call); ok && staticCallee(cl) == u {
				recCalls = append(recCalls, call)
			}
		})
		if len(recCalls) == 0 {
			// An iterative flatten keeps a work list. Taking work from the front
			// (w = w[1:]) while new imports are appended at the back is a queue:
			// the files come out breadth-first, not in the depth-first order in
			// which an import stands for the text of the imported file.
			var fifo ssa.Instruction
			eachInstr(u, func(_ *ssa.BasicBlock, i ssa.Instruction) {
				sl, ok := i.(*ssa.Slice)
				if !ok || sl.High != nil || sl.Low == nil {
					return
				}
				if k, isK := constInt(sl.Low); !isK || k != 1 {
					return
				}
				// the sliced list is also appended to in the same function
				grown := false
				eachInstr(u, func(_ *ssa.BasicBlock, j ssa.Instruction) {
					if call, ok := j.(*ssa.Call); ok {
						if b, ok := call.Call.Value.(*ssa.Builtin); ok && b.Name() == "append" && types.Identical(call.Type(), sl.Type()) {
							if _, isStr := sl.Type().Underlying().(*types.Slice); isStr {
								grown = true
							}
						}
					}
				})
				if grown {
					fifo = i
				}
			})
			if fifo != nil {
				c.Flagf("FLATTEN-ORDER", key+"|depth-first order", p.pos(fifo.Pos()), "the flatten keeps a first-in-first-out work list (front removed here, imports appended at the back): files are ordered breadth-first, so declarations of a nested import come after those of a later sibling import")
			} else if lf := findLifo(u); lf != nil && lf.out != nil {
				// A stack: the entry taken is the one pushed last. Depth-first
				// pre-order needs the file appended before its imports are pushed
				// and the imports pushed last-to-first, so that the first import is
				// on top.
				for _, push := range lf.pushes {
					c.Cond(instrDominates(lf.out, push), "FLATTEN-ORDER", key+"|self before imports", p.pos(push.Pos()),
						"a file is appended before its imports are put on the stack (pre-order)",
						"imports are put on the stack before the importing file is appended: flatten order is not the documented pre-order")
					rev, why := pushedInReverse(push)
					c.Cond(rev, "FLATTEN-ORDER", key+"|imports visited in source order", p.pos(push.Pos()),
						"imports are pushed from the last to the first, so the stack hands them out in source order", why)
				}
				lookupRules(lf.out)
				memberRule(lf.out)
			} else {
				c.Undecidedf("FLATTEN-ORDER", key+"|recursion", p.pos(u.Pos()), "flatten is neither recursive nor a recognisable work-list loop: the ordering rule cannot be evaluated")
			}
			continue
		}
		// appends to the output list (store of append result through a pointer parameter)
		var appends []ssa.Instruction
		eachInstr(u, func(_ *ssa.BasicBlock, i ssa.Instruction) {
			if call, ok := i.(*ssa.Call); ok {
				if b, ok := call.Call.Value.(*ssa.Builtin); ok && b.Name() == "append" {
					appends = append(appends, i)
				}
			}
		})
		if len(appends) != 1 {
			c.Undecidedf("FLATTEN-ORDER", key+"|append", p.pos(u.Pos()), "expected exactly one append in flatten, found %d", len(appends))
			continue
		}
		ap := appends[0].(*ssa.Call)
		for _, rc := range recCalls {
			c.Cond(instrDominates(ap, rc), "FLATTEN-ORDER", key+"|self before imports", p.pos(rc.Pos()),
				"a file is appended before its imports are visited (pre-order)",
				"imports are visited before the importing file is appended: flatten order is not the documented pre-order")
			// forward loop: the argument derives from an IndexAddr whose index is phi(-1|0, +1)
			fwd, why := forwardIndexed(rc)
			c.Cond(fwd, "FLATTEN-ORDER", key+"|imports visited in source order", p.pos(rc.Pos()),
				"recursive visit walks the import slice with an index that starts at the front and increases by one", why)
			lookupRules(ap)
		}
		memberRule(ap)
	}
}

func loopHeaderOf(b *ssa.BasicBlock) *ssa.BasicBlock {
	// nearest dominator that has a back edge (a predecessor it dominates)
	for x := b; x != nil; x = x.Idom() {
		for _, pr := range x.Preds {
			if x.Dominates(pr) {
				return x
			}
		}
	}
	return b
}

// forwardIndexed: some argument of call derives from slice[idx] where idx is
// an induction variable starting at -1/0 and stepping by +1.
func forwardIndexed(call *ssa.Call) (bool, string) {
	var ia *ssa.IndexAddr
	for _, a := range call.Call.Args {
		derives(a, func(v ssa.Value) bool {
			if x, ok := v.(*ssa.IndexAddr); ok {
				ia = x
				return true
			}
			return false
		}, nil)
		if ia != nil {
			break
		}
	}
	if ia == nil {
		return false, "the recursive call's argument does not come from an indexed element of the import slice"
	}
	return inductionForward(ia.Index)
}

func inductionForward(idx ssa.Value) (bool, string) {
	// idx is either phi or phi+1
	var phi *ssa.Phi
	switch x := idx.(type) {
	case *ssa.Phi:
		phi = x
	case *ssa.BinOp:
		if ph, ok := x.X.(*ssa.Phi); ok && x.Op == token.ADD {
			if k, ok := constInt(x.Y); ok && k == 1 {
				phi = ph
			}
		}
	}
	if phi == nil {
		return false, "index is not a simple induction variable"
	}
	sawInit, sawStep := false, false
	for _, e := range phi.Edges {
		if k, ok := constInt(e); ok {
			if k == 0 || k == -1 {
				sawInit = true
			} else {
				return false, fmt.Sprintf("loop starts at index %d, not at the front", k)
			}
			continue
		}
		if b, ok := e.(*ssa.BinOp); ok && b.X == phi {
			if k, ok := constInt(b.Y); ok && ((b.Op == token.ADD && k == 1) || (b.Op == token.SUB && k == -1)) {
				sawStep = true
				continue
			}
			return false, "loop index does not advance by +1 (imports visited in reverse or with a stride)"
		}
		return false, "loop index initialised from a non-constant (e.g. len-1: reverse iteration)"
	}
	if sawInit && sawStep {
		return true, ""
	}
	return false, "loop shape not recognised"
}

func c05Canon(c *Check, ic *importClosure) {
	p := c.P
	// conversions to the key type anywhere in pkg/parse
	n := 0
	for _, f := range p.RepoFuncs() {
		if !strings.HasPrefix(fnPkgPath(f), repoMod) {
			continue
		}
		eachInstr(f, func(_ *ssa.BasicBlock, i ssa.Instruction) {
			var t types.Type
			switch x := i.(type) {
			case *ssa.ChangeType:
				t = x.Type()
			case *ssa.Convert:
				t = x.Type()
			default:
				return
			}
			if !types.Identical(t, ic.keyType) {
				return
			}
			n++
			root := f
			for root.Parent() != nil {
				root = root.Parent()
			}
			c.Cond(root == ic.canon, "CANON-KEY", fnName(f)+"|conversion to "+ic.keyType.String()[strings.LastIndex(ic.keyType.String(), ".")+1:], p.pos(i.Pos()),
				"map key constructed inside the canonicalising function", "a raw string is converted to the map key type outside the canonicalising function: two spellings of one file get two entries")
		})
	}
	// constants of the key type (untyped string constants converted implicitly)
	for _, f := range p.RepoFuncs() {
		if fnPkgPath(f) != p.Pkg(parsePkg).PkgPath {
			continue
		}
		for _, a := range ic.mapAccesses(f) {
			var k ssa.Value
			switch x := a.(type) {
			case *ssa.Lookup:
				k = x.Index
				if ic.accessors[f] {
					continue // the key is the accessor's parameter: judged at its call sites
				}
			case *ssa.MapUpdate:
				k = x.Key
			case *ssa.Call:
				// a look-up through a locked accessor: the key is the argument that
				// becomes the accessor's index
				h := x.Call.StaticCallee()
				if h == nil || !ic.accessors[h] {
					continue
				}
				for _, ha := range ic.mapAccesses(h) {
					if lk, ok := ha.(*ssa.Lookup); ok {
						if prm, ok := unspill(lk.Index).(*ssa.Parameter); ok {
							for ai, fp := range h.Params {
								if fp == prm && ai < len(x.Call.Args) {
									k = x.Call.Args[ai]
								}
							}
						}
					}
				}
				if k == nil {
					continue
				}
			default:
				continue
			}
			isCanon := false
			if pr, ok := k.(*ssa.Parameter); ok && f == ic.claimer && ic.claimCall != nil {
				// the key is handed to the claim helper by the collector
				for ai, fp := range f.Params {
					if fp == pr && ai < len(ic.claimCall.Call.Args) {
						k = ic.claimCall.Call.Args[ai]
					}
				}
			}
			if call, ok := k.(*ssa.Call); ok && staticCallee(call) == ic.canon {
				isCanon = true
			}
			c.Cond(isCanon, "CANON-KEY", fmt.Sprintf("%s|%T key", fnName(f), a), p.pos(a.Pos()),
				"key is the direct result of the canonicalising function", "map accessed with a key that is not the result of the canonicalising function")
		}
	}
	// shape of the canonicaliser: calls the cleaner and cuts at '@'
	callsClean, cutsAt := false, false
	eachCall(ic.canon, func(cl ssa.CallInstruction) {
		if sc := staticCallee(cl); sc != nil && isRepoFn(sc) && strings.Contains(strings.ToLower(sc.Name()), "clean") {
			callsClean = true
		}
		if callIs(cl, "strings", "Index") || callIs(cl, "strings", "Cut") || callIs(cl, "strings", "Split") || callIs(cl, "strings", "IndexByte") {
			if len(cl.Common().Args) > 1 {
				if s, ok := constString(cl.Common().Args[1]); ok && s == "@" {
					cutsAt = true
				}
				if k, ok := constInt(cl.Common().Args[1]); ok && k == '@' {
					cutsAt = true
				}
			}
		}
	})
	c.Cond(callsClean, "CANON-KEY", fnName(ic.canon)+"|cleans the path", p.pos(ic.canon.Pos()), "canonicaliser normalises the path spelling through the repository's clean function", "canonicaliser no longer normalises slash direction/dot segments")
	c.Cond(cutsAt, "CANON-KEY", fnName(ic.canon)+"|drops the version suffix", p.pos(ic.canon.Pos()), "canonicaliser cuts the key at '@'", "canonicaliser no longer drops the @version suffix: two versions of one file are both merged")
	c.Counts["key_conversions"] = n
}

func c05Depth(c *Check, ic *importClosure) {
	p := c.P
	col := ic.collector
	// recursive calls of the collector from its closures
	sig := col.Signature
	var intParams []int
	for i := 0; i < sig.Params().Len(); i++ {
		if b, ok := sig.Params().At(i).Type().(*types.Basic); ok && b.Kind() == types.Int {
			off := 0
			if sig.Recv() != nil {
				off = 1
			}
			intParams = append(intParams, i+off)
		}
	}
	if len(intParams) != 2 {
		c.Undecidedf("DEPTH", fnName(col), p.pos(col.Pos()), "expected (max, current) int parameters, found %d", len(intParams))
		return
	}
	maxI, curI := intParams[0], intParams[1]
	nrec := 0
	for _, f := range withClosures(col) {
		eachCall(f, func(cl ssa.CallInstruction) {
			if staticCallee(cl) != col {
				return
			}
			nrec++
			args := cl.Common().Args
			// current+1
			stepOK := false
			if b, ok := args[curI].(*ssa.BinOp); ok && b.Op == token.ADD {
				if k, ok := constInt(b.Y); ok && k == 1 && paramOrFree(b.X, col, curI) {
					stepOK = true
				}
			}
			c.Cond(stepOK, "DEPTH", fnName(f)+"|depth+1 per import level", p.pos(cl.Pos()), "recursive fetch passes current depth + 1", "recursive fetch does not pass current depth + 1: the depth limit cuts at the wrong level")
			c.Cond(paramOrFree(args[maxI], col, maxI), "DEPTH", fnName(f)+"|limit forwarded unchanged", p.pos(cl.Pos()), "limit forwarded unchanged", "depth limit altered on the way down")
		})
	}
	if nrec == 0 {
		// the collector comes back to itself through a helper that builds the task
		// for one child (`g.Go(p.childCollector(ctx, child, …, depth+1))`): the helper
		// forwards its own parameters, the step is made at the helper's call
		for _, f := range withClosures(col) {
			eachCall(f, func(cl ssa.CallInstruction) {
				h := normFn(p, staticCallee(cl))
				if h == nil || h == col || fnPkgPath(h) != fnPkgPath(col) {
					return
				}
				// which parameters of h reach col's (max, current) unchanged?
				hMax, hCur := -1, -1
				for _, g := range withClosures(h) {
					eachCall(g, func(c2 ssa.CallInstruction) {
						if staticCallee(c2) != col {
							return
						}
						a := c2.Common().Args
						for j := range h.Params {
							if maxI < len(a) && paramOrFree(a[maxI], h, j) {
								hMax = j
							}
							if curI < len(a) && paramOrFree(a[curI], h, j) {
								hCur = j
							}
						}
					})
				}
				if hMax < 0 || hCur < 0 {
					return
				}
				nrec++
				args := cl.Common().Args
				stepOK := false
				if hCur < len(args) {
					if b, ok := args[hCur].(*ssa.BinOp); ok && b.Op == token.ADD {
						if k, ok := constInt(b.Y); ok && k == 1 && paramOrFree(b.X, col, curI) {
							stepOK = true
						}
					}
				}
				c.Cond(stepOK, "DEPTH", fnName(f)+"|depth+1 per import level", p.pos(cl.Pos()), "recursive fetch (through "+h.Name()+") passes current depth + 1", "recursive fetch does not pass current depth + 1: the depth limit cuts at the wrong level")
				c.Cond(hMax < len(args) && paramOrFree(args[hMax], col, maxI), "DEPTH", fnName(f)+"|limit forwarded unchanged", p.pos(cl.Pos()), "limit forwarded unchanged", "depth limit altered on the way down")
			})
		}
	}
	if nrec == 0 {
		c.Undecidedf("DEPTH", fnName(col)+"|recursion", p.pos(col.Pos()), "collector does not call itself")
	}
	// cut-off test: current >= max (with max > 0) leads to return nil before any claim
	cut := false
	eachInstr(col, func(_ *ssa.BasicBlock, i ssa.Instruction) {
		bin, ok := i.(*ssa.BinOp)
		if !ok {
			return
		}
		isCur := func(v ssa.Value) bool { return unspill(v) == col.Params[curI] }
		isMax := func(v ssa.Value) bool { return unspill(v) == col.Params[maxI] }
		if (bin.Op == token.GEQ && isCur(bin.X) && isMax(bin.Y)) || (bin.Op == token.LEQ && isMax(bin.X) && isCur(bin.Y)) {
			for _, br := range branchesOn(bin) {
				t := br.TrueSucc
				if ret, ok := t.Instrs[len(t.Instrs)-1].(*ssa.Return); ok && len(ret.Results) == 1 && isNilConst(retVal(ret, 0)) {
					cut = true
				}
			}
		}
	})
	c.Cond(cut, "DEPTH", fnName(col)+"|cut when current >= limit", p.pos(col.Pos()), "collector returns nil without claiming when current depth >= limit", "the cut-off comparison is not `current >= limit` ⇒ files at the wrong distance are included/excluded")
}

func paramOrFree(v ssa.Value, col *ssa.Function, idx int) bool {
	v = unspill(v)
	switch x := v.(type) {
	case *ssa.Parameter:
		return x == col.Params[idx]
	case *ssa.FreeVar:
		// bound in parent to the parameter
		fn := x.Parent()
		k := -1
		for i, fv := range fn.FreeVars {
			if fv == x {
				k = i
			}
		}
		par := fn.Parent()
		if par == nil || k < 0 {
			return false
		}
		ok := false
		eachInstr(par, func(_ *ssa.BasicBlock, i ssa.Instruction) {
			if mc, isMC := i.(*ssa.MakeClosure); isMC && mc.Fn == fn {
				if paramOrFree(mc.Bindings[k], col, idx) {
					ok = true
				}
			}
		})
		return ok
	case *ssa.UnOp:
		// load of a captured variable cell: *fv where cell holds the param
		if x.Op == token.MUL {
			if fv, ok := x.X.(*ssa.FreeVar); ok {
				fn := fv.Parent()
				k := -1
				for i, q := range fn.FreeVars {
					if q == fv {
						k = i
					}
				}
				par := fn.Parent()
				if par == nil || k < 0 {
					return false
				}
				res := false
				eachInstr(par, func(_ *ssa.BasicBlock, i ssa.Instruction) {
					if mc, isMC := i.(*ssa.MakeClosure); isMC && mc.Fn == fn {
						if al, ok := mc.Bindings[k].(*ssa.Alloc); ok {
							n, all := 0, true
							for _, r := range *al.Referrers() {
								if s, ok := r.(*ssa.Store); ok && s.Addr == al {
									n++
									if !paramOrFree(s.Val, col, idx) {
										all = false
									}
								}
							}
							if n > 0 && all {
								res = true
							}
						}
					}
				})
				return res
			}
		}
	}
	return false
}

// c05Settings: the depth limit (and the other parse settings) only take effect
// when they are handed to the parser that loads the model. Every function that
// has the user's parse.Settings in reach — as a parameter, or as a field of its
// receiver — and loads a model must pass them on: a parser it constructs gets
// Set(settings) before it parses, and a loader it calls receives them. A load
// path that constructs a parser and never hands it the settings in reach
// ignores --max-import-depth.
func c05Settings(c *Check) {
	p := c.P
	isSettings := func(t types.Type) bool {
		if pt, ok := t.(*types.Pointer); ok {
			t = pt.Elem()
		}
		return typeIs(t, repoMod+"/"+parsePkg, "Settings")
	}
	n := 0
	for _, f := range p.RepoFuncs() {
		if strings.HasSuffix(p.fnFile(f), "_test.go") || f.Parent() != nil {
			continue
		}
		// settings in reach?
		reach := ""
		for _, prm := range f.Params {
			if isSettings(prm.Type()) {
				reach = "parameter " + prm.Name()
			}
			t := prm.Type()
			if pt, ok := t.Underlying().(*types.Pointer); ok {
				t = pt.Elem()
			}
			if st, ok := t.Underlying().(*types.Struct); ok && prm == f.Params[0] && f.Signature.Recv() != nil {
				for i := 0; i < st.NumFields(); i++ {
					if isSettings(st.Field(i).Type()) && !st.Field(i).Embedded() {
						reach = "receiver field " + st.Field(i).Name()
					}
				}
			}
		}
		if reach == "" || fnPkgPath(f) == repoMod+"/"+parsePkg {
			continue
		}
		// parsers constructed here
		eachInstr(f, func(_ *ssa.BasicBlock, i ssa.Instruction) {
			cl, ok := i.(*ssa.Call)
			if !ok {
				return
			}
			sc := staticCallee(cl)
			if sc == nil || sc.Name() != "NewParser" || fnPkgPath(sc) != repoMod+"/"+parsePkg {
				return
			}
			n++
			key := fmt.Sprintf("%s|parser gets the settings in reach", fnName(f))
			set := false
			var walk func(v ssa.Value, d int)
			seen := map[ssa.Value]bool{}
			walk = func(v ssa.Value, d int) {
				if d > 4 || seen[v] || v.Referrers() == nil {
					return
				}
				seen[v] = true
				for _, r := range *v.Referrers() {
					switch y := r.(type) {
					case ssa.CallInstruction:
						if o := calleeObj(y); o != nil && o.Name() == "Set" && len(y.Common().Args) >= 2 && isSettings(y.Common().Args[1].Type()) {
							set = true
						}
					case *ssa.Store:
						if y.Val == v {
							if al, ok := y.Addr.(*ssa.Alloc); ok {
								for _, r2 := range *al.Referrers() {
									if ld, ok := r2.(*ssa.UnOp); ok {
										walk(ld, d+1)
									}
								}
							}
						}
					case *ssa.Phi:
						walk(y, d+1)
					}
				}
			}
			walk(cl, 0)
			c.Cond(set, "SETTINGS-APPLIED", key, p.pos(cl.Pos()),
				"the parser constructed here is given the parse settings ("+reach+") before it is used",
				"a parser is constructed and used although the user's parse settings are in reach ("+reach+") and never handed to it: the import-depth limit is ignored on this load path")
		})
	}
	c.Counts["parsers_constructed_with_settings_in_reach"] = n
	if n == 0 {
		c.Undecidedf("SETTINGS-APPLIED", "load paths", "-", "no function with parse settings in reach constructs a parser: unresolved anchor")
	}
}

// sourceTextIntact: what the file reader returned is what the rest of the
// compiler sees. In the collector every consumer of the content — the text kept
// for the lexer, and every repository function it is handed to — receives the
// reader's bytes themselves (converted, never rewritten). A trim, a newline
// normalisation or any other rewrite between the read and its consumers shifts
// every recorded position and corrupts binary compiled-model files.
func sourceTextIntact(c *Check, rule string) {
	p := c.P
	ic := findImportClosure(c)
	if ic == nil || ic.collector == nil {
		c.Undecidedf(rule, "collector", "-", "import collector not found: unresolved anchor")
		return
	}
	col := ic.collector
	isContent := func(v ssa.Value) bool {
		ex, ok := v.(*ssa.Extract)
		if !ok || ex.Index != 0 {
			return false
		}
		cl, ok := ex.Tuple.(*ssa.Call)
		if ok && ic.readCall != nil && ssa.CallInstruction(cl) == ic.readCall {
			return true
		}
		return ok && cl.Call.IsInvoke() && cl.Call.Method.Name() == "ReadHashBranch"
	}
	n := 0
	report := func(what string, at ssa.Instruction, v ssa.Value) {
		off, reached := flowOffender(v, isContent, nil, func(x *ssa.Call) bool {
			sc := x.Call.StaticCallee()
			return sc != nil && isRepoFn(sc) // e.g. the import-line extract: derived on purpose
		})
		if !reached {
			return
		}
		n++
		key := fmt.Sprintf("%s|%s", fnName(col), what)
		if off != nil {
			callee := "a call"
			if o := calleeObj(off); o != nil {
				callee = shortObj(o)
			}
			c.Flagf(rule, key, p.pos(off.Pos()), "%s rewrites the file content before %s: positions are then counted in a text that is not the file's, and a binary compiled model is corrupted", callee, what)
		} else {
			c.Okf(rule, key, p.pos(at.Pos()), "receives the reader's bytes unaltered")
		}
	}
	eachInstr(col, func(_ *ssa.BasicBlock, i ssa.Instruction) {
		switch x := i.(type) {
		case *ssa.Store:
			if b, ok := x.Val.Type().Underlying().(*types.Basic); ok && b.Kind() == types.String {
				if _, fld, _, isField := fieldOfAddr(x.Addr); isField {
					report("the text kept in ."+fld, i, x.Val)
				}
			}
		case *ssa.Call:
			sc := x.Call.StaticCallee()
			if sc == nil || !isRepoFn(sc) {
				return
			}
			for _, a := range x.Call.Args {
				switch a.Type().Underlying().(type) {
				case *types.Slice, *types.Basic:
					report("the argument of "+sc.Name(), i, a)
				}
			}
		}
	})
	if n == 0 {
		c.Undecidedf(rule, "consumers", "-", "no consumer of the read content found in the collector: unresolved anchor")
	}
}

// arrivalOrder: the collector runs on the errgroup's goroutines, one per
// import, so anything it appends to a slice of the shared file table is in
// arrival order — decided by the scheduler and by how long each retrieval
// takes. The order of files must come from the text (the flatten walk over the
// recorded imports), never from a list grown by the collector.
func arrivalOrder(c *Check, rule string) {
	p := c.P
	ic := findImportClosure(c)
	if ic == nil || ic.collector == nil {
		c.Undecidedf(rule, "collector", "-", "import collector not found: unresolved anchor")
		return
	}
	n := 0
	for _, f := range withClosures(ic.collector) {
		eachInstr(f, func(_ *ssa.BasicBlock, i ssa.Instruction) {
			st, ok := i.(*ssa.Store)
			if !ok || appendCall(st.Val) == nil {
				return
			}
			own, fld, _, ok := fieldOfAddr(st.Addr)
			if !ok || own != ic.RL {
				return
			}
			n++
			c.Flagf(rule, fmt.Sprintf("%s|grows %s.%s", fnName(f), own.Obj().Name(), fld), p.pos(st.Pos()),
				"the collector, which runs concurrently once per import, appends to %s.%s: the list is in arrival order, which depends on scheduling and retrieval timing — files (and what they declare) would be combined in a different order from run to run", own.Obj().Name(), fld)
		})
	}
	if n == 0 {
		c.Okf(rule, fnName(ic.collector)+"|no arrival-ordered list", p.pos(ic.collector.Pos()), "the collector appends to no slice of the shared file table %s; file order is derived by the flatten walk", ic.RL.Obj().Name())
	}
}

// importsInTextOrder: the imports recorded for a file are the pre-parse's list
// itself, in the order the import statements stand in the text — the flatten
// walk derives the order of files from it. Nothing may re-order or rebuild the
// list on the way (a sort, a round trip through a map), and nobody may write
// into its backing array afterwards (an in-place filter `x[:0]` + append).
func importsInTextOrder(c *Check, rule string) {
	p := c.P
	ic := findImportClosure(c)
	if ic == nil || ic.collector == nil {
		c.Undecidedf(rule, "collector", "-", "import collector not found: unresolved anchor")
		return
	}
	col := ic.collector
	n := 0
	eachInstr(col, func(_ *ssa.BasicBlock, i ssa.Instruction) {
		st, ok := i.(*ssa.Store)
		if !ok {
			return
		}
		own, fld, _, ok := fieldOfAddr(st.Addr)
		if !ok || own == nil || own != ic.elemType {
			return
		}
		sl, isSlice := st.Val.Type().Underlying().(*types.Slice)
		if !isSlice {
			return
		}
		if _, isStruct := sl.Elem().Underlying().(*types.Struct); !isStruct {
			return
		}
		n++
		key := fmt.Sprintf("%s|%s.%s is the pre-parse's list", fnName(col), own.Obj().Name(), fld)
		// source: a slice result of a repository call (the import pre-parse)
		isSource := func(v ssa.Value) bool {
			switch x := v.(type) {
			case *ssa.Extract:
				if cl, ok := x.Tuple.(*ssa.Call); ok {
					sc := cl.Call.StaticCallee()
					return sc != nil && isRepoFn(sc) && types.Identical(x.Type(), st.Val.Type())
				}
			}
			return false
		}
		off, reached := flowOffender(st.Val, isSource, nil)
		switch {
		case off != nil:
			callee := "a call"
			if o := calleeObj(off); o != nil {
				callee = shortObj(o)
			} else if sc := off.Call.StaticCallee(); sc != nil {
				callee = fnName(sc)
			}
			c.Flagf(rule, key, p.pos(off.Pos()), "the list of a file's imports passes through %s before it is recorded: the order of the import statements in the text is what fixes the order in which files are combined", callee)
		case !reached:
			if cl, ok := st.Val.(*ssa.Call); ok {
				callee := fnName(cl.Call.StaticCallee())
				c.Flagf(rule, key, p.pos(st.Pos()), "the list of a file's imports is rebuilt by %s before it is recorded: the order of the import statements in the text is what fixes the order in which files are combined", callee)
			} else {
				c.Undecidedf(rule, key, p.pos(st.Pos()), "cannot relate the recorded import list to the pre-parse result")
			}
		default:
			// no later write into the same backing array: x[:0] re-slices of the recorded value
			bad := ""
			eachInstr(col, func(_ *ssa.BasicBlock, j ssa.Instruction) {
				s2, ok := j.(*ssa.Slice)
				if !ok || s2.High == nil {
					return
				}
				if k, isK := constInt(s2.High); !isK || k != 0 {
					return
				}
				if s2.X == st.Val || exprKey(s2.X, 0) == exprKey(st.Val, 0) {
					bad = p.pos(s2.Pos())
				}
			})
			c.Cond(bad == "", rule, key, p.pos(st.Pos()),
				"the recorded list is the pre-parse result, unaltered and not re-sliced for writing",
				"the recorded list is re-sliced to length 0 at "+bad+" and appended to: the filter overwrites the recorded imports in place")
		}
	})
	if n == 0 {
		c.Undecidedf(rule, "record", "-", "no store of an import list into the per-file record found in the collector: unresolved anchor")
	}
}

// flattenResultKept: the ordered file list produced by the flatten walk reaches
// the function that parses the files in that order — nothing sorts it on the way.
func flattenResultKept(c *Check, rule string) {
	p := c.P
	ic := findImportClosure(c)
	if ic == nil {
		return
	}
	n := 0
	for _, u := range ic.users {
		if u.Parent() != nil {
			continue
		}
		// callers of the flatten function
		for _, f := range p.RepoFuncs() {
			if fnPkgPath(f) != fnPkgPath(u) {
				continue
			}
			eachInstr(f, func(_ *ssa.BasicBlock, i ssa.Instruction) {
				cl, ok := i.(*ssa.Call)
				if !ok || staticCallee(cl) != u || f == u {
					return
				}
				// the list is the pointer argument (an Alloc in the caller)
				var cell *ssa.Alloc
				for _, a := range cl.Call.Args {
					if al, ok := a.(*ssa.Alloc); ok {
						if _, isSl := al.Type().(*types.Pointer).Elem().Underlying().(*types.Slice); isSl {
							cell = al
						}
					}
				}
				if cell == nil {
					return
				}
				n++
				key := fmt.Sprintf("%s|flattened file list reaches the parser unsorted", fnName(f))
				bad := ""
				eachInstr(f, func(_ *ssa.BasicBlock, j ssa.Instruction) {
					c2, ok := j.(ssa.CallInstruction)
					if !ok || !isSanitiserCallAny(c2) {
						return
					}
					for _, a := range c2.Common().Args {
						if derives(a, func(v ssa.Value) bool { return v == ssa.Value(cell) }, nil) {
							bad = p.pos(j.Pos())
						}
					}
				})
				c.Cond(bad == "", rule, key, p.pos(cl.Pos()),
					"no sort is applied to the list between the flatten walk and the parse",
					"the flattened file list is sorted at "+bad+": files are then parsed in that order and not in the order fixed by the import statements")
			})
		}
	}
	if n == 0 {
		c.Undecidedf(rule, "flatten callers", "-", "no call of the flatten function with a local list found: unresolved anchor")
	}
}

// isSanitiserCallAny: any sort call, whatever its comparison function.
func isSanitiserCallAny(cl ssa.CallInstruction) bool {
	o := calleeObj(cl)
	return o != nil && o.Pkg() != nil && sanitiserFuncs[o.Pkg().Path()+"."+o.Name()]
}

// c05PublicationViaHelper: the entry is published by a test-and-set helper; the
// collector receives the entry (new or already present) and a flag. Fields the
// collector writes through the entry are written after publication; the
// already-claimed branch must read none of them.
func c05PublicationViaHelper(c *Check, ic *importClosure, claimer *ssa.Function, claimCall *ssa.Call) {
	p := c.P
	col := ic.collector
	ts := asTestAndSet(claimer)
	if ts == nil || claimCall.Referrers() == nil {
		c.Undecidedf("PUBLICATION", fnName(col), p.pos(claimCall.Pos()), "the claim helper %s is not a recognisable test-and-set (look-up, insertion on the absent outcome, constant flag)", fnName(claimer))
		return
	}
	var entry, flag ssa.Value
	for _, r := range *claimCall.Referrers() {
		if ex, ok := r.(*ssa.Extract); ok {
			if ex.Index == ts.boolIndex {
				flag = ex
			} else if _, isPtr := ex.Type().Underlying().(*types.Pointer); isPtr {
				entry = ex
			}
		}
	}
	if entry == nil || flag == nil {
		c.Undecidedf("PUBLICATION", fnName(col), p.pos(claimCall.Pos()), "cannot find the entry and the flag returned by %s", fnName(claimer))
		return
	}
	// `fi, has := get(k); if !has { fi, has = putIfAbsent(k, fresh) }`: what the
	// collector goes on with are the phis that merge the two calls
	phiOf := func(v ssa.Value) ssa.Value {
		if v.Referrers() != nil {
			for _, r := range *v.Referrers() {
				if ph, ok := r.(*ssa.Phi); ok {
					return ph
				}
			}
		}
		return v
	}
	entry, flag = phiOf(entry), phiOf(flag)
	// blocks of the already-claimed branch
	claimed := map[*ssa.BasicBlock]bool{}
	for _, br := range branchesOn(flag) {
		fs, as := br.TrueSucc, br.FalseSucc
		if !ts.foundIs {
			fs, as = br.FalseSucc, br.TrueSucc
		}
		for _, b := range col.Blocks {
			if (b == fs || fs.Dominates(b)) && !(b == as || as.Dominates(b)) {
				claimed[b] = true
			}
		}
	}
	var after [][]string
	var afterPos []token.Pos
	eachInstr(col, func(b *ssa.BasicBlock, i ssa.Instruction) {
		s, ok := i.(*ssa.Store)
		if !ok {
			return
		}
		root, path := fieldPath(s.Addr)
		if root != entry || len(path) == 0 {
			return
		}
		after = append(after, path)
		afterPos = append(afterPos, s.Pos())
	})
	nReads := 0
	var walk func(v ssa.Value, path []string)
	walk = func(v ssa.Value, path []string) {
		if v.Referrers() == nil {
			return
		}
		for _, r := range *v.Referrers() {
			switch x := r.(type) {
			case *ssa.FieldAddr:
				st := x.X.Type().Underlying().(*types.Pointer).Elem().Underlying().(*types.Struct)
				walk(x, append(append([]string{}, path...), st.Field(x.Field).Name()))
			case *ssa.UnOp:
				if x.Op == token.MUL && len(path) > 0 && claimed[x.Block()] {
					nReads++
					conflict := -1
					for k, a := range after {
						if hasPrefixPath(a, path) || hasPrefixPath(path, a) {
							conflict = k
						}
					}
					key := fmt.Sprintf("%s|claimed-branch read of .%s", fnName(col), strings.Join(path, "."))
					if conflict >= 0 {
						c.Flagf("PUBLICATION", key, p.pos(x.Pos()), "the already-claimed branch reads .%s, which the claiming goroutine writes after publication at %s without the mutex (data race; value depends on fetch timing)",
							strings.Join(path, "."), p.pos(afterPos[conflict]))
					} else {
						c.Okf("PUBLICATION", key, p.pos(x.Pos()), "field is written only before the entry is published under the mutex")
					}
				}
			}
		}
	}
	walk(entry, nil)
	c.Counts["post_publication_stores"] = len(after)
	c.Counts["claimed_branch_reads"] = nReads
}

// memberByHelper: the each-once test done by a predicate helper —
// `if listed(*list, key) { return / continue }` — where the helper walks the
// whole list it is given from the front, compares the canonical key of each
// element with the key it is given and answers true on the first match, false
// at the end; the caller hands it the whole output list and a canonical key, and
// the append cannot be reached on the outcome true.
func memberByHelper(ic *importClosure, u *ssa.Function, ap *ssa.Call) bool {
	isCanon := func(v ssa.Value) bool {
		call, ok := v.(*ssa.Call)
		return ok && staticCallee(call) == ic.canon
	}
	found := false
	eachInstr(u, func(_ *ssa.BasicBlock, i ssa.Instruction) {
		call, ok := i.(*ssa.Call)
		if !ok || found {
			return
		}
		h := staticCallee(call)
		if h == nil || !isRepoFn(h) || len(h.Blocks) == 0 || len(h.Blocks) > 10 || h.Signature.Results().Len() != 1 || !isBoolType(h.Signature.Results().At(0).Type()) {
			return
		}
		// arguments: the whole output list (loaded from the pointer parameter) and a canonical key
		listIdx, keyIdx := -1, -1
		for k, a := range call.Call.Args {
			if ld, ok := a.(*ssa.UnOp); ok && ld.Op == token.MUL {
				if _, isParam := unspill(ld.X).(*ssa.Parameter); isParam {
					if st, ok := storedThrough(ap); ok && unspill(st) == unspill(ld.X) {
						listIdx = k
					}
				}
			}
			if isCanon(a) {
				keyIdx = k
			}
		}
		if listIdx < 0 || keyIdx < 0 || listIdx >= len(h.Params) || keyIdx >= len(h.Params) {
			return
		}
		// inside: canon(list[i]…) == key, i forward and bounded by len(list); true edge returns true; every other return is false
		okCmp := false
		eachInstr(h, func(_ *ssa.BasicBlock, j ssa.Instruction) {
			bin, ok := j.(*ssa.BinOp)
			if !ok || bin.Op != token.EQL {
				return
			}
			var other ssa.Value
			switch {
			case bin.X == ssa.Value(h.Params[keyIdx]):
				other = bin.Y
			case bin.Y == ssa.Value(h.Params[keyIdx]):
				other = bin.X
			default:
				return
			}
			oc, isCall := other.(*ssa.Call)
			if !isCall || staticCallee(oc) != ic.canon {
				return
			}
			whole := derives(oc.Call.Args[0], func(v ssa.Value) bool {
				ia, ok := v.(*ssa.IndexAddr)
				if !ok || ia.X != ssa.Value(h.Params[listIdx]) {
					return false
				}
				if fwd, _ := inductionForward(ia.Index); !fwd {
					return false
				}
				for _, r := range *ia.Index.Referrers() {
					if cmp, ok := r.(*ssa.BinOp); ok && cmp.Op == token.LSS {
						if lc, ok := cmp.Y.(*ssa.Call); ok {
							if bi, ok := lc.Call.Value.(*ssa.Builtin); ok && bi.Name() == "len" && lc.Call.Args[0] == ssa.Value(h.Params[listIdx]) {
								return true
							}
						}
					}
				}
				return false
			}, nil)
			if !whole {
				return
			}
			for _, br := range branchesOn(bin) {
				t := br.TrueSucc
				if ret, ok := t.Instrs[len(t.Instrs)-1].(*ssa.Return); ok && len(t.Instrs) == 1 {
					if k, ok := retVal(ret, 0).(*ssa.Const); ok && k.Value != nil && k.Value.String() == "true" {
						okCmp = true
					}
				}
			}
		})
		if !okCmp {
			return
		}
		nTrue := 0
		constOnly := true
		for _, b := range h.Blocks {
			if ret, ok := b.Instrs[len(b.Instrs)-1].(*ssa.Return); ok && b != h.Recover {
				k, ok := retVal(ret, 0).(*ssa.Const)
				if !ok || k.Value == nil {
					constOnly = false
				} else if k.Value.String() == "true" {
					nTrue++
				}
			}
		}
		if !constOnly || nTrue != 1 {
			return
		}
		// at the caller: the append is behind the outcome false
		for _, br := range branchesOn(call) {
			if br.If.Block().Dominates(ap.Block()) && !blockReaches(br.TrueSucc, ap.Block(), br.If.Block()) && br.TrueSucc != ap.Block() {
				found = true
			}
		}
	})
	return found
}

// storedThrough: the address the result of an append is stored to.
func storedThrough(ap *ssa.Call) (ssa.Value, bool) {
	if ap.Referrers() == nil {
		return nil, false
	}
	for _, r := range *ap.Referrers() {
		if st, ok := r.(*ssa.Store); ok && st.Val == ssa.Value(ap) {
			return st.Addr, true
		}
	}
	return nil, false
}

// lifoList: an explicit stack in a flatten loop — a slice cut back to
// len-1 on every round (the entry taken is the last) and grown by append.
type lifoList struct {
	pop    *ssa.Slice
	pushes []*ssa.Call
	out    *ssa.Call // the append to the output list (stored through a pointer parameter)
}

func isLenMinus1(v, of ssa.Value) bool {
	b, ok := v.(*ssa.BinOp)
	if !ok || b.Op != token.SUB {
		return false
	}
	if k, isK := constInt(b.Y); !isK || k != 1 {
		return false
	}
	lc, ok := b.X.(*ssa.Call)
	if !ok {
		return false
	}
	bi, ok := lc.Call.Value.(*ssa.Builtin)
	return ok && bi.Name() == "len" && (of == nil || lc.Call.Args[0] == of)
}

func findLifo(u *ssa.Function) *lifoList {
	var lf *lifoList
	eachInstr(u, func(_ *ssa.BasicBlock, i ssa.Instruction) {
		sl, ok := i.(*ssa.Slice)
		if !ok || sl.Low != nil || sl.High == nil || !isLenMinus1(sl.High, sl.X) {
			return
		}
		if _, isPhi := sl.X.(*ssa.Phi); !isPhi {
			return
		}
		lf = &lifoList{pop: sl}
	})
	if lf == nil {
		return nil
	}
	eachInstr(u, func(_ *ssa.BasicBlock, i ssa.Instruction) {
		call, ok := i.(*ssa.Call)
		if !ok {
			return
		}
		if b, ok := call.Call.Value.(*ssa.Builtin); !ok || b.Name() != "append" {
			return
		}
		if addr, ok := storedThrough(call); ok {
			if prm, isParam := unspill(addr).(*ssa.Parameter); isParam {
				if _, isPtr := prm.Type().Underlying().(*types.Pointer); isPtr {
					lf.out = call
					return
				}
			}
		}
		if types.Identical(call.Type(), lf.pop.Type()) {
			lf.pushes = append(lf.pushes, call)
		}
	})
	if len(lf.pushes) == 0 {
		return nil
	}
	return lf
}

// pushedInReverse: the element pushed comes from slice[idx] with idx an
// induction variable that starts at len(slice)-1 and steps by -1.
func pushedInReverse(push *ssa.Call) (bool, string) {
	var ia *ssa.IndexAddr
	if len(push.Call.Args) < 2 {
		return false, "push has no element"
	}
	derives(push.Call.Args[1], func(v ssa.Value) bool {
		if x, ok := v.(*ssa.IndexAddr); ok {
			if _, isArr := x.X.Type().Underlying().(*types.Pointer); !isArr { // not the varargs array
				ia = x
				return true
			}
		}
		return false
	}, nil)
	if ia == nil {
		return false, "the pushed element does not come from an indexed element of the import slice"
	}
	if fwd, _ := inductionForward(ia.Index); fwd {
		return false, "imports are pushed first-to-last on a stack: the last import is taken first, so the files come out in reverse source order"
	}
	phi, ok := ia.Index.(*ssa.Phi)
	if !ok {
		return false, "index of the pushed import is not a simple induction variable"
	}
	sawInit, sawStep := false, false
	for _, e := range phi.Edges {
		if isLenMinus1(e, nil) {
			sawInit = true
			continue
		}
		if b, ok := e.(*ssa.BinOp); ok && b.X == ssa.Value(phi) {
			if k, ok := constInt(b.Y); ok && ((b.Op == token.SUB && k == 1) || (b.Op == token.ADD && k == -1)) {
				sawStep = true
				continue
			}
		}
		return false, "the loop that pushes the imports does not run from the last import to the first by one"
	}
	if sawInit && sawStep {
		return true, ""
	}
	return false, "the loop that pushes the imports does not run from the last import to the first by one"
}

// claimCompares (CLAIM-COMPARES): a file reached twice is compiled once, under
// the import definition of whoever registered it first. That is the same for
// every schedule only if the two definitions agree, so the already-registered
// branch has to compare them. The definition is the collector's struct
// parameter one of whose fields makes the canonical key. For every other field
// of it: some comparison in the collector (or the claiming helper) has one side
// read from the newcomer's field and the other from the same field of another
// value of that type (the registered one). A field that is not compared lets the
// first arrival decide (`import x.yaml as foo.Api` and `as bar.Api`).
func claimCompares(c *Check, ic *importClosure) {
	p := c.P
	col := ic.collector
	if col == nil || ic.canon == nil {
		return
	}
	// the definition parameter: a struct-typed parameter with a field that flows to the canonicaliser
	var def *ssa.Parameter
	var st *types.Struct
	keyField := -1
	for _, prm := range col.Params {
		s, ok := prm.Type().Underlying().(*types.Struct)
		if !ok {
			continue
		}
		eachCall(col, func(cl ssa.CallInstruction) {
			if staticCallee(cl) != ic.canon || len(cl.Common().Args) == 0 {
				return
			}
			derives(cl.Common().Args[0], func(v ssa.Value) bool {
				switch x := v.(type) {
				case *ssa.FieldAddr:
					if unspill(x.X) == ssa.Value(prm) || allocOfParam(x.X, prm) {
						def, st, keyField = prm, s, x.Field
						return true
					}
				case *ssa.Field:
					if unspill(x.X) == ssa.Value(prm) {
						def, st, keyField = prm, s, x.Field
						return true
					}
				}
				return false
			}, nil)
		})
	}
	if def == nil {
		c.Undecidedf("CLAIM-COMPARES", fnName(col), p.pos(col.Pos()), "the collector's import-definition parameter (the struct whose field makes the canonical key) was not found: unresolved anchor")
		return
	}
	fns := []*ssa.Function{col}
	if ic.claimer != nil && ic.claimer != col {
		fns = append(fns, ic.claimer)
	}
	// same-package helpers the collector hands the definition to (a comparison extracted into a helper)
	eachCall(col, func(cl ssa.CallInstruction) {
		if sc := staticCallee(cl); sc != nil && fnPkgPath(sc) == fnPkgPath(col) && len(sc.Blocks) > 0 && sc != ic.canon {
			for _, a := range cl.Common().Args {
				if types.Identical(a.Type(), def.Type()) {
					fns = append(fns, sc)
				}
			}
		}
	})
	fieldOfDef := func(v ssa.Value, idx int) (newcomer bool, ok bool) {
		hit, mine := false, false
		derives(v, func(x ssa.Value) bool {
			switch y := x.(type) {
			case *ssa.FieldAddr:
				pt, isP := y.X.Type().Underlying().(*types.Pointer)
				if isP && types.Identical(pt.Elem().Underlying(), st) && y.Field == idx {
					hit = true
					if unspill(y.X) == ssa.Value(def) || allocOfParam(y.X, def) {
						mine = true
					} else if prm, isPrm := unspillParamAlloc(y.X); isPrm && types.Identical(prm.Type(), def.Type()) && prm.Parent() != col {
						mine = paramIndex(prm.Parent(), prm) == 0 // helper(newcomer, registered): by position
					}
					return true
				}
			case *ssa.Field:
				if types.Identical(y.X.Type().Underlying(), st) && y.Field == idx {
					hit = true
					mine = unspill(y.X) == ssa.Value(def)
					return true
				}
			}
			return false
		}, &deriveOpts{throughCalls: func(*ssa.Call) bool { return true }, throughBinOp: true})
		return mine, hit
	}
	for i := 0; i < st.NumFields(); i++ {
		name := st.Field(i).Name()
		key := fmt.Sprintf("%s|field %s of the import definition compared when the file is already registered", fnName(col), name)
		if i == keyField {
			c.Okf("CLAIM-COMPARES", key, p.pos(col.Pos()), "the field makes the canonical key: the look-up itself compares it")
			continue
		}
		// a field nobody reads cannot make two definitions differ in effect
		read := false
		for _, f := range p.RepoFuncs() {
			if fnPkgPath(f) != fnPkgPath(col) || read {
				continue
			}
			eachInstr(f, func(_ *ssa.BasicBlock, ins ssa.Instruction) {
				switch y := ins.(type) {
				case *ssa.FieldAddr:
					pt, isP := y.X.Type().Underlying().(*types.Pointer)
					if isP && types.Identical(pt.Elem().Underlying(), st) && y.Field == i && y.Referrers() != nil {
						for _, r := range *y.Referrers() {
							if ld, ok := r.(*ssa.UnOp); ok && ld.Op == token.MUL {
								read = true
							}
						}
					}
				case *ssa.Field:
					if types.Identical(y.X.Type().Underlying(), st) && y.Field == i {
						read = true
					}
				}
			})
		}
		if !read {
			c.Okf("CLAIM-COMPARES", key, p.pos(col.Pos()), "the field is never read in the package: it cannot make two definitions of one file differ in effect")
			continue
		}
		compared := false
		for _, f := range fns {
			eachInstr(f, func(_ *ssa.BasicBlock, ins ssa.Instruction) {
				bin, ok := ins.(*ssa.BinOp)
				if !ok || (bin.Op != token.EQL && bin.Op != token.NEQ) {
					return
				}
				_, okX := fieldOfDef(bin.X, i)
				_, okY := fieldOfDef(bin.Y, i)
				if okX && okY {
					compared = true
				}
			})
		}
		c.Cond(compared, "CLAIM-COMPARES", key, p.pos(col.Pos()),
			"the newcomer's value of the field is compared with the registered one",
			fmt.Sprintf("nothing compares field %s of a newcomer with that of the definition the file was registered under: two imports of one file that differ in %s are compiled as whichever arrives first — the model depends on the schedule of the fetchers", name, name))
	}
}

// allocOfParam: addr is the local cell a struct parameter was spilled into.
func allocOfParam(addr ssa.Value, prm *ssa.Parameter) bool {
	al, ok := addr.(*ssa.Alloc)
	if !ok || al.Referrers() == nil {
		return false
	}
	for _, r := range *al.Referrers() {
		if st, ok := r.(*ssa.Store); ok && st.Addr == ssa.Value(al) && st.Val == ssa.Value(prm) {
			return true
		}
	}
	return false
}

// unspillParamAlloc: the parameter a local cell holds, if any.
func unspillParamAlloc(addr ssa.Value) (*ssa.Parameter, bool) {
	al, ok := addr.(*ssa.Alloc)
	if !ok || al.Referrers() == nil {
		return nil, false
	}
	for _, r := range *al.Referrers() {
		if st, ok := r.(*ssa.Store); ok && st.Addr == ssa.Value(al) {
			if prm, ok := st.Val.(*ssa.Parameter); ok {
				return prm, true
			}
		}
	}
	return nil, false
}
