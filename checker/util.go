package main

import (
	"fmt"
	"go/ast"
	"go/constant"
	"go/token"
	"go/types"
	"sort"
	"strings"

	"golang.org/x/tools/go/callgraph"
	"golang.org/x/tools/go/ssa"
)

// ---- callee resolution ------------------------------------------------------

// staticCallee returns the statically known callee, folding $bound/$thunk
// wrappers into the method they wrap.
func staticCallee(c ssa.CallInstruction) *ssa.Function {
	f := c.Common().StaticCallee()
	return unwrapSynthetic(f)
}

func unwrapSynthetic(f *ssa.Function) *ssa.Function {
	return f
}

// calleeObj returns the *types.Func called (static function, method, or
// interface method), or nil for dynamic calls of func values.
func calleeObj(c ssa.CallInstruction) *types.Func {
	cc := c.Common()
	if cc.IsInvoke() {
		return cc.Method
	}
	if f := cc.StaticCallee(); f != nil {
		if o, ok := f.Object().(*types.Func); ok {
			return o
		}
		// closure / synthetic
		return nil
	}
	return nil
}

// objIs reports whether fn is pkgPath.name (function) or pkgPath.Type.name
// (method; name given as "Type.Method", pointer-ness ignored).
func objIs(fn *types.Func, pkgPath, name string) bool {
	if fn == nil || fn.Pkg() == nil || fn.Pkg().Path() != pkgPath {
		return false
	}
	return objLocalName(fn) == name
}

func objLocalName(fn *types.Func) string {
	sig := fn.Type().(*types.Signature)
	if r := sig.Recv(); r != nil {
		t := r.Type()
		if p, ok := t.(*types.Pointer); ok {
			t = p.Elem()
		}
		if n, ok := t.(*types.Named); ok {
			return n.Obj().Name() + "." + fn.Name()
		}
		return "?." + fn.Name()
	}
	return fn.Name()
}

func objFull(fn *types.Func) string {
	if fn == nil {
		return "<dynamic>"
	}
	if fn.Pkg() == nil {
		return fn.Name()
	}
	return fn.Pkg().Path() + "." + objLocalName(fn)
}

func callIs(c ssa.CallInstruction, pkgPath, name string) bool {
	if objIs(calleeObj(c), pkgPath, name) {
		return true
	}
	// "Type.Method" reached through an interface of the same package that Type
	// implements (the object handed in as an interface)
	cc := c.Common()
	if !cc.IsInvoke() || cc.Method == nil || cc.Method.Pkg() == nil || cc.Method.Pkg().Path() != pkgPath {
		return false
	}
	dot := strings.Index(name, ".")
	if dot < 0 || name[dot+1:] != cc.Method.Name() {
		return false
	}
	tn, ok := cc.Method.Pkg().Scope().Lookup(name[:dot]).(*types.TypeName)
	if !ok {
		return false
	}
	iface, ok := cc.Value.Type().Underlying().(*types.Interface)
	if !ok {
		return false
	}
	return types.Implements(tn.Type(), iface) || types.Implements(types.NewPointer(tn.Type()), iface)
}

// ---- iteration ----------------------------------------------------------------

func eachInstr(f *ssa.Function, fn func(b *ssa.BasicBlock, i ssa.Instruction)) {
	for _, b := range f.Blocks {
		for _, i := range b.Instrs {
			fn(b, i)
		}
	}
}

// eachCall visits every call/go/defer instruction of f.
func eachCall(f *ssa.Function, fn func(c ssa.CallInstruction)) {
	eachInstr(f, func(_ *ssa.BasicBlock, i ssa.Instruction) {
		if c, ok := i.(ssa.CallInstruction); ok {
			fn(c)
		}
	})
}

// withClosures returns f and all functions nested in it.
func withClosures(f *ssa.Function) []*ssa.Function {
	out := []*ssa.Function{f}
	for _, a := range f.AnonFuncs {
		out = append(out, withClosures(a)...)
	}
	return out
}

func instrIndex(i ssa.Instruction) int {
	for k, x := range i.Block().Instrs {
		if x == i {
			return k
		}
	}
	return -1
}

// instrDominates: a executes before b on every path to b (same function).
func instrDominates(a, b ssa.Instruction) bool {
	if a.Block() == b.Block() {
		return instrIndex(a) < instrIndex(b)
	}
	return a.Block().Dominates(b.Block())
}

// ---- values ---------------------------------------------------------------

func constString(v ssa.Value) (string, bool) {
	if c, ok := v.(*ssa.Const); ok && c.Value != nil && c.Value.Kind() == constant.String {
		return constant.StringVal(c.Value), true
	}
	return "", false
}

func constInt(v ssa.Value) (int64, bool) {
	if c, ok := v.(*ssa.Const); ok && c.Value != nil && c.Value.Kind() == constant.Int {
		n, ok := constant.Int64Val(c.Value)
		return n, ok
	}
	return 0, false
}

func isNilConst(v ssa.Value) bool {
	c, ok := v.(*ssa.Const)
	return ok && c.Value == nil
}

// stripValue looks through conversions that do not change identity.
func stripValue(v ssa.Value) ssa.Value {
	for {
		switch x := v.(type) {
		case *ssa.ChangeType:
			v = x.X
		case *ssa.MakeInterface:
			v = x.X
		case *ssa.ChangeInterface:
			v = x.X
		case *ssa.Convert:
			v = x.X
		default:
			return v
		}
	}
}

// namedOf returns the named type behind t (through one pointer).
func namedOf(t types.Type) *types.Named {
	if t == nil {
		return nil
	}
	if p, ok := t.Underlying().(*types.Pointer); ok {
		t = p.Elem()
	}
	if p, ok := t.(*types.Pointer); ok {
		t = p.Elem()
	}
	n, _ := t.(*types.Named)
	return n
}

func typeIs(t types.Type, pkgPath, name string) bool {
	n := namedOf(t)
	return n != nil && n.Obj().Pkg() != nil && n.Obj().Pkg().Path() == pkgPath && n.Obj().Name() == name
}

func isErrorType(t types.Type) bool {
	return types.Identical(t, types.Universe.Lookup("error").Type())
}

// fieldOfAddr: if v is &x.f (FieldAddr) returns struct named type and field name.
func fieldOfAddr(v ssa.Value) (owner *types.Named, field string, base ssa.Value, ok bool) {
	fa, isFA := v.(*ssa.FieldAddr)
	if !isFA {
		return nil, "", nil, false
	}
	pt, _ := fa.X.Type().Underlying().(*types.Pointer)
	if pt == nil {
		return nil, "", nil, false
	}
	st, _ := pt.Elem().Underlying().(*types.Struct)
	if st == nil {
		return nil, "", nil, false
	}
	return namedOf(pt.Elem()), st.Field(fa.Field).Name(), fa.X, true
}

// loadedField: if v is a load (UnOp *) of a FieldAddr, or a Field of a struct
// value, returns owner/field.
func loadedField(v ssa.Value) (owner *types.Named, field string, base ssa.Value, ok bool) {
	switch x := v.(type) {
	case *ssa.UnOp:
		if x.Op == token.MUL {
			return fieldOfAddr(x.X)
		}
	case *ssa.Field:
		st, _ := x.X.Type().Underlying().(*types.Struct)
		if st != nil {
			return namedOf(x.X.Type()), st.Field(x.Field).Name(), x.X, true
		}
	}
	return nil, "", nil, false
}

// ---- call graph helpers ---------------------------------------------------------

type reachInfo struct {
	parent *ssa.Function
	site   ssa.CallInstruction
}

// reachable computes the functions reachable from entries in cg. stop(f)
// true means: do not traverse out of f (f itself is still recorded).
func reachable(cg *callgraph.Graph, entries []*ssa.Function, stopEdge func(e *callgraph.Edge) bool) map[*ssa.Function]reachInfo {
	out := map[*ssa.Function]reachInfo{}
	var q []*ssa.Function
	for _, e := range entries {
		if e == nil {
			continue
		}
		if _, ok := out[e]; !ok {
			out[e] = reachInfo{}
			q = append(q, e)
		}
	}
	for len(q) > 0 {
		f := q[0]
		q = q[1:]
		n := cg.Nodes[f]
		if n == nil {
			continue
		}
		for _, e := range n.Out {
			if stopEdge != nil && stopEdge(e) {
				continue
			}
			g := e.Callee.Func
			if _, ok := out[g]; ok {
				continue
			}
			out[g] = reachInfo{parent: f, site: e.Site}
			q = append(q, g)
		}
	}
	return out
}

func chainTo(r map[*ssa.Function]reachInfo, f *ssa.Function, p *Program) []string {
	var rev []string
	for cur := f; cur != nil; {
		ri, ok := r[cur]
		if !ok {
			break
		}
		if ri.parent == nil {
			rev = append(rev, fnName(cur))
			break
		}
		pos := "-"
		if ri.site != nil {
			pos = p.pos(ri.site.Pos())
		}
		rev = append(rev, fmt.Sprintf("%s (called at %s)", fnName(cur), pos))
		cur = ri.parent
	}
	for i, j := 0, len(rev)-1; i < j; i, j = i+1, j-1 {
		rev[i], rev[j] = rev[j], rev[i]
	}
	return rev
}

// isRepoFn: function whose code lives in the repository (closures included).
func isRepoFn(f *ssa.Function) bool {
	for f != nil && f.Parent() != nil {
		f = f.Parent()
	}
	if f == nil {
		return false
	}
	if f.Pkg != nil {
		return isRepoPkg(f.Pkg.Pkg)
	}
	if o := f.Object(); o != nil {
		return isRepoPkg(o.Pkg())
	}
	return false
}

func fnPkgPath(f *ssa.Function) string {
	for f != nil && f.Parent() != nil {
		f = f.Parent()
	}
	if f == nil {
		return ""
	}
	if f.Pkg != nil {
		return f.Pkg.Pkg.Path()
	}
	if o := f.Object(); o != nil && o.Pkg() != nil {
		return o.Pkg().Path()
	}
	return ""
}

// ---- AST helpers ------------------------------------------------------------

func exprStr(e ast.Expr) string { return types.ExprString(e) }

func sortedKeys[V any](m map[string]V) []string {
	ks := make([]string, 0, len(m))
	for k := range m {
		ks = append(ks, k)
	}
	sort.Strings(ks)
	return ks
}

func joinSorted(m map[string]bool) string {
	return strings.Join(sortedKeys(m), ",")
}

// methodsOf returns the SSA functions of all methods (value and pointer
// receiver) declared on the named type.
func (p *Program) methodsOf(n *types.Named) []*ssa.Function {
	var out []*ssa.Function
	seen := map[*ssa.Function]bool{}
	for _, t := range []types.Type{n, types.NewPointer(n)} {
		ms := p.SSA.MethodSets.MethodSet(t)
		for i := 0; i < ms.Len(); i++ {
			fn := p.SSA.MethodValue(ms.At(i))
			if fn == nil || seen[fn] {
				continue
			}
			// skip promoted-method wrappers
			if fn.Synthetic != "" {
				continue
			}
			seen[fn] = true
			out = append(out, fn)
		}
	}
	sort.Slice(out, func(i, j int) bool { return fnName(out[i]) < fnName(out[j]) })
	return out
}

// funcOfObj returns the SSA function for a types.Func declared in the program.
func (p *Program) funcOfObj(o *types.Func) *ssa.Function {
	if o == nil {
		return nil
	}
	return p.SSA.FuncValue(o)
}

// lookupFunc finds pkg-level function or method "T.m" in a repo package.
func (p *Program) lookupFunc(pkg, name string) *ssa.Function {
	pk := p.Pkg(pkg)
	if pk == nil {
		return nil
	}
	if i := strings.Index(name, "."); i >= 0 {
		tn, mn := name[:i], name[i+1:]
		obj := pk.Types.Scope().Lookup(tn)
		if obj == nil {
			return nil
		}
		n, _ := obj.Type().(*types.Named)
		if n == nil {
			return nil
		}
		for _, t := range []types.Type{n, types.NewPointer(n)} {
			sel := p.SSA.MethodSets.MethodSet(t).Lookup(pk.Types, mn)
			if sel != nil {
				return p.SSA.MethodValue(sel)
			}
		}
		return nil
	}
	if f, ok := pk.Types.Scope().Lookup(name).(*types.Func); ok {
		return p.SSA.FuncValue(f)
	}
	return nil
}

// ---- backward data derivation -------------------------------------------------

type deriveOpts struct {
	throughCalls func(c *ssa.Call) bool // follow a call's arguments
	throughBinOp bool
	argsOnly     bool // with throughCalls: do not follow the receiver of interface calls
	maxDepth     int
}

// derives reports whether v is computed (by loads, field/index selection,
// extraction, conversion, phi, and stores into local allocations) from a value
// satisfying pred.
func derives(v ssa.Value, pred func(ssa.Value) bool, o *deriveOpts) bool {
	seen := map[ssa.Value]bool{}
	if o == nil {
		o = &deriveOpts{}
	}
	var rec func(v ssa.Value, d int) bool
	storesInto := func(a ssa.Value, d int) bool {
		// values stored to a or to sub-addresses of a
		if a.Referrers() == nil {
			return false
		}
		for _, r := range *a.Referrers() {
			switch x := r.(type) {
			case *ssa.Store:
				if x.Addr == a && rec(x.Val, d+1) {
					return true
				}
			case *ssa.FieldAddr:
				if x.X == a {
					for _, r2 := range *x.Referrers() {
						if s, ok := r2.(*ssa.Store); ok && s.Addr == x && rec(s.Val, d+1) {
							return true
						}
					}
				}
			case *ssa.IndexAddr:
				if x.X == a {
					for _, r2 := range *x.Referrers() {
						if s, ok := r2.(*ssa.Store); ok && s.Addr == x && rec(s.Val, d+1) {
							return true
						}
					}
				}
			}
		}
		return false
	}
	rec = func(v ssa.Value, d int) bool {
		if v == nil || seen[v] {
			return false
		}
		if o.maxDepth > 0 && d > o.maxDepth {
			return false
		}
		seen[v] = true
		if pred(v) {
			return true
		}
		switch x := v.(type) {
		case *ssa.Phi:
			for _, e := range x.Edges {
				if rec(e, d+1) {
					return true
				}
			}
		case *ssa.Extract:
			return rec(x.Tuple, d+1)
		case *ssa.UnOp:
			if x.Op == token.MUL {
				return rec(x.X, d+1)
			}
			return rec(x.X, d+1)
		case *ssa.Alloc:
			return storesInto(x, d)
		case *ssa.FieldAddr:
			if a, ok := x.X.(*ssa.Alloc); ok {
				// same-field stores on the same allocation
				for _, r := range *a.Referrers() {
					if fa, ok := r.(*ssa.FieldAddr); ok && fa.Field == x.Field {
						for _, r2 := range *fa.Referrers() {
							if s, ok := r2.(*ssa.Store); ok && s.Addr == fa && rec(s.Val, d+1) {
								return true
							}
						}
					}
					if s, ok := r.(*ssa.Store); ok && s.Addr == a && rec(s.Val, d+1) {
						return true
					}
				}
				return false
			}
			// a field of a heap object: values stored through the same base value
			// and field elsewhere in the function (flow-insensitive)
			if x.X.Referrers() != nil {
				for _, r := range *x.X.Referrers() {
					if fa, ok := r.(*ssa.FieldAddr); ok && fa.Field == x.Field && fa.Referrers() != nil {
						for _, r2 := range *fa.Referrers() {
							if s, ok := r2.(*ssa.Store); ok && s.Addr == fa && rec(s.Val, d+1) {
								return true
							}
						}
					}
				}
			}
			return rec(x.X, d+1)
		case *ssa.IndexAddr:
			if a, ok := x.X.(*ssa.Alloc); ok {
				return storesInto(a, d)
			}
			return rec(x.X, d+1)
		case *ssa.Field:
			return rec(x.X, d+1)
		case *ssa.Index:
			return rec(x.X, d+1)
		case *ssa.Slice:
			return rec(x.X, d+1)
		case *ssa.Convert:
			return rec(x.X, d+1)
		case *ssa.ChangeType:
			return rec(x.X, d+1)
		case *ssa.MakeInterface:
			return rec(x.X, d+1)
		case *ssa.ChangeInterface:
			return rec(x.X, d+1)
		case *ssa.TypeAssert:
			return rec(x.X, d+1)
		case *ssa.Lookup:
			return rec(x.X, d+1)
		case *ssa.Next:
			return rec(x.Iter, d+1)
		case *ssa.Range:
			return rec(x.X, d+1)
		case *ssa.BinOp:
			if o.throughBinOp {
				return rec(x.X, d+1) || rec(x.Y, d+1)
			}
		case *ssa.Call:
			if o.throughCalls != nil && o.throughCalls(x) {
				for _, a := range x.Call.Args {
					if rec(a, d+1) {
						return true
					}
				}
				if x.Call.IsInvoke() && !o.argsOnly && rec(x.Call.Value, d+1) {
					return true
				}
			}
		}
		return false
	}
	return rec(v, 0)
}

// unspill looks through a load from a local cell that is stored exactly once
// (go/ssa spills captured parameters and variables to heap cells).
func unspill(v ssa.Value) ssa.Value {
	for i := 0; i < 4; i++ {
		u, ok := v.(*ssa.UnOp)
		if !ok || u.Op != token.MUL {
			return v
		}
		al, ok := u.X.(*ssa.Alloc)
		if !ok {
			return v
		}
		var st *ssa.Store
		n := 0
		for _, r := range *al.Referrers() {
			if s, ok := r.(*ssa.Store); ok && s.Addr == al {
				st = s
				n++
			}
		}
		if n != 1 {
			return v
		}
		v = st.Val
	}
	return v
}

// returnValues resolves the values a Return yields. Functions with a defer
// and named results spill results to cells: `return a, b` becomes stores to
// the result cells, RunDefers, loads, Return. The stored values are returned
// when the stores are in the Return's own block; fromCell reports results that
// could not be resolved that way (e.g. the recover block).
func returnValues(ret *ssa.Return) (vals []ssa.Value, fromCell []bool) {
	vals = make([]ssa.Value, len(ret.Results))
	fromCell = make([]bool, len(ret.Results))
	blk := ret.Block()
	for i, r := range ret.Results {
		vals[i] = r
		u, ok := r.(*ssa.UnOp)
		if !ok || u.Op != token.MUL {
			continue
		}
		al, ok := u.X.(*ssa.Alloc)
		if !ok {
			continue
		}
		fromCell[i] = true
		for _, ins := range blk.Instrs {
			if ins == ssa.Instruction(u) {
				break
			}
			if s, ok := ins.(*ssa.Store); ok && s.Addr == al {
				vals[i] = s.Val
				fromCell[i] = false
			}
		}
	}
	return
}

// flowOffender walks backwards from v through conversions, phis, extracts,
// slices and local cells. It reports whether a value satisfying isSource is
// reached, and the first call met on the way that is not allowed (a
// transformation of the data between source and use).
func flowOffender(v ssa.Value, isSource func(ssa.Value) bool, allowed func(*ssa.Call) bool, boundary ...func(*ssa.Call) bool) (offender *ssa.Call, reached bool) {
	seen := map[ssa.Value]bool{}
	var rec func(v ssa.Value, d int)
	rec = func(v ssa.Value, d int) {
		if v == nil || seen[v] || d > 40 {
			return
		}
		seen[v] = true
		if isSource(v) {
			reached = true
			return
		}
		switch x := v.(type) {
		case *ssa.Call:
			// append(prefix, data...) / append(data, suffix...): the data's bytes are
			// carried over unchanged into the longer list
			if b, ok := x.Call.Value.(*ssa.Builtin); ok && b.Name() == "append" {
				for _, a := range x.Call.Args {
					rec(a, d+1)
				}
				return
			}
			if allowed != nil && allowed(x) {
				for _, a := range x.Call.Args {
					rec(a, d+1)
				}
				if !x.Call.IsInvoke() {
					if _, isFn := x.Call.Value.(*ssa.Function); !isFn {
						rec(x.Call.Value, d+1)
					}
				}
				return
			}
			// the result of a boundary call is a new artefact, not the data itself
			for _, b := range boundary {
				if b(x) {
					return
				}
			}
			// a call whose arguments carry the source transforms it
			carries := false
			for _, a := range x.Call.Args {
				if derives(a, isSource, &deriveOpts{throughBinOp: true}) {
					carries = true
				}
			}
			if carries && offender == nil {
				offender = x
				reached = true
			}
		case *ssa.Phi:
			for _, e := range x.Edges {
				rec(e, d+1)
			}
		case *ssa.Extract:
			rec(x.Tuple, d+1)
		case *ssa.Convert:
			rec(x.X, d+1)
		case *ssa.ChangeType:
			rec(x.X, d+1)
		case *ssa.MakeInterface:
			rec(x.X, d+1)
		case *ssa.Slice:
			rec(x.X, d+1)
		case *ssa.UnOp:
			if al, ok := x.X.(*ssa.Alloc); ok && al.Referrers() != nil {
				for _, r := range *al.Referrers() {
					if st, ok := r.(*ssa.Store); ok && st.Addr == al {
						rec(st.Val, d+1)
					}
				}
				return
			}
			rec(x.X, d+1)
		}
	}
	rec(v, 0)
	return offender, reached
}

// funcValueOperands: functions used as values (not as the callee) by ins.
func funcValueOperands(ins ssa.Instruction) []*ssa.Function {
	var out []*ssa.Function
	var callee ssa.Value
	if ci, ok := ins.(ssa.CallInstruction); ok {
		callee = ci.Common().Value
	}
	for _, op := range ins.Operands(nil) {
		if op == nil || *op == nil || *op == callee {
			continue
		}
		if f, ok := (*op).(*ssa.Function); ok {
			out = append(out, f)
		}
	}
	return out
}

// retVal: the value a Return gives for result i, seen through the result cells
// that go/ssa introduces when the function has a defer.
func retVal(ret *ssa.Return, i int) ssa.Value {
	vals, _ := returnValues(ret)
	return vals[i]
}

// reachesCall: f, one of its closures, or a function of package pkg it reaches
// through at most depth static calls contains a call that pred accepts.
func reachesCall(f *ssa.Function, pkg string, depth int, pred func(ssa.CallInstruction) bool) bool {
	seen := map[*ssa.Function]bool{}
	var visit func(g *ssa.Function, d int) bool
	visit = func(g *ssa.Function, d int) bool {
		if seen[g] || len(g.Blocks) == 0 {
			return false
		}
		seen[g] = true
		found := false
		for _, h := range withClosures(g) {
			eachCall(h, func(cl ssa.CallInstruction) {
				if found {
					return
				}
				if pred(cl) {
					found = true
					return
				}
				if sc := staticCallee(cl); sc != nil && d < depth && fnPkgPath(sc) == pkg && visit(sc, d+1) {
					found = true
				}
			})
		}
		return found
	}
	return visit(f, 0)
}

// fileNameFields: the names of the struct fields of pkg/parse that hold the
// name of a source file, by role — the fields whose value is handed to the
// reader as the path to read ("filename" when nothing is found).
var fileNameFieldMemo map[*Program]map[string]bool

func fileNameFields(p *Program) map[string]bool {
	if fileNameFieldMemo == nil {
		fileNameFieldMemo = map[*Program]map[string]bool{}
	}
	if m, ok := fileNameFieldMemo[p]; ok {
		return m
	}
	out := map[string]bool{"filename": true}
	for _, f := range p.RepoFuncs() {
		if fnPkgPath(f) != repoMod+"/pkg/parse" {
			continue
		}
		eachCall(f, func(cl ssa.CallInstruction) {
			cc := cl.Common()
			if !cc.IsInvoke() || cc.Method == nil || !strings.HasPrefix(cc.Method.Name(), "Read") || cc.Method.Pkg() == nil || !strings.HasSuffix(cc.Method.Pkg().Path(), "/reader") {
				return
			}
			for _, a := range cc.Args {
				if !isStringType(a.Type()) {
					continue
				}
				if _, fld, _, ok := loadedField(unspill(a)); ok {
					out[strings.ToLower(fld)] = true
				}
			}
		})
	}
	fileNameFieldMemo[p] = out
	return out
}
