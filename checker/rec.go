package main

import (
	"fmt"
	"go/constant"
	"go/token"
	"go/types"
	"os"
	"path/filepath"
	"sort"
	"strings"

	"golang.org/x/tools/go/callgraph"
	"golang.org/x/tools/go/ssa"
)

// R-REC: every recursive cycle among repository functions reachable from the
// entry set is structural (descends a finite tree) or carries a guard.

type recEdge struct {
	From, To *ssa.Function
	Site     ssa.Instruction // call instruction or MakeClosure
}

type repoGraph struct {
	p     *Program
	succ  map[*ssa.Function][]recEdge
	nodes []*ssa.Function
}

// normFn folds synthetic wrappers ($bound, $thunk) into the wrapped method.
func normFn(p *Program, f *ssa.Function) *ssa.Function {
	if f == nil {
		return nil
	}
	if f.Synthetic != "" && (strings.HasSuffix(f.Name(), "$bound") || strings.HasSuffix(f.Name(), "$thunk")) {
		if o, ok := f.Object().(*types.Func); ok {
			if g := p.SSA.FuncValue(o); g != nil {
				return g
			}
		}
	}
	return f
}

// buildRepoGraph: edges between repository functions: call-graph edges
// (wrappers folded) plus closure-creation edges (a closure created in f is
// assumed to be called by f or by whatever f hands it to).
func buildRepoGraph(p *Program) *repoGraph {
	g := &repoGraph{p: p, succ: map[*ssa.Function][]recEdge{}}
	cg := p.CallGraph()
	seen := map[*ssa.Function]bool{}
	for fn, node := range cg.Nodes {
		f := normFn(p, fn)
		if f == nil || !isRepoFn(f) {
			continue
		}
		if !seen[f] {
			seen[f] = true
			g.nodes = append(g.nodes, f)
		}
		for _, e := range node.Out {
			to := normFn(p, e.Callee.Func)
			if to == nil || !isRepoFn(to) {
				continue
			}
			var site ssa.Instruction
			if e.Site != nil {
				site = e.Site
			}
			if fn != f {
				if to == f {
					continue // $bound/$thunk wrapper calling the method it wraps: not a recursion
				}
				site = nil // edge originates in a wrapper
			}
			g.succ[f] = append(g.succ[f], recEdge{f, to, site})
		}
	}
	for _, f := range g.nodes {
		eachInstr(f, func(_ *ssa.BasicBlock, i ssa.Instruction) {
			if mc, ok := i.(*ssa.MakeClosure); ok {
				if fn, ok := mc.Fn.(*ssa.Function); ok {
					g.succ[f] = append(g.succ[f], recEdge{f, fn, mc})
				}
			}
		})
	}
	sort.Slice(g.nodes, func(i, j int) bool { return fnName(g.nodes[i]) < fnName(g.nodes[j]) })
	return g
}

// sccs: Tarjan over the sub-graph induced by keep.
func (g *repoGraph) sccs(keep map[*ssa.Function]bool) [][]*ssa.Function {
	index := map[*ssa.Function]int{}
	low := map[*ssa.Function]int{}
	on := map[*ssa.Function]bool{}
	var stack []*ssa.Function
	var out [][]*ssa.Function
	n := 0
	var strong func(v *ssa.Function)
	strong = func(v *ssa.Function) {
		index[v], low[v] = n, n
		n++
		stack = append(stack, v)
		on[v] = true
		for _, e := range g.succ[v] {
			w := e.To
			if !keep[w] {
				continue
			}
			if _, ok := index[w]; !ok {
				strong(w)
				if low[w] < low[v] {
					low[v] = low[w]
				}
			} else if on[w] && index[w] < low[v] {
				low[v] = index[w]
			}
		}
		if low[v] == index[v] {
			var comp []*ssa.Function
			for {
				w := stack[len(stack)-1]
				stack = stack[:len(stack)-1]
				on[w] = false
				comp = append(comp, w)
				if w == v {
					break
				}
			}
			self := false
			if len(comp) == 1 {
				for _, e := range g.succ[v] {
					if e.To == v {
						self = true
					}
				}
			}
			if len(comp) > 1 || self {
				sort.Slice(comp, func(i, j int) bool { return fnName(comp[i]) < fnName(comp[j]) })
				out = append(out, comp)
			}
		}
	}
	for _, v := range g.nodes {
		if keep[v] {
			if _, ok := index[v]; !ok {
				strong(v)
			}
		}
	}
	sort.Slice(out, func(i, j int) bool { return fnName(out[i][0]) < fnName(out[j][0]) })
	return out
}

// ---- descent analysis -------------------------------------------------------------

type stepInfo struct {
	steps   int  // number of descent steps on the path found
	foreign bool // passes a look-up in a map that is not derived from the same root
}

// descendsFrom reports whether v derives from a parameter / free variable /
// receiver of fn by descent steps only, and how many.
func descendsFrom(v ssa.Value, fn *ssa.Function) (root ssa.Value, steps int, ok bool) {
	type st struct {
		v ssa.Value
		n int
	}
	seen := map[ssa.Value]bool{}
	var rec func(v ssa.Value, n, d int) (ssa.Value, int, bool)
	rec = func(v ssa.Value, n, d int) (ssa.Value, int, bool) {
		if v == nil || seen[v] || d > 40 {
			return nil, 0, false
		}
		seen[v] = true
		v2 := unspill(v)
		if v2 != v {
			return rec(v2, n, d+1)
		}
		switch x := v.(type) {
		case *ssa.Parameter:
			return x, n, true
		case *ssa.FreeVar:
			return x, n, true
		case *ssa.Phi:
			// all non-self edges must descend from the same root; take min steps
			var r0 ssa.Value
			best := -1
			for _, e := range x.Edges {
				if e == x {
					continue
				}
				r, k, ok := rec(e, n, d+1)
				if !ok {
					// edges already visited (loop-carried) are skipped
					if seen[e] {
						continue
					}
					return nil, 0, false
				}
				if r0 == nil {
					r0 = r
				} else if r0 != r {
					return nil, 0, false
				}
				if best < 0 || k < best {
					best = k
				}
			}
			if r0 == nil {
				return nil, 0, false
			}
			return r0, best, true
		case *ssa.Extract:
			return rec(x.Tuple, n, d+1)
		case *ssa.UnOp:
			if x.Op == token.MUL {
				return rec(x.X, n, d+1)
			}
		case *ssa.FieldAddr:
			return rec(x.X, n+1, d+1)
		case *ssa.Field:
			return rec(x.X, n+1, d+1)
		case *ssa.IndexAddr:
			return rec(x.X, n+1, d+1)
		case *ssa.Index:
			return rec(x.X, n+1, d+1)
		case *ssa.Slice:
			// s[i:] with i>0 is a descent on a list; s[:] is not
			if x.Low != nil {
				if k, ok := constInt(x.Low); ok && k > 0 {
					return rec(x.X, n+1, d+1)
				}
			}
			return rec(x.X, n, d+1)
		case *ssa.Lookup:
			// element of a map that itself descends from the root
			return rec(x.X, n+1, d+1)
		case *ssa.Next:
			return rec(x.Iter, n+1, d+1)
		case *ssa.Range:
			return rec(x.X, n, d+1)
		case *ssa.TypeAssert:
			return rec(x.X, n, d+1)
		case *ssa.ChangeInterface:
			return rec(x.X, n, d+1)
		case *ssa.MakeInterface:
			return rec(x.X, n, d+1)
		case *ssa.ChangeType:
			return rec(x.X, n, d+1)
		case *ssa.Alloc:
			// local struct/array filled from a descending value
			var r0 ssa.Value
			best := -1
			cnt := 0
			visit := func(val ssa.Value) bool {
				r, k, ok := rec(val, n, d+1)
				if !ok {
					return false
				}
				cnt++
				if r0 == nil {
					r0 = r
				} else if r0 != r {
					return false
				}
				if best < 0 || k < best {
					best = k
				}
				return true
			}
			for _, r := range *x.Referrers() {
				if s, ok := r.(*ssa.Store); ok && s.Addr == x {
					if !visit(s.Val) {
						return nil, 0, false
					}
				}
				// a fresh node wrapped around what the caller holds (a composite
				// literal): the tree-typed values put into its fields
				if fa, ok := r.(*ssa.FieldAddr); ok && fa.X == ssa.Value(x) && fa.Referrers() != nil {
					for _, r2 := range *fa.Referrers() {
						if s, ok := r2.(*ssa.Store); ok && s.Addr == ssa.Value(fa) && isTreeType(s.Val.Type()) {
							if k, isK := s.Val.(*ssa.Const); isK && k.Value == nil {
								continue
							}
							if !visit(s.Val) {
								return nil, 0, false
							}
						}
					}
				}
			}
			if cnt == 0 {
				return nil, 0, false
			}
			return r0, best, true
		case *ssa.Call:
			// a list gathered from descending pieces: append(acc, piece...) where acc
			// starts empty and only ever receives such pieces (the statements of all
			// choices of an alternative)
			if b, ok := x.Call.Value.(*ssa.Builtin); ok && b.Name() == "append" && len(x.Call.Args) == 2 && isGatherAccumulator(x.Call.Args[0], 0, map[ssa.Value]bool{}) {
				return rec(x.Call.Args[1], n, d+1)
			}
			// accessor on a tree node: a method whose only tree-typed operand is
			// its receiver (protobuf GetX, ANTLR context accessors, GetChild(i))
			if sc := x.Call.StaticCallee(); sc != nil && sc.Signature.Recv() != nil && len(x.Call.Args) >= 1 && isAccessor(sc.Object(), x.Call.Args[1:]) {
				return rec(x.Call.Args[0], n+1, d+1)
			}
			if x.Call.IsInvoke() && isAccessor(x.Call.Method, x.Call.Args) {
				return rec(x.Call.Value, n+1, d+1)
			}
			// a selector helper of the repository: every value it returns is nil or
			// obtained from one of its parameters by at least one descent step
			if sc := x.Call.StaticCallee(); sc != nil {
				if pi, k, ok := selectorHelper(sc); ok && pi < len(x.Call.Args) {
					return rec(x.Call.Args[pi], n+k, d+1)
				}
			}
		}
		return nil, 0, false
	}
	return rec(v, 0, 0)
}

type selInfo struct {
	param, steps int
	ok           bool
}

var selectorMemo = map[*ssa.Function]*selInfo{}

// selectorHelper: h is a repository function with one result; every Return
// gives nil or a value that descends by ≥1 step from one and the same
// parameter of h (e.g. "the statements nested under this statement").
func selectorHelper(h *ssa.Function) (int, int, bool) {
	if m, ok := selectorMemo[h]; ok {
		return m.param, m.steps, m.ok
	}
	m := &selInfo{}
	selectorMemo[h] = m // recursion through the helper itself: not a selector
	if !isRepoFn(h) || len(h.Blocks) == 0 || h.Signature.Results().Len() != 1 || !isTreeType(h.Signature.Results().At(0).Type()) {
		return 0, 0, false
	}
	param, best := -1, -1
	for _, b := range h.Blocks {
		ret, ok := b.Instrs[len(b.Instrs)-1].(*ssa.Return)
		if !ok || b == h.Recover {
			continue
		}
		vals, cell := returnValues(ret)
		if cell[0] {
			return 0, 0, false
		}
		// a phi of nil and descending values is handled by descendsFrom only when
		// all edges descend: split the nil edges off here
		var leaves []ssa.Value
		if ph, ok := vals[0].(*ssa.Phi); ok {
			leaves = append(leaves, ph.Edges...)
		} else {
			leaves = append(leaves, vals[0])
		}
		for _, v := range leaves {
			if isNilConst(v) {
				continue
			}
			root, k, ok := descendsFrom(v, h)
			prm, isP := root.(*ssa.Parameter)
			if !ok || !isP || k < 1 {
				return 0, 0, false
			}
			pi := -1
			for i, q := range h.Params {
				if q == prm {
					pi = i
				}
			}
			if pi < 0 || (param >= 0 && param != pi) {
				return 0, 0, false
			}
			param = pi
			if best < 0 || k < best {
				best = k
			}
		}
	}
	if param < 0 {
		return 0, 0, false
	}
	m.param, m.steps, m.ok = param, best, true
	return param, best, true
}

// isAccessor: a method that selects a child of its receiver: protobuf getters
// (GetX), generated ANTLR context accessors (methods of pkg/grammar context
// types and of the antlr tree interfaces), with no tree-typed argument.
func isAccessor(o types.Object, rest []ssa.Value) bool {
	fn, ok := o.(*types.Func)
	if !ok || fn.Pkg() == nil {
		return false
	}
	for _, a := range rest {
		if isTreeType(a.Type()) {
			return false
		}
	}
	pk := fn.Pkg().Path()
	if strings.HasPrefix(fn.Name(), "Get") || strings.HasPrefix(fn.Name(), "All") {
		return true
	}
	if pk == repoMod+"/pkg/grammar" || strings.HasSuffix(pk, "/antlr") {
		return true
	}
	return false
}

// ---- classification ----------------------------------------------------------------

type guardRow struct {
	SCC    string `json:"scc"`    // representative member (any member name)
	Kind   string `json:"kind"`   // "visited" | "user-program" | "bounded"
	Reason string `json:"reason"` // why the recursion ends
	// visited-guard description
	Func      string `json:"func,omitempty"`      // function holding the guarded recursive call
	Container string `json:"container,omitempty"` // substring of the type or field name of the visited container
	Release   bool   `json:"release,omitempty"`   // a release (delete/decrement) must follow the recursive call
	FuncFP    string `json:"func_fp,omitempty"`   // fingerprint of the guard function's body when the row was written
	Seed      string `json:"seed,omitempty"`      // name-independent fingerprint of the cycle's bodies when the row was written
	Where     string `json:"where,omitempty"`     // package|in:files#members of the cycle when the row was written (tools/guardwhere.py)
	// set while a method of the container's own type is judged: the container is
	// whatever map hangs off this receiver
	viaRecv *ssa.Parameter
}

// recvRow: when the call's receiver is the visited container itself (a type of
// this repository wrapping the map), the row to judge the method h with.
func recvRow(h *ssa.Function, cl ssa.CallInstruction, row *guardRow) *guardRow {
	if h == nil || h.Signature.Recv() == nil || len(h.Params) == 0 || row.viaRecv != nil {
		return row
	}
	args := cl.Common().Args
	if len(args) == 0 || !containerMatches(args[0], row) {
		return row
	}
	r := *row
	r.viaRecv = h.Params[0]
	return &r
}

func loadGuards() ([]guardRow, error) {
	var rows []guardRow
	err := readJSON(filepath.Join(verifDir(), "tables", "guards.json"), &rows)
	return rows, err
}

// runRec classifies every recursive SCC reachable from entries.
func runRec(c *Check, rule string, entries []*ssa.Function, only func(*ssa.Function) bool, exclude ...*ssa.Function) {
	excl := map[*ssa.Function]bool{}
	for _, f := range exclude {
		excl[f] = true
	}
	p := c.P
	g := buildRepoGraph(p)
	all := reachable(p.CallGraph(), entries, func(e *callgraph.Edge) bool { return excl[e.Callee.Func] })
	keep := map[*ssa.Function]bool{}
	for f := range all {
		nf := normFn(p, f)
		if nf != nil && isRepoFn(nf) && !p.isGeneratedFile(p.fnFile(nf)) {
			keep[nf] = true
		}
	}
	// closures of kept functions
	for _, f := range g.nodes {
		if f.Parent() != nil && keep[f.Parent()] {
			keep[f] = true
		}
	}
	guards, err := loadGuards()
	if err != nil {
		c.Undecidedf(rule, "guards.json", "-", "cannot read guards table: %v", err)
		return
	}
	comps := g.sccs(keep)
	c.Counts[rule+"_recursive_sccs"] = len(comps)
	nBefore := len(c.Obs)
	seedFrom := func(comp []*ssa.Function) {
		seed := sccSeed(comp)
		// where the cycle lives: file of its members and how many top-level
		// functions it has (a cycle renamed and re-signatured as a whole is still
		// "the cycle of six functions in xsd.go")
		files := map[string]bool{}
		nTop := 0
		for _, f := range comp {
			if f.Parent() == nil {
				nTop++
				files[filepath.Base(c.P.fnFile(f))] = true
			}
		}
		var fl []string
		for k := range files {
			fl = append(fl, k)
		}
		sort.Strings(fl)
		loose := fmt.Sprintf("in:%s#%d", strings.Join(fl, "+"), nTop)
		for _, o := range c.Obs[nBefore:] {
			if o.ShapeSeed == "" {
				o.ShapeSeed = seed
				o.LooseSeed = loose
			}
		}
		nBefore = len(c.Obs)
	}
	var prev []*ssa.Function
	for _, comp := range comps {
		if prev != nil {
			seedFrom(prev)
		}
		prev = comp
		if only != nil {
			hit := false
			for _, f := range comp {
				if only(f) {
					hit = true
				}
			}
			if !hit {
				continue
			}
		}
		in := map[*ssa.Function]bool{}
		var names []string
		for _, f := range comp {
			in[f] = true
			names = append(names, fnName(f))
		}
		// the key is the cycle's first member in name order, without the member
		// count: a helper extracted from (or inlined into) a member must not
		// re-key the obligation
		sort.Strings(names)
		key := names[0]
		pos := p.pos(comp[0].Pos())
		// table row? by the name of a member, or — when the function a row names no
		// longer exists anywhere — by where the cycle lives (package, files, number
		// of top-level members): the cycle renamed as a whole
		var row *guardRow
		for i := range guards {
			for _, n := range names {
				if guards[i].SCC == n {
					row = &guards[i]
				}
			}
		}
		where := sccWhere(p, comp)
		seed := sccSeed(comp)
		if os.Getenv("VERIF_GUARD_WHERE") != "" && row != nil {
			fmt.Fprintf(os.Stderr, "GUARDWHERE\t%s\t%s\t%s\n", row.SCC, where, seed)
		}
		if row == nil {
			// the same bodies under other names
			for i := range guards {
				if guards[i].Seed != "" && guards[i].Seed == seed && p.FuncByNameExact(guards[i].SCC) == nil {
					row = &guards[i]
				}
			}
		}
		whereRow := func() *guardRow {
			// the cycle of that size in those files, when only one row says so
			n := 0
			for i := range guards {
				if guards[i].Where != "" && guards[i].Where == where {
					n++
				}
			}
			for i := range guards {
				if n == 1 && guards[i].Where == where && p.FuncByNameExact(guards[i].SCC) == nil {
					return &guards[i]
				}
			}
			return nil
		}
		if row != nil {
			checkGuardRow(c, rule, key, pos, comp, in, g, row)
			continue
		}
		// structural?
		bad := ""
		nEdges := 0
		for _, f := range comp {
			for _, e := range g.succ[f] {
				if !in[e.To] {
					continue
				}
				nEdges++
				ok, why := edgeDescends(e)
				if !ok && bad == "" {
					sp := "-"
					if e.Site != nil {
						sp = p.pos(e.Site.Pos())
					}
					bad = fmt.Sprintf("call %s → %s at %s: %s", fnName(e.From), fnName(e.To), sp, why)
				}
			}
		}
		if bad != "" {
			if ok, why := autoGuard(comp, in, g, false); ok {
				c.Okf(rule, key, pos, "recursive descent is guarded: %s", why)
				continue
			} else if os.Getenv("VERIF_DEBUG_REC") != "" {
				fmt.Fprintf(os.Stderr, "REC-DEBUG autoGuard(%s): %s\n", key, why)
			}
			if r := whereRow(); r != nil {
				checkGuardRow(c, rule, key, pos, comp, in, g, r)
				continue
			}
		}
		if bad == "" {
			c.Okf(rule, key, pos, "structural recursion: each of the %d intra-cycle calls passes a value obtained from the caller's own parameter by field/index/range/getter steps (descends a finite tree)", nEdges)
		} else {
			c.Ob(rule, key, pos, Flag, "recursive cycle is neither structural nor listed with a guard in tables/guards.json: "+bad, names...)
		}
	}
	if prev != nil {
		seedFrom(prev)
	}
}

// edgeDescends: the call passes at least one argument that descends (≥1
// step) from a parameter/free variable of the caller. Closure creation edges
// descend trivially (zero steps) – the closure's own calls are checked.
func edgeDescends(e recEdge) (bool, string) {
	switch s := e.Site.(type) {
	case *ssa.MakeClosure:
		return true, ""
	case ssa.CallInstruction:
		args := s.Common().Args
		if s.Common().IsInvoke() {
			args = append([]ssa.Value{s.Common().Value}, args...)
		}
		// roots handed on unchanged: a value looked up below such a root is not a
		// smaller structure — the callee holds the whole root again and can look up
		// anything (an application found by name in the module it also passes on)
		whole := map[ssa.Value]bool{}
		for _, a := range args {
			if r, n, ok := descendsFrom(a, e.From); ok && n == 0 {
				whole[r] = true
			}
		}
		for _, a := range args {
			if !isTreeType(a.Type()) {
				continue
			}
			if r, n, ok := descendsFrom(a, e.From); ok && n >= 1 && !whole[r] {
				return true, ""
			}
		}
		return false, "no argument is derived from the caller's parameters by descent steps only (a value found below a parameter that is itself handed on unchanged does not count)"
	}
	return false, "call site not visible (edge through a synthetic wrapper)"
}

func isTreeType(t types.Type) bool {
	switch u := t.Underlying().(type) {
	case *types.Pointer, *types.Slice, *types.Map, *types.Interface:
		_ = u
		return true
	}
	return false
}

// checkGuardRow verifies a frozen guard description against the current code.
func checkGuardRow(c *Check, rule, key, pos string, comp []*ssa.Function, in map[*ssa.Function]bool, g *repoGraph, row *guardRow) {
	p := c.P
	switch row.Kind {
	case "user-program", "bounded":
		c.Okf(rule, key, pos, "recursion accepted by table row (%s): %s", row.Kind, row.Reason)
		return
	case "visited", "counter":
	default:
		c.Undecidedf(rule, key, pos, "guards.json row has unknown kind %q", row.Kind)
		return
	}
	var gf *ssa.Function
	for _, f := range comp {
		if fnName(f) == row.Func {
			gf = f
		}
	}
	if gf == nil && row.FuncFP != "" {
		// the guard function under another name: the member with the same body
		for _, f := range comp {
			if fingerprint(f) == row.FuncFP {
				gf = f
			}
		}
	}
	if os.Getenv("VERIF_GUARD_WHERE") != "" && gf != nil {
		fmt.Fprintf(os.Stderr, "GUARDFUNC\t%s\t%s\n", row.SCC, fingerprint(gf))
	}
	if gf == nil {
		// the function was renamed or split: look for the guard by what it does
		if ok, why := autoGuard(comp, in, g, row.Release); ok {
			c.Okf(rule, key, pos, "recursive descent is guarded (guard found by role, the function named in guards.json no longer exists): %s", why)
		} else {
			c.Flagf(rule, key, pos, "guard function %s named in guards.json is no longer part of this recursive cycle and no function of the cycle guards all its recursive calls: %s", row.Func, why)
		}
		return
	}
	// intra-SCC calls made from gf
	nChecked := 0
	for _, e := range g.succ[gf] {
		if !in[e.To] || e.Site == nil {
			continue
		}
		call := e.Site
		switch call.(type) {
		case ssa.CallInstruction, *ssa.MakeClosure:
		default:
			continue
		}
		nChecked++
		var ok2 bool
		var why string
		if row.Kind == "counter" {
			ok2, why = counterGuarded(gf, call)
		} else {
			ok2, why = visitedGuarded(gf, call, row)
			if !ok2 {
				// the container may have been renamed: try every container the function inserts into
				for _, cand := range candidateContainers(gf) {
					r2 := *row
					r2.Container = cand
					if ok3, why3 := visitedGuarded(gf, call, &r2); ok3 {
						ok2, why = true, why3
						break
					}
				}
				if !ok2 {
					// the guard spread over the steps the function was split into
					if ok3, why3 := chainGuarded(p, gf, call, row, in, g); ok3 {
						ok2, why = true, why3
					}
				}
				if !ok2 && !row.Release {
					// test and insertion moved into a helper
					if ok3, why3 := helperGuarded(p, gf, call); ok3 {
						ok2, why = true, why3
					}
				}
			}
		}
		sub := fmt.Sprintf("%s|%s→%s", key, gf.Name(), e.To.Name())
		if ok2 {
			c.Okf(rule, sub, p.pos(call.Pos()), "recursive descent is guarded: %s", why)
		} else {
			c.Flagf(rule, sub, p.pos(call.Pos()), "guard missing or incomplete on the recursive call: %s", why)
		}
	}
	if nChecked == 0 {
		c.Flagf(rule, key, pos, "guard function %s makes no intra-cycle call any more: the cycle must be re-read", row.Func)
	}
	// the guard ends only the rounds that pass through it: what is left of the
	// cycle without the guard function must not come back to itself (except by
	// steps that descend a finite tree)
	// (Whether *every* round passes the guard cannot be decided on this graph:
	// the double-dispatch hub `Visit(Element)` joins rounds that the dynamic types
	// keep apart. What can be decided exactly is the shortest round: a function of
	// the cycle that calls itself, directly or from a call-back it creates, without
	// handing down something smaller.)
	if row.Kind == "visited" || row.Kind == "counter" {
		bad := selfRound(comp, in, g, gf)
		c.Cond(bad == "", rule, key+"|no self-call beside the guard", pos,
			fmt.Sprintf("no function of the cycle other than %s calls itself (directly or from a call-back it creates) without descending", gf.Name()),
			bad)
	}
}

// selfRound: a function of the cycle, other than the guard function, that comes
// back to itself directly or through a closure it creates, by a call that does
// not descend a finite tree.
func selfRound(comp []*ssa.Function, in map[*ssa.Function]bool, g *repoGraph, skip *ssa.Function) string {
	plain := func(e recEdge) bool {
		if _, isCall := e.Site.(ssa.CallInstruction); !isCall {
			return false
		}
		// (the same function with the same node handed on makes no progress
		// either, so handing on does not count here)
		d, _ := edgeDescends(e)
		return !d
	}
	for _, f := range comp {
		if f == skip || withinFn(f, skip) {
			continue
		}
		for _, e := range g.succ[f] {
			if !in[e.To] {
				continue
			}
			if e.To == f && plain(e) {
				return fmt.Sprintf("%s calls itself at %s without handing down something smaller, and the call does not pass through the guard function %s: the guard does not end this round", fnName(f), g.p.pos(e.Site.Pos()), skip.Name())
			}
			if _, isMC := e.Site.(*ssa.MakeClosure); isMC && e.To.Parent() == f {
				for _, e2 := range g.succ[e.To] {
					if e2.To == f && plain(e2) {
						return fmt.Sprintf("%s is called again from the call-back it creates (%s) without handing down something smaller, and the round does not pass through the guard function %s: the guard does not end it", fnName(f), g.p.pos(e2.Site.Pos()), skip.Name())
					}
				}
			}
		}
	}
	return ""
}

// containerMatches: v (a map/slice value or address) belongs to the visited
// container named by the row (substring of field name or type string).
func containerMatches(v ssa.Value, row *guardRow) bool {
	if v == nil {
		return false
	}
	if row.viaRecv != nil {
		for r := v; r != nil; {
			switch x := r.(type) {
			case *ssa.Parameter:
				return x == row.viaRecv
			case *ssa.UnOp:
				r = x.X
			case *ssa.Field:
				r = x.X
			case *ssa.FieldAddr:
				r = x.X
			case *ssa.Alloc:
				// the spilled receiver
				r = nil
				n := 0
				if x.Referrers() != nil {
					for _, ref := range *x.Referrers() {
						if st, ok := ref.(*ssa.Store); ok && st.Addr == ssa.Value(x) {
							r = st.Val
							n++
						}
					}
				}
				if n != 1 {
					r = nil
				}
			default:
				r = nil
			}
		}
		return false
	}
	if _, fld, _, ok := loadedField(v); ok && fld == row.Container {
		return true
	}
	if _, fld, _, ok := fieldOfAddr(v); ok && fld == row.Container {
		return true
	}
	switch x := v.(type) {
	case *ssa.Parameter:
		return x.Name() == row.Container
	case *ssa.FreeVar:
		return x.Name() == row.Container
	case *ssa.UnOp:
		return containerMatches(x.X, row)
	case *ssa.Alloc:
		return x.Comment == row.Container
	case *ssa.Phi:
		return x.Comment == row.Container
	}
	return false
}

// counterGuarded: the recursive call passes (integer parameter − positive
// constant) and the function returns without recursing when that parameter is
// zero (or not positive).
func counterGuarded(f *ssa.Function, call ssa.Instruction) (bool, string) {
	ci, ok := call.(ssa.CallInstruction)
	if !ok {
		return false, "not a call"
	}
	for _, a := range ci.Common().Args {
		b, ok := a.(*ssa.BinOp)
		if !ok || b.Op != token.SUB {
			continue
		}
		k, isK := constInt(b.Y)
		prm, isP := unspill(b.X).(*ssa.Parameter)
		if !isK || k <= 0 || !isP {
			continue
		}
		// base test on prm that prevents reaching the call
		base := false
		for _, r := range *prm.Referrers() {
			bin, ok := r.(*ssa.BinOp)
			if !ok {
				continue
			}
			z, isZ := constInt(bin.Y)
			if !isZ || bin.X != ssa.Value(prm) {
				continue
			}
			if (bin.Op == token.EQL && z == 0) || (bin.Op == token.LEQ && z == 0) || (bin.Op == token.LSS && z == 1) {
				for _, br := range branchesOn(bin) {
					if !blockReaches(br.TrueSucc, call.Block(), nil) {
						base = true
					}
				}
			}
		}
		if base {
			return true, fmt.Sprintf("argument is %s − %d and the function returns without recursing when %s is zero", prm.Name(), k, prm.Name())
		}
		return false, "counter is decremented but there is no base case on it that avoids the recursive call"
	}
	return false, "no argument of the form parameter − constant"
}

// visitedGuarded: the recursive call is (i) reached only through the negative
// outcome of a membership test on the visited container, (ii) dominated by an
// insertion into it, (iii) if row.Release, followed on every normal path by a
// removal/decrement.
// containerCall: ins is a call of a method named one of names on the visited container.
func containerCall(ins ssa.Instruction, row *guardRow, names ...string) (ssa.CallInstruction, bool) {
	cl, ok := ins.(ssa.CallInstruction)
	if !ok {
		return nil, false
	}
	o := calleeObj(cl)
	if o == nil {
		return nil, false
	}
	hit := false
	for _, n := range names {
		if o.Name() == n {
			hit = true
		}
	}
	if !hit {
		return nil, false
	}
	ops := opsOf(cl)
	if len(ops) == 0 || !containerMatches(ops[0], row) {
		return nil, false
	}
	return cl, true
}

func visitedGuarded(f *ssa.Function, call ssa.Instruction, row *guardRow) (bool, string) {
	ok, why, _, _, _ := visitedGuardedX(f, call, row, 0, false)
	return ok, why
}

// visitedGuardedX: mode 0 judges the whole guard in f. Mode 1 judges the part
// of a guard that f holds when the guard is spread over a chain of steps: it
// reports whether f tests (and how) and whether it inserts, and checks the
// release only where the insertion is; presenceIn is how an earlier step tested.
func visitedGuardedX(f *ssa.Function, call ssa.Instruction, row *guardRow, mode int, presenceIn bool) (bool, string, bool, bool, bool) {
	ok, why, tested, byPresence, hasInsert := visitedGuardedImpl(f, call, row, mode, presenceIn)
	return ok, why, tested, byPresence, hasInsert
}

func visitedGuardedImpl(f *ssa.Function, call ssa.Instruction, row *guardRow, mode int, presenceIn bool) (res bool, reason string, testedOut, presenceOut, insertOut bool) {
	fail := func(why string) (bool, string, bool, bool, bool) {
		return false, why, testedOut, presenceOut, insertOut
	}
	// (ii) insertion: MapUpdate on container, store of append to it, or Insert/Add method
	var insert ssa.Instruction
	eachInstr(f, func(_ *ssa.BasicBlock, i ssa.Instruction) {
		switch x := i.(type) {
		case *ssa.MapUpdate:
			if containerMatches(x.Map, row) && instrDominates(i, call) {
				insert = i
			}
		case *ssa.Store:
			if containerMatches(x.Addr, row) && instrDominates(i, call) {
				if cl, ok := x.Val.(*ssa.Call); ok {
					if b, ok := cl.Call.Value.(*ssa.Builtin); ok && b.Name() == "append" {
						insert = i
					}
				}
			}
		case *ssa.Call:
			if _, ok := containerCall(i, row, "Insert", "Add", "Push"); ok && instrDominates(i, call) {
				insert = i
			}
			if h := guardHelper(x); h != nil && instrDominates(i, call) && helperInserts(h, recvRow(h, x, row)) {
				insert = i
			}
		}
	})
	insertOut = insert != nil
	if insert == nil && mode == 0 {
		return fail(fmt.Sprintf("no insertion into the visited container %q dominates the call", row.Container))
	}
	// (i) membership test controlling the call: a Lookup on the container or a Contains/Has method call
	tested := false
	var tests []ssa.Value
	helperPresence := map[ssa.Value]bool{}
	eachInstr(f, func(_ *ssa.BasicBlock, i ssa.Instruction) {
		if lk, ok := i.(*ssa.Lookup); ok && containerMatches(lk.X, row) {
			tests = append(tests, lk)
		}
		if cl, ok := containerCall(i, row, "Contains", "Has"); ok {
			if v := cl.Value(); v != nil {
				tests = append(tests, v)
			}
		}
		// a predicate helper: returns the outcome of a look-up in the container
		if cl, ok := i.(*ssa.Call); ok {
			if h := guardHelper(cl); h != nil {
				if isTest, presence := helperTests(h, recvRow(h, cl, row)); isTest {
					tests = append(tests, cl)
					helperPresence[cl] = presence
				}
			}
		}
	})
	// The test is by presence (the ok of a comma-ok look-up, Contains/Has) or by
	// value (the looked-up element itself): the release must undo what the test reads.
	byPresence, byValue := false, false
	for _, tv := range tests {
		type cond struct {
			v        ssa.Value
			presence bool
		}
		var conds []cond
		var walk func(v ssa.Value, d int, presence bool)
		walk = func(v ssa.Value, d int, presence bool) {
			if d > 4 || v.Referrers() == nil {
				return
			}
			for _, r := range *v.Referrers() {
				switch y := r.(type) {
				case *ssa.Extract:
					walk(y, d+1, y.Index == 1)
				case *ssa.BinOp:
					conds = append(conds, cond{y, presence})
					walk(y, d+1, presence)
				case *ssa.UnOp:
					walk(y, d+1, presence)
				case *ssa.If:
					conds = append(conds, cond{v, presence})
				}
			}
		}
		_, isLookup := tv.(*ssa.Lookup)
		if pr, isHelper := helperPresence[tv]; isHelper {
			conds = append(conds, cond{tv, pr})
			walk(tv, 0, pr)
		} else {
			walk(tv, 0, !isLookup) // Contains/Has: presence; plain look-up: value
		}
		for _, cv := range conds {
			for _, br := range branchesOn(cv.v) {
				// (within one round of an enclosing loop: a path that comes back to
				// the test itself starts another round)
				t := blockReaches(br.TrueSucc, call.Block(), br.If.Block())
				fl := blockReaches(br.FalseSucc, call.Block(), br.If.Block())
				if t != fl {
					tested = true
					if cv.presence {
						byPresence = true
					} else {
						byValue = true
					}
				}
			}
		}
	}
	_ = byValue
	testedOut, presenceOut = tested, byPresence
	if mode == 1 {
		if !tested {
			byPresence = presenceIn
			presenceOut = presenceIn
		}
		if insert == nil {
			return true, "", testedOut, presenceOut, false
		}
	} else if !tested {
		return fail(fmt.Sprintf("the call is not control-dependent on a membership test of the visited container %q", row.Container))
	}
	if row.Release {
		rel := func(i ssa.Instruction) bool {
			switch x := i.(type) {
			case *ssa.MapUpdate:
				if !containerMatches(x.Map, row) || i == insert {
					return false
				}
				// a decrement is the counter idiom: it releases when a delete of the
				// emptied entry follows (presence test) or by itself (value test)
				if b, ok := x.Value.(*ssa.BinOp); ok && b.Op == token.SUB {
					return !byPresence || hasDelete(f, row)
				}
				// storing the zero value releases a test by value only
				if c, ok := x.Value.(*ssa.Const); ok && isZeroConst(c) {
					return !byPresence
				}
				return false
			case *ssa.Call:
				if b, ok := x.Call.Value.(*ssa.Builtin); ok && b.Name() == "delete" && containerMatches(x.Call.Args[0], row) {
					return true
				}
				if _, ok := containerCall(i, row, "Remove", "Delete", "Pop"); ok {
					return true
				}
				if h := guardHelper(x); h != nil && helperReleases(h, recvRow(h, x, row), byPresence) {
					return true
				}
			}
			return false
		}
		// a deferred release registered before the call covers every exit
		deferred := false
		eachInstr(f, func(_ *ssa.BasicBlock, i ssa.Instruction) {
			if d, ok := i.(*ssa.Defer); ok && instrDominates(d, call) {
				if _, ok := containerCall(d, row, "Remove", "Delete", "Pop"); ok {
					deferred = true
				}
				if h := normFnOf(d.Call.StaticCallee()); h != nil && isRepoFn(h) && len(h.Blocks) > 0 && helperReleases(h, recvRow(h, d, row), byPresence) {
					deferred = true
				}
			}
		})
		if !deferred {
			if ret, bad := reachAvoiding(call, func(i ssa.Instruction) bool {
				r, ok := i.(*ssa.Return)
				if !ok {
					return false
				}
				for _, res := range r.Results {
					if isErrorType(res.Type()) && !isNilConst(res) {
						return false // error paths: output is discarded
					}
				}
				return true
			}, rel); bad {
				return fail(fmt.Sprintf("a success path from the recursive call reaches the return at line %d without releasing the in-progress mark", f.Prog.Fset.Position(ret.Pos()).Line))
			}
		}
	}
	return true, fmt.Sprintf("membership test and insertion on %q precede the call%s", row.Container, map[bool]string{true: "; mark released on all success paths", false: ""}[row.Release]), testedOut, presenceOut, insertOut
}

// chainGuarded: the guard of the recursive call is spread over a chain of steps
// f → h1 → h2 …, each called by the one before and by nothing else, each making
// one call that stays in the cycle: one step's call depends on the membership
// test, the same or a later step inserts before its call (and releases after it).
func chainGuarded(p *Program, f *ssa.Function, call ssa.Instruction, row *guardRow, in map[*ssa.Function]bool, g *repoGraph) (bool, string) {
	tested, presence := false, false
	cur := f
	var names []string
	for step := 0; step < 4; step++ {
		ok, why, t, pr, ins := visitedGuardedX(cur, call, row, 1, presence)
		if !ok {
			return false, why
		}
		if t {
			tested, presence = true, pr
		}
		names = append(names, cur.Name())
		if ins {
			if !tested {
				return false, fmt.Sprintf("the insertion in %s is not preceded by a membership test along the chain of steps", cur.Name())
			}
			return true, fmt.Sprintf("membership test, insertion%s on %q spread over the steps %s", map[bool]string{true: " and release", false: ""}[row.Release], row.Container, strings.Join(names, " → "))
		}
		ci, isCall := call.(ssa.CallInstruction)
		if !isCall {
			return false, "the recursive call is not a plain call"
		}
		next := staticCallee(ci)
		if next == nil || !in[next] || p.soleCaller(next) != cur {
			return false, fmt.Sprintf("no insertion into the visited container %q dominates the call", row.Container)
		}
		var calls []ssa.Instruction
		for _, e := range g.succ[next] {
			if in[e.To] && e.Site != nil {
				if _, ok := e.Site.(ssa.CallInstruction); ok {
					calls = append(calls, e.Site)
				}
			}
		}
		if len(calls) != 1 {
			return false, fmt.Sprintf("no insertion into the visited container %q dominates the call", row.Container)
		}
		cur, call = next, calls[0]
	}
	return false, fmt.Sprintf("no insertion into the visited container %q dominates the call", row.Container)
}

func hasDelete(f *ssa.Function, row *guardRow) bool {
	found := false
	eachInstr(f, func(_ *ssa.BasicBlock, i ssa.Instruction) {
		if x, ok := i.(*ssa.Call); ok {
			if b, ok := x.Call.Value.(*ssa.Builtin); ok && b.Name() == "delete" && containerMatches(x.Call.Args[0], row) {
				found = true
			}
		}
	})
	return found
}

func isZeroConst(c *ssa.Const) bool {
	if c.Value == nil {
		return true
	}
	switch c.Value.Kind() {
	case constant.Bool:
		return !constant.BoolVal(c.Value)
	case constant.Int, constant.Float:
		return constant.Sign(c.Value) == 0
	case constant.String:
		return constant.StringVal(c.Value) == ""
	}
	return false
}

// blockReaches: can `from` reach `to` without passing through `avoid`?
func blockReaches(from, to, avoid *ssa.BasicBlock) bool {
	if from == to {
		return true
	}
	seen := map[*ssa.BasicBlock]bool{from: true}
	q := []*ssa.BasicBlock{from}
	for len(q) > 0 {
		b := q[0]
		q = q[1:]
		for _, s := range b.Succs {
			if s == avoid || seen[s] {
				continue
			}
			if s == to {
				return true
			}
			seen[s] = true
			q = append(q, s)
		}
	}
	return false
}

// candidateContainers: names of the maps / sets a function inserts into.
func candidateContainers(f *ssa.Function) []string {
	seen := map[string]bool{}
	var out []string
	add := func(v ssa.Value) {
		name := ""
		if _, fld, _, ok := loadedField(v); ok {
			name = fld
		} else if _, fld, _, ok := fieldOfAddr(v); ok {
			name = fld
		} else {
			switch x := unspill(v).(type) {
			case *ssa.Parameter:
				name = x.Name()
			case *ssa.FreeVar:
				name = x.Name()
			case *ssa.UnOp:
				if _, fld, _, ok := loadedField(x); ok {
					name = fld
				} else if al, ok := x.X.(*ssa.Alloc); ok {
					name = al.Comment
				}
			}
		}
		if name != "" && !seen[name] {
			seen[name] = true
			out = append(out, name)
		}
	}
	eachInstr(f, func(_ *ssa.BasicBlock, i ssa.Instruction) {
		switch x := i.(type) {
		case *ssa.MapUpdate:
			add(x.Map)
		case ssa.CallInstruction:
			if o := calleeObj(x); o != nil && (o.Name() == "Insert" || o.Name() == "Add" || o.Name() == "Push") {
				if ops := opsOf(x); len(ops) > 0 {
					add(ops[0])
				}
			}
		}
	})
	sort.Strings(out)
	return out
}

// autoGuard: some function of the cycle guards every intra-cycle call it makes
// with one visited container (membership test controlling the call, insertion
// dominating it) or with a decreasing counter, and every cycle passes through
// that function (the cycle without it is acyclic).
func autoGuard(comp []*ssa.Function, in map[*ssa.Function]bool, g *repoGraph, release bool) (bool, string) {
	why := "no function of the cycle tests and marks a visited container before each of its recursive calls"
	for _, gf := range comp {
		var calls []ssa.Instruction
		for _, e := range g.succ[gf] {
			if !in[e.To] || e.Site == nil {
				continue
			}
			switch e.Site.(type) {
			case ssa.CallInstruction, *ssa.MakeClosure:
				calls = append(calls, e.Site)
			}
		}
		if len(calls) == 0 {
			continue
		}
		verified := ""
		// counter
		allCounter := true
		for _, cl := range calls {
			if ok, _ := counterGuarded(gf, cl); !ok {
				allCounter = false
			}
		}
		if allCounter {
			verified = "decreasing counter in " + fnName(gf)
		}
		if verified == "" {
			for _, cand := range candidateContainers(gf) {
				row := &guardRow{Kind: "visited", Func: fnName(gf), Container: cand, Release: release}
				all := true
				for _, cl := range calls {
					if ok, w := visitedGuarded(gf, cl, row); !ok {
						all = false
						why = w
						if os.Getenv("VERIF_DEBUG_REC") != "" {
							fmt.Fprintf(os.Stderr, "REC-DEBUG   candidate %q in %s: %s\n", cand, fnName(gf), w)
						}
					}
				}
				if all {
					verified = fmt.Sprintf("visited container %q tested and marked in %s before each of its %d recursive calls", cand, fnName(gf), len(calls))
					break
				}
			}
		}
		if verified == "" {
			all := true
			w := ""
			for _, cl := range calls {
				ok, why2 := helperGuarded(g.p, gf, cl)
				if !ok {
					all = false
				}
				w = why2
			}
			if all {
				verified = w
			}
		}
		if verified == "" {
			continue
		}
		// every cycle passes through gf: the rest of the component is acyclic
		if acyclicWithout(comp, in, g, gf) {
			return true, verified
		}
		why = "the guard in " + fnName(gf) + " does not lie on every cycle"
	}
	return false, why
}

// acyclicWithout: once the guard function is taken out, what is left of the
// component has no cycle except cycles made of structural edges only (each of
// which descends a finite tree: between two passes through the guard they end).
func acyclicWithout(comp []*ssa.Function, in map[*ssa.Function]bool, g *repoGraph, skip *ssa.Function) bool {
	// reach over the edges that keep accepts
	reach := func(from, to *ssa.Function, keep func(recEdge) bool) bool {
		seen := map[*ssa.Function]bool{}
		var visit func(f *ssa.Function) bool
		visit = func(f *ssa.Function) bool {
			if f == to {
				return true
			}
			if seen[f] {
				return false
			}
			seen[f] = true
			for _, e := range g.succ[f] {
				if !in[e.To] || e.To == skip || (keep != nil && !keep(e)) {
					continue
				}
				if visit(e.To) {
					return true
				}
			}
			return false
		}
		return visit(from)
	}
	for _, f := range comp {
		if f == skip {
			continue
		}
		for _, e := range g.succ[f] {
			if !in[e.To] || e.To == skip {
				continue
			}
			if ok, _ := edgeDescends(e); ok {
				continue
			}
			if edgeHandsOn(e) {
				// the same node handed on (double dispatch: Accept(e) → Visit(e)): fine
				// on a round that also descends, not on a round made of such edges only
				if reach(e.To, f, func(x recEdge) bool {
					d, _ := edgeDescends(x)
					return !d && edgeHandsOn(x)
				}) {
					if os.Getenv("VERIF_DEBUG_REC") != "" {
						fmt.Fprintf(os.Stderr, "REC-DEBUG a round of hand-over edges only avoids %s: %s -> %s\n", fnName(skip), fnName(f), fnName(e.To))
						for _, f2 := range comp {
							for _, e2 := range g.succ[f2] {
								if d, _ := edgeDescends(e2); in[e2.To] && e2.To != skip && f2 != skip && !d && edgeHandsOn(e2) {
									fmt.Fprintf(os.Stderr, "REC-DEBUG   hand-over edge %s -> %s at %s\n", fnName(f2), fnName(e2.To), g.p.pos(e2.Site.Pos()))
								}
							}
						}
					}
					return false
				}
				continue
			}
			// a non-structural edge must not lie on a cycle that avoids the guard
			if reach(e.To, f, nil) {
				if os.Getenv("VERIF_DEBUG_REC") != "" {
					_, why := edgeDescends(e)
					fmt.Fprintf(os.Stderr, "REC-DEBUG non-structural edge on a cycle avoiding %s: %s -> %s: %s\n", fnName(skip), fnName(f), fnName(e.To), why)
				}
				return false
			}
		}
	}
	return true
}

// edgeHandsOn: the call passes one of the caller's own tree-typed parameters
// (or its receiver) on unchanged — the node itself, not something below it.
func edgeHandsOn(e recEdge) bool {
	s, ok := e.Site.(ssa.CallInstruction)
	if !ok {
		return false
	}
	args := s.Common().Args
	if s.Common().IsInvoke() {
		args = append([]ssa.Value{s.Common().Value}, args...)
	}
	for _, a := range args {
		if !isTreeType(a.Type()) {
			continue
		}
		if _, n, ok := descendsFrom(a, e.From); ok && n == 0 {
			return true
		}
	}
	return false
}

// testAndSet describes a helper that looks a key up in a map and inserts it when
// it is absent, telling the caller which of the two happened: the insertion is
// on the not-found outcome of a comma-ok look-up of the same map and key, and a
// bool result is the constant true on one outcome and the constant false on the
// other.
type testAndSet struct {
	fn        *ssa.Function
	lookup    *ssa.Lookup
	update    *ssa.MapUpdate
	boolIndex int  // index of the bool result
	foundIs   bool // value of the bool result when the key was already present
}

func asTestAndSet(h *ssa.Function) *testAndSet {
	if h == nil || len(h.Blocks) == 0 {
		return nil
	}
	bi := -1
	for i := 0; i < h.Signature.Results().Len(); i++ {
		if b, ok := h.Signature.Results().At(i).Type().Underlying().(*types.Basic); ok && b.Kind() == types.Bool {
			bi = i
		}
	}
	if bi < 0 {
		return nil
	}
	var out *testAndSet
	eachInstr(h, func(_ *ssa.BasicBlock, i ssa.Instruction) {
		mu, ok := i.(*ssa.MapUpdate)
		if !ok || out != nil {
			return
		}
		eachInstr(h, func(_ *ssa.BasicBlock, j ssa.Instruction) {
			lk, ok := j.(*ssa.Lookup)
			if !ok || !lk.CommaOk || out != nil || lk.Referrers() == nil {
				return
			}
			if exprKey(lk.X, 0) != exprKey(mu.Map, 0) || exprKey(lk.Index, 0) != exprKey(mu.Key, 0) {
				return
			}
			for _, r := range *lk.Referrers() {
				ex, ok := r.(*ssa.Extract)
				if !ok || ex.Index != 1 {
					continue
				}
				for _, br := range branchesOn(ex) {
					// update only on the absent outcome
					if !blockReaches(br.FalseSucc, mu.Block(), nil) || blockReaches(br.TrueSucc, mu.Block(), nil) {
						continue
					}
					// constant bool results on the two outcomes
					var foundVal, absentVal *bool
					for _, b := range h.Blocks {
						ret, ok := b.Instrs[len(b.Instrs)-1].(*ssa.Return)
						if !ok {
							continue
						}
						if b == h.Recover {
							continue // reached only when a deferred call recovers a panic
						}
						vals, _ := returnValues(ret)
						cv, ok := vals[bi].(*ssa.Const)
						if !ok || cv.Value == nil {
							return
						}
						v := cv.Value.String() == "true"
						fromFound := br.TrueSucc == b || blockReaches(br.TrueSucc, b, nil)
						fromAbsent := br.FalseSucc == b || blockReaches(br.FalseSucc, b, nil)
						if fromFound && !fromAbsent {
							foundVal = &v
						}
						if fromAbsent && !fromFound {
							absentVal = &v
						}
					}
					if foundVal != nil && absentVal != nil && *foundVal != *absentVal {
						out = &testAndSet{fn: h, lookup: lk, update: mu, boolIndex: bi, foundIs: *foundVal}
					}
				}
			}
		})
	})
	return out
}

// helperGuarded: the recursive call in f is control-dependent on the bool
// result of a test-and-set helper called earlier in f, and runs only on the
// "was absent, now inserted" outcome.
func helperGuarded(p *Program, f *ssa.Function, call ssa.Instruction) (bool, string) {
	found := false
	why := ""
	eachInstr(f, func(_ *ssa.BasicBlock, i ssa.Instruction) {
		hc, ok := i.(*ssa.Call)
		if !ok || found {
			return
		}
		ts := asTestAndSet(normFn(p, hc.Call.StaticCallee()))
		if ts == nil || !instrDominates(hc, call) || hc.Referrers() == nil {
			return
		}
		for _, ex := range boolResults(hc, ts) {
			for _, br := range branchesOn(ex) {
				foundSucc, absentSucc := br.TrueSucc, br.FalseSucc
				if !ts.foundIs {
					foundSucc, absentSucc = br.FalseSucc, br.TrueSucc
				}
				if blockReaches(absentSucc, call.Block(), nil) && !blockReaches(foundSucc, call.Block(), nil) {
					found = true
					why = fmt.Sprintf("the call runs only when the test-and-set helper %s reported the key as newly inserted", fnName(ts.fn))
				}
			}
		}
	})
	if !found {
		// the same guard written with a look-up first and the put-if-absent only on a
		// miss: no feasible path reaches the call without the helper, and none does
		// once the helper has reported the key as already present
		eachInstr(f, func(_ *ssa.BasicBlock, i ssa.Instruction) {
			hc, ok := i.(*ssa.Call)
			if !ok || found || hc.Referrers() == nil {
				return
			}
			ts := asTestAndSet(normFn(p, hc.Call.StaticCallee()))
			if ts == nil {
				return
			}
			isCall := func(j ssa.Instruction) bool { return j == call }
			if feasibleReach(f, nil, nil, isCall, func(j ssa.Instruction) bool { return j == ssa.Instruction(hc) }) {
				return
			}
			for _, exv := range boolResults(hc, ts) {
				ex, ok := exv.(ssa.Instruction)
				if !ok {
					continue
				}
				// continue after the Extract with "found" known
				if !feasibleReach(f, ex, map[ssa.Value]bool{exv: ts.foundIs}, isCall, nil) {
					found = true
					why = fmt.Sprintf("every feasible path to the call passes the test-and-set helper %s, and none continues to it once the helper reported the key as already present", fnName(ts.fn))
				}
			}
		})
	}
	if !found {
		return false, "no test-and-set helper result controls the call"
	}
	return true, why
}

// ---- guard helpers: enter / leave / isVisiting methods -------------------------

func normFnOf(f *ssa.Function) *ssa.Function { return f }

// guardHelper: the static callee of a call when it is a small repository
// function that could hold one step of a visited guard.
func guardHelper(cl *ssa.Call) *ssa.Function {
	h := cl.Call.StaticCallee()
	if h == nil || !isRepoFn(h) || len(h.Blocks) == 0 || len(h.Blocks) > 12 {
		return nil
	}
	return h
}

// helperInserts: every path through h performs an insertion into the container.
func helperInserts(h *ssa.Function, row *guardRow) bool {
	var ins []ssa.Instruction
	eachInstr(h, func(_ *ssa.BasicBlock, i ssa.Instruction) {
		switch x := i.(type) {
		case *ssa.MapUpdate:
			if containerMatches(x.Map, row) {
				if b, ok := x.Value.(*ssa.BinOp); ok && b.Op == token.SUB {
					return
				}
				if k, ok := x.Value.(*ssa.Const); ok && isZeroConst(k) {
					return
				}
				ins = append(ins, i)
			}
		case *ssa.Store:
			if containerMatches(x.Addr, row) {
				if cl, ok := x.Val.(*ssa.Call); ok {
					if b, ok := cl.Call.Value.(*ssa.Builtin); ok && b.Name() == "append" {
						ins = append(ins, i)
					}
				}
			}
		case *ssa.Call:
			if _, ok := containerCall(i, row, "Insert", "Add", "Push"); ok {
				ins = append(ins, i)
			}
		}
	})
	for _, i := range ins {
		all := true
		for _, b := range h.Blocks {
			if _, ok := b.Instrs[len(b.Instrs)-1].(*ssa.Return); ok && b != h.Recover {
				if !(i.Block() == b || i.Block().Dominates(b)) {
					all = false
				}
			}
		}
		if all {
			return true
		}
	}
	return false
}

// helperTests: h returns a bool computed from one look-up in the container.
// presence: the comma-ok flag or Contains/Has; otherwise a comparison of the value.
func helperTests(h *ssa.Function, row *guardRow) (bool, bool) {
	if h.Signature.Results().Len() != 1 || !isBoolType(h.Signature.Results().At(0).Type()) {
		return false, false
	}
	found, presence := false, false
	for _, b := range h.Blocks {
		ret, ok := b.Instrs[len(b.Instrs)-1].(*ssa.Return)
		if !ok || b == h.Recover {
			continue
		}
		vals, _ := returnValues(ret)
		var visit func(v ssa.Value, d int)
		seen := map[ssa.Value]bool{}
		visit = func(v ssa.Value, d int) {
			if v == nil || seen[v] || d > 6 {
				return
			}
			seen[v] = true
			switch x := v.(type) {
			case *ssa.Extract:
				if lk, ok := x.Tuple.(*ssa.Lookup); ok && containerMatches(lk.X, row) {
					found = true
					if x.Index == 1 {
						presence = true
					}
				}
			case *ssa.BinOp:
				visit(x.X, d+1)
				visit(x.Y, d+1)
			case *ssa.UnOp:
				visit(x.X, d+1)
			case *ssa.Phi:
				for _, e := range x.Edges {
					visit(e, d+1)
				}
			case *ssa.Lookup:
				if containerMatches(x.X, row) {
					found = true
				}
			case *ssa.Call:
				if _, ok := containerCall(x, row, "Contains", "Has"); ok {
					found, presence = true, true
				}
			}
		}
		visit(vals[0], 0)
	}
	return found, presence
}

// helperReleases: h removes the mark — delete/Remove, or the counter idiom
// (decrement, with the delete of the emptied entry when the test is by presence),
// or a zero store for a test by value.
func helperReleases(h *ssa.Function, row *guardRow, byPresence bool) bool {
	released := false
	eachInstr(h, func(_ *ssa.BasicBlock, i ssa.Instruction) {
		switch x := i.(type) {
		case *ssa.MapUpdate:
			if !containerMatches(x.Map, row) {
				return
			}
			if b, ok := x.Value.(*ssa.BinOp); ok && b.Op == token.SUB {
				if !byPresence || hasDelete(h, row) {
					released = true
				}
			}
			if k, ok := x.Value.(*ssa.Const); ok && isZeroConst(k) && !byPresence {
				released = true
			}
		case *ssa.Call:
			if b, ok := x.Call.Value.(*ssa.Builtin); ok && b.Name() == "delete" && len(x.Call.Args) > 0 && containerMatches(x.Call.Args[0], row) {
				// an unconditional delete, or the delete-at-zero of the counter idiom
				dec := false
				eachInstr(h, func(_ *ssa.BasicBlock, j ssa.Instruction) {
					if mu, ok := j.(*ssa.MapUpdate); ok && containerMatches(mu.Map, row) {
						if b, ok := mu.Value.(*ssa.BinOp); ok && b.Op == token.SUB {
							dec = true
						}
					}
				})
				if dec || x.Block() == h.Blocks[0] {
					released = true
				}
			}
			if _, ok := containerCall(i, row, "Remove", "Delete", "Pop"); ok {
				released = true
			}
		}
	})
	return released
}

// isGatherAccumulator: v is nil, an empty slice, or a phi / append chain of such
// values — the running result of a loop that gathers pieces into one list.
func isGatherAccumulator(v ssa.Value, depth int, seen map[ssa.Value]bool) bool {
	if v == nil || depth > 8 {
		return false
	}
	if seen[v] {
		return true
	}
	seen[v] = true
	switch x := v.(type) {
	case *ssa.Const:
		return x.Value == nil
	case *ssa.MakeSlice:
		k, ok := constInt(x.Len)
		return ok && k == 0
	case *ssa.Phi:
		for _, e := range x.Edges {
			if !isGatherAccumulator(e, depth+1, seen) {
				return false
			}
		}
		return true
	case *ssa.Call:
		if b, ok := x.Call.Value.(*ssa.Builtin); ok && b.Name() == "append" && len(x.Call.Args) >= 1 {
			return isGatherAccumulator(x.Call.Args[0], depth+1, seen)
		}
	}
	return false
}

// boolResults: the value(s) holding the bool outcome of a call of a
// test-and-set helper — the call itself when the bool is its only result,
// otherwise the extracts of that result.
func boolResults(hc *ssa.Call, ts *testAndSet) []ssa.Value {
	if ts.fn.Signature.Results().Len() == 1 {
		return []ssa.Value{hc}
	}
	var out []ssa.Value
	if hc.Referrers() != nil {
		for _, r := range *hc.Referrers() {
			if ex, ok := r.(*ssa.Extract); ok && ex.Index == ts.boolIndex {
				out = append(out, ex)
			}
		}
	}
	return out
}

// sccWhere: where a recursive cycle lives — package of its first top-level
// member, the files of its top-level members and how many there are.
func sccWhere(p *Program, comp []*ssa.Function) string {
	files := map[string]bool{}
	pkg := ""
	n := 0
	var tops []*ssa.Function
	for _, f := range comp {
		if f.Parent() == nil {
			tops = append(tops, f)
		}
	}
	sort.Slice(tops, func(i, j int) bool { return fnName(tops[i]) < fnName(tops[j]) })
	for _, f := range tops {
		n++
		files[filepath.Base(p.fnFile(f))] = true
		if pkg == "" {
			pkg = fnPkgPath(f)
		}
	}
	var fl []string
	for k := range files {
		fl = append(fl, k)
	}
	sort.Strings(fl)
	return fmt.Sprintf("%s|in:%s#%d", strings.TrimPrefix(pkg, repoMod+"/"), strings.Join(fl, "+"), n)
}
