// syslcheck decides structural necessary conditions of the 20 properties in
// /verif/properties.jsonl by static analysis of /repo's current source.
package main

import (
	"encoding/json"
	"flag"
	"fmt"
	"os"
	"os/exec"
	"path/filepath"
	"runtime/debug"
	"sort"
	"strings"
	"time"
)

type propDef struct {
	ID   string
	Mode LoadMode
	Run  func(c *Check)
}

var registry = map[string]*propDef{}

func register(id string, mode LoadMode, run func(c *Check)) {
	registry[id] = &propDef{ID: id, Mode: mode, Run: run}
}

func main() {
	os.Exit(realMain())
}

func realMain() (code int) {
	tier := flag.String("tier", "quick", "quick|thorough")
	props := flag.String("props", "", "comma separated property ids, or 'all'")
	goos := flag.String("goos", "", "GOOS variant to analyse")
	list := flag.Bool("list", false, "list properties")
	mutant := flag.String("mutant", "", "mutant JSON (in-memory overlay of /repo sources); implies -dry")
	dry := flag.Bool("dry", false, "do not write evidence files")
	flag.Parse()
	if *list {
		var ids []string
		for id := range registry {
			ids = append(ids, id)
		}
		sort.Strings(ids)
		fmt.Println(strings.Join(ids, " "))
		return 0
	}
	if flag.NArg() > 0 && flag.Arg(0) == "replay" {
		return replay(flag.Args()[1:])
	}
	var ids []string
	if *props == "all" {
		for id := range registry {
			ids = append(ids, id)
		}
		sort.Strings(ids)
	} else {
		for _, id := range strings.Split(*props, ",") {
			if id = strings.TrimSpace(id); id != "" {
				ids = append(ids, id)
			}
		}
	}
	if len(ids) == 0 {
		fmt.Fprintln(os.Stderr, "usage: syslcheck -props C01[,C02…]|all [-tier quick|thorough]")
		return 2
	}
	tables, err := LoadTables()
	if err != nil {
		for _, id := range ids {
			fmt.Printf("VIOLATION property=%s replay=- (tables unreadable: %v)\n", id, err)
		}
		return 1
	}
	mode := LoadTyped
	for _, id := range ids {
		d := registry[id]
		if d == nil {
			fmt.Fprintf(os.Stderr, "unknown property %s\n", id)
			return 2
		}
		if d.Mode == LoadWhole {
			mode = LoadWhole
		}
	}
	t0 := time.Now()
	var overlay map[string][]byte
	if *mutant != "" {
		*dry = true
		var err error
		overlay, err = loadMutant(*mutant)
		if err != nil {
			fmt.Printf("MUTANT-SKIPPED %s: %v\n", *mutant, err)
			return 3
		}
	}
	dryRun = *dry
	prog, err := Load(mode, overlay, *goos)
	if err != nil {
		for _, id := range ids {
			fmt.Printf("cannot analyse the tree: %v\n", err)
			fmt.Printf("VIOLATION property=%s replay=- (load failed; a tree that cannot be analysed is not passed)\n", id)
		}
		return 1
	}
	fmt.Printf("loaded %d repository packages (%d packages in all, whole-program=%v) from %s in %.1fs\n",
		len(prog.Repo), len(prog.ByPath), prog.Whole, prog.Root, time.Since(t0).Seconds())
	for _, id := range ids {
		rc := runOne(registry[id], *tier, prog, tables, overlay)
		if rc != 0 {
			code = 1
		}
	}
	return code
}

var dryRun bool

type mutantEdit struct {
	File string `json:"file"`
	Old  string `json:"old"`
	New  string `json:"new"`
}

type mutantSpec struct {
	Property    string       `json:"property"`
	Description string       `json:"description"`
	Expect      string       `json:"expect"`
	Edits       []mutantEdit `json:"edits"`
	// Patch names a unified diff (relative to the mutant file) applied to copies
	// of the touched files in a temporary directory; used for the seeded changes
	// kept under /verif/seeded.
	Patch string `json:"patch,omitempty"`
}

func loadMutant(path string) (map[string][]byte, error) {
	var m mutantSpec
	b, err := os.ReadFile(path)
	if err != nil {
		return nil, err
	}
	if err := json.Unmarshal(b, &m); err != nil {
		return nil, err
	}
	ov := map[string][]byte{}
	if m.Patch != "" {
		if err := applyPatchOverlay(filepath.Join(filepath.Dir(path), m.Patch), ov); err != nil {
			return nil, err
		}
	}
	for _, e := range m.Edits {
		fn := repoRoot() + "/" + e.File
		src, ok := ov[fn]
		if !ok {
			src, err = os.ReadFile(fn)
			if err != nil {
				return nil, err
			}
		}
		if n := strings.Count(string(src), e.Old); n != 1 {
			return nil, fmt.Errorf("context changed: old snippet occurs %d times in %s", n, e.File)
		}
		ov[fn] = []byte(strings.Replace(string(src), e.Old, e.New, 1))
	}
	return ov, nil
}

// applyPatchOverlay applies a unified diff to copies of the files it touches
// (never to /repo) and returns the patched contents as an overlay.
func applyPatchOverlay(patch string, ov map[string][]byte) error {
	b, err := os.ReadFile(patch)
	if err != nil {
		return err
	}
	var files []string
	for _, l := range strings.Split(string(b), "\n") {
		if strings.HasPrefix(l, "+++ b/") {
			files = append(files, strings.TrimSpace(strings.TrimPrefix(l, "+++ b/")))
		}
	}
	if len(files) == 0 {
		return fmt.Errorf("no files in patch %s", patch)
	}
	tmp, err := os.MkdirTemp("", "syslcheck-patch-")
	if err != nil {
		return err
	}
	defer os.RemoveAll(tmp)
	for _, f := range files {
		src, err := os.ReadFile(filepath.Join(repoRoot(), f))
		if err != nil {
			return fmt.Errorf("context changed: %v", err)
		}
		if err := os.MkdirAll(filepath.Dir(filepath.Join(tmp, f)), 0o755); err != nil {
			return err
		}
		if err := os.WriteFile(filepath.Join(tmp, f), src, 0o644); err != nil {
			return err
		}
	}
	abs, _ := filepath.Abs(patch)
	cmd := exec.Command("git", "apply", "--whitespace=nowarn", abs)
	cmd.Dir = tmp
	cmd.Env = append(os.Environ(), "GIT_DIR=/nonexistent", "GIT_CEILING_DIRECTORIES="+filepath.Dir(tmp))
	if out, err := cmd.CombinedOutput(); err != nil {
		return fmt.Errorf("context changed: patch does not apply: %s", strings.TrimSpace(string(out)))
	}
	for _, f := range files {
		nb, err := os.ReadFile(filepath.Join(tmp, f))
		if err != nil {
			return err
		}
		ov[filepath.Join(repoRoot(), f)] = nb
	}
	return nil
}

func runOne(d *propDef, tier string, prog *Program, tables *Tables, overlay map[string][]byte) (rc int) {
	start := time.Now()
	c := NewCheck(d.ID, tier, prog)
	defer func() {
		if r := recover(); r != nil {
			fmt.Printf("checker panic in %s: %v\n%s\n", d.ID, r, debug.Stack())
			fmt.Printf("VIOLATION property=%s replay=- (checker panicked; an analysis that crashed is not a pass)\n", d.ID)
			rc = 1
		}
	}()
	c.Counts["repo_packages"] = len(prog.Repo)
	c.Counts["repo_functions"] = len(prog.RepoFuncs())
	d.Run(c)
	var extra map[string]interface{}
	if tier == "thorough" {
		extra = runThorough(d, c, overlay, tables)
		c.Classify(tables)
		extra["stale_table_rows"] = staleRows(c, tables)
		return c.finish(tables, start, extra, true)
	}
	return c.Finish(tables, start, extra)
}

func replay(args []string) int {
	if len(args) < 1 {
		fmt.Fprintln(os.Stderr, "usage: syslcheck replay <evidence/replay/X.json>")
		return 2
	}
	var r struct {
		Property   string      `json:"property"`
		Obligation *Obligation `json:"obligation"`
	}
	if err := readJSON(args[0], &r); err != nil || r.Obligation == nil {
		fmt.Fprintf(os.Stderr, "cannot read replay file %s: %v\n", args[0], err)
		return 2
	}
	d := registry[r.Property]
	if d == nil {
		fmt.Fprintf(os.Stderr, "unknown property %s\n", r.Property)
		return 2
	}
	tables, err := LoadTables()
	if err != nil {
		fmt.Println(err)
		return 2
	}
	prog, err := Load(d.Mode, nil, r.Obligation.Variant)
	if err != nil {
		fmt.Println(err)
		return 1
	}
	c := NewCheck(d.ID, "quick", prog)
	d.Run(c)
	c.Classify(tables)
	for _, o := range c.Obs {
		if o.Key == r.Obligation.Key {
			fmt.Printf("re-derived obligation %s at %s: %s — %s\n", o.Key, o.Pos, o.Verdict, o.Detail)
			for _, w := range o.Witness {
				fmt.Printf("    %s\n", w)
			}
			if o.Verdict == Violation || o.Verdict == Undecided {
				fmt.Printf("VIOLATION property=%s replay=%s\n", r.Property, args[0])
				return 1
			}
			return 0
		}
	}
	fmt.Printf("obligation %s no longer exists on the current tree\n", r.Obligation.Key)
	return 0
}
