package main

import (
	"fmt"
	"go/constant"
	"go/token"
	"go/types"
	"regexp"
	"sort"
	"strings"

	"golang.org/x/tools/go/callgraph"
	"golang.org/x/tools/go/ssa"
)

// R-GUARD: panic / process-exit sites reachable from an entry set without a
// recover barrier on the way (same goroutine).

type guardSite struct {
	Fn   *ssa.Function
	Ins  ssa.Instruction
	Kind string // "panic", "os.Exit", "logrus.Fatal", "helper:syslutil.Assert", ...
}

var mustHelperName = regexp.MustCompile(`^(Must|Assert|PanicOn)`)

// panicHelpers: repository functions whose name marks them as must-wrappers
// and whose body contains a panic instruction (or calls another helper).
func panicHelpers(p *Program) map[*ssa.Function]bool {
	out := map[*ssa.Function]bool{}
	for _, f := range p.RepoFuncs() {
		if f.Parent() != nil || !mustHelperName.MatchString(f.Name()) {
			continue
		}
		has := false
		eachInstr(f, func(_ *ssa.BasicBlock, i ssa.Instruction) {
			if _, ok := i.(*ssa.Panic); ok {
				has = true
			}
		})
		if has {
			out[f] = true
		}
	}
	// wrappers of helpers (MustUnescapeStrings → MustUnescape)
	for changed := true; changed; {
		changed = false
		for _, f := range p.RepoFuncs() {
			if out[f] || f.Parent() != nil || !mustHelperName.MatchString(f.Name()) {
				continue
			}
			eachCall(f, func(cl ssa.CallInstruction) {
				if sc := staticCallee(cl); sc != nil && out[sc] && !out[f] {
					out[f] = true
					changed = true
				}
			})
		}
	}
	return out
}

func exitCallKind(cl ssa.CallInstruction) string {
	o := calleeObj(cl)
	if o == nil || o.Pkg() == nil {
		return ""
	}
	pk, n := o.Pkg().Path(), o.Name()
	switch {
	case pk == "os" && n == "Exit":
		return "os.Exit"
	case pk == "log" && (strings.HasPrefix(n, "Fatal") || strings.HasPrefix(n, "Panic")):
		return "log." + n
	case pk == "github.com/sirupsen/logrus" && (strings.HasPrefix(n, "Fatal") || strings.HasPrefix(n, "Panic")):
		return "logrus." + n
	case pk == "runtime" && n == "Goexit":
		return "runtime.Goexit"
	case pk == "regexp" && (n == "MustCompile" || n == "MustCompilePOSIX"):
		if len(cl.Common().Args) == 1 {
			if s, ok := constString(cl.Common().Args[0]); ok {
				if _, err := regexp.Compile(s); err == nil {
					return "" // constant pattern proven to compile
				}
				return "regexp.MustCompile(constant pattern that does not compile)"
			}
		}
		return "regexp.MustCompile(non-constant)"
	}
	return ""
}

// guardSites lists the sites inside f.
func guardSites(f *ssa.Function, helpers map[*ssa.Function]bool) []guardSite {
	var out []guardSite
	if helpers[f] {
		return nil // reported at its call sites
	}
	eachInstr(f, func(_ *ssa.BasicBlock, i ssa.Instruction) {
		switch x := i.(type) {
		case *ssa.Panic:
			if reraises(x) {
				return // hands on a panic that was recovered elsewhere: counted at its origin
			}
			out = append(out, guardSite{f, i, "panic"})
		case ssa.CallInstruction:
			if k := exitCallKind(x); k != "" {
				out = append(out, guardSite{f, i, k})
				return
			}
			if sc := staticCallee(x); sc != nil && helpers[sc] {
				out = append(out, guardSite{f, i, "helper:" + shortFn(sc)})
			}
		}
	})
	return out
}

func shortFn(f *ssa.Function) string {
	n := fnName(f)
	n = strings.ReplaceAll(n, "pkg/", "")
	return n
}

// recoverBarriers returns the Defer instructions of f whose deferred function
// calls recover() and neither re-panics nor exits.
func recoverBarriers(f *ssa.Function) []*ssa.Defer {
	var out []*ssa.Defer
	eachInstr(f, func(_ *ssa.BasicBlock, i ssa.Instruction) {
		d, ok := i.(*ssa.Defer)
		if !ok {
			return
		}
		var target *ssa.Function
		if mc, ok := d.Call.Value.(*ssa.MakeClosure); ok {
			target, _ = mc.Fn.(*ssa.Function)
		} else {
			target = d.Call.StaticCallee()
		}
		if target == nil || len(target.Blocks) == 0 {
			return
		}
		rec, bad := false, false
		eachInstr(target, func(_ *ssa.BasicBlock, j ssa.Instruction) {
			switch y := j.(type) {
			case *ssa.Panic:
				bad = true
			case ssa.CallInstruction:
				if b, ok := y.Common().Value.(*ssa.Builtin); ok && b.Name() == "recover" {
					rec = true
				}
				if exitCallKind(y) != "" {
					bad = true
				}
			}
		})
		if rec && (!bad || (guardExitOK && recoverThenExitsNonZero(target))) {
			if ok, why := guardReports(f, d, target); !ok {
				silentGuards[d] = why
				return
			}
			out = append(out, d)
		}
	})
	return out
}

// silentGuards: deferred recovers that stop a panic but let the guarded
// function return as if nothing had happened (zero results, nil error).
var silentGuards = map[*ssa.Defer]string{}

// guardReports: when the guarded function has an error result, a recovered
// panic must become a non-nil error: the deferred closure stores into the
// named error result of f (the cell the recovery epilogue returns). With
// unnamed results go returns zero values after a recovered panic — (nil, nil).
func guardReports(f *ssa.Function, d *ssa.Defer, target *ssa.Function) (bool, string) {
	ei := errorResultIndex(f.Signature)
	if ei < 0 {
		return true, ""
	}
	mc, isClosure := d.Call.Value.(*ssa.MakeClosure)
	exits := false
	eachCall(target, func(cl ssa.CallInstruction) {
		if exitCallKind(cl) != "" {
			exits = true
		}
	})
	if exits && recoverThenExitsNonZero(target) {
		return true, ""
	}
	if f.Recover == nil {
		return false, "the function's results are unnamed: after the recovered panic it returns zero values and a nil error"
	}
	ret, ok := f.Recover.Instrs[len(f.Recover.Instrs)-1].(*ssa.Return)
	if !ok || ei >= len(ret.Results) {
		return false, "the recovery epilogue does not return the error result"
	}
	ld, ok := ret.Results[ei].(*ssa.UnOp)
	if !ok {
		return false, "the recovery epilogue returns a constant error"
	}
	cell := ld.X
	stored := false
	if !isClosure {
		// `defer recoverInto(&err)`: the named function is deferred directly (so its
		// recover() works) and receives the address of the error result
		for k, a := range d.Call.Args {
			if a != cell || k >= len(target.Params) {
				continue
			}
			prm := target.Params[k]
			if prm.Referrers() == nil {
				continue
			}
			for _, r := range *prm.Referrers() {
				if st, ok := r.(*ssa.Store); ok && st.Addr == ssa.Value(prm) && !isNilConst(st.Val) {
					stored = true
				}
			}
		}
		if !stored {
			return false, "the deferred function recovers but is not given (or never assigns through) the address of the function's named error result"
		}
		return true, ""
	}
	for k, b := range mc.Bindings {
		if b != cell || k >= len(target.FreeVars) {
			continue
		}
		fv := target.FreeVars[k]
		if fv.Referrers() == nil {
			continue
		}
		for _, r := range *fv.Referrers() {
			if st, ok := r.(*ssa.Store); ok && st.Addr == fv && !isNilConst(st.Val) {
				stored = true
			}
		}
	}
	if !stored {
		return false, "the deferred function recovers but never assigns the function's named error result"
	}
	return true, ""
}

type guardResult struct {
	Unprot    map[*ssa.Function]reachInfo // functions reachable with no barrier on the path
	All       map[*ssa.Function]reachInfo
	Sites     []guardSite // unprotected sites (in repo functions)
	Protected int         // sites in reachable repo functions that are protected
	ProtSites []guardSite
	AllReach  int
}

// runGuard computes the unprotected sites reachable from entries.
// guardExitOK: when true (C20), a process exit with a non-zero status is an
// accepted way to end (error message + status), and a deferred function that
// recovers and exits non-zero counts as a barrier.
var guardExitOK bool

func runGuard(p *Program, entries []*ssa.Function, exclude ...*ssa.Function) *guardResult {
	excl := map[*ssa.Function]bool{}
	for _, f := range exclude {
		excl[f] = true
	}
	guardProg = p
	cg := p.CallGraph()
	helpers := panicHelpers(p)
	barrierCache := map[*ssa.Function][]*ssa.Defer{}
	barriers := func(f *ssa.Function) []*ssa.Defer {
		if b, ok := barrierCache[f]; ok {
			return b
		}
		var b []*ssa.Defer
		if isRepoFn(f) {
			b = recoverBarriers(f)
		}
		barrierCache[f] = b
		return b
	}
	protectedAt := func(f *ssa.Function, ins ssa.Instruction) bool {
		for _, d := range barriers(f) {
			if instrDominates(d, ins) {
				return true
			}
		}
		return false
	}
	stop := func(e *callgraph.Edge) bool {
		if excl[e.Callee.Func] {
			return true
		}
		if e.Site == nil {
			return false
		}
		if _, isGo := e.Site.(*ssa.Go); isGo {
			return false // new goroutine: caller's barrier does not protect it
		}
		return protectedAt(e.Caller.Func, e.Site)
	}
	res := &guardResult{}
	res.Unprot = reachable(cg, entries, stop)
	all := reachable(cg, entries, func(e *callgraph.Edge) bool { return excl[e.Callee.Func] })
	res.AllReach = len(all)
	res.All = all
	var fns []*ssa.Function
	for f := range all {
		if isRepoFn(f) {
			fns = append(fns, f)
		}
	}
	sort.Slice(fns, func(i, j int) bool { return fnName(fns[i]) < fnName(fns[j]) })
	for _, f := range fns {
		_, unprot := res.Unprot[f]
		for _, s := range guardSites(f, helpers) {
			if !recoverable(s.Kind) {
				if cl, isCall := s.Ins.(ssa.CallInstruction); isCall && guardExitOK && exitIsNonZero(cl, s.Kind) {
					res.Protected++
					res.ProtSites = append(res.ProtSites, s)
					continue // ends the command with an error status: allowed by the property
				}
				// a process exit cannot be recovered: reachable at all = unprotected
				res.Sites = append(res.Sites, s)
				continue
			}
			if unprot && !protectedAt(f, s.Ins) {
				res.Sites = append(res.Sites, s)
			} else {
				res.Protected++
				res.ProtSites = append(res.ProtSites, s)
			}
		}
	}
	return res
}

// recoverThenExitsNonZero: the deferred function recovers and its only
// "bad" action is os.Exit with a non-zero constant / a Fatal log call.
func recoverThenExitsNonZero(f *ssa.Function) bool {
	ok := true
	eachInstr(f, func(_ *ssa.BasicBlock, j ssa.Instruction) {
		switch y := j.(type) {
		case *ssa.Panic:
			ok = false
		case ssa.CallInstruction:
			if k := exitCallKind(y); k != "" && !exitIsNonZero(y, k) {
				ok = false
			}
		}
	})
	return ok
}

func exitIsNonZero(cl ssa.CallInstruction, kind string) bool {
	if strings.Contains(kind, ".Fatal") {
		return true
	}
	if kind == "os.Exit" && len(cl.Common().Args) == 1 {
		if k, ok := constInt(cl.Common().Args[0]); ok && k != 0 {
			return true
		}
	}
	return false
}

func recoverable(kind string) bool {
	switch {
	case kind == "os.Exit", kind == "runtime.Goexit", strings.Contains(kind, ".Fatal"):
		return false
	}
	return true
}

// oneofDefaultUnreachable: the panic sits in the default arm of a type switch
// over a oneof marker interface of pkg/sysl and every implementer of that
// interface has a case.
func oneofDefaultUnreachable(p *Program, s guardSite) (string, bool) {
	blk := s.Ins.Block()
	// walk up: the block must be reached only via false edges of comma-ok
	// TypeAsserts on one interface value.
	var iface *types.Named
	covered := map[string]bool{}
	cur := blk
	steps := 0
	for steps < 64 {
		steps++
		if len(cur.Preds) != 1 {
			break
		}
		pr := cur.Preds[0]
		iff, ok := pr.Instrs[len(pr.Instrs)-1].(*ssa.If)
		if !ok {
			// plain jump: keep walking
			cur = pr
			continue
		}
		if pr.Succs[1] != cur {
			break // reached through a true edge
		}
		ex, ok := iff.Cond.(*ssa.Extract)
		if !ok || ex.Index != 1 {
			break
		}
		ta, ok := ex.Tuple.(*ssa.TypeAssert)
		if !ok || !ta.CommaOk {
			break
		}
		in := namedOf(ta.X.Type())
		if in == nil {
			break
		}
		if iface == nil {
			iface = in
		} else if iface != in {
			break
		}
		covered[types.TypeString(ta.AssertedType, nil)] = true
		cur = pr
	}
	if iface == nil {
		return "", false
	}
	it, ok := iface.Underlying().(*types.Interface)
	if !ok || iface.Obj().Pkg() == nil || !isRepoPkg(iface.Obj().Pkg()) {
		return "", false
	}
	impls := implementers(p, iface, it)
	if len(impls) == 0 {
		return "", false
	}
	var missing []string
	for _, im := range impls {
		if !covered[im] {
			missing = append(missing, im[strings.LastIndex(im, ".")+1:])
		}
	}
	if len(missing) > 0 {
		return fmt.Sprintf("default arm reachable for %s kinds %v", iface.Obj().Name(), missing), false
	}
	return fmt.Sprintf("default arm of a type switch that enumerates all %d implementers of %s (nil oneof assumed absent)", len(impls), iface.Obj().Name()), true
}

// implementers lists (as type strings, pointer form) the named types of the
// interface's package whose pointer type implements it.
func implementers(p *Program, iface *types.Named, it *types.Interface) []string {
	var out []string
	sc := iface.Obj().Pkg().Scope()
	for _, n := range sc.Names() {
		tn, ok := sc.Lookup(n).(*types.TypeName)
		if !ok || tn.IsAlias() {
			continue
		}
		nt, ok := tn.Type().(*types.Named)
		if !ok || nt == iface {
			continue
		}
		if _, isI := nt.Underlying().(*types.Interface); isI {
			continue
		}
		pt := types.NewPointer(nt)
		if types.Implements(pt, it) {
			out = append(out, types.TypeString(pt, nil))
		}
	}
	sort.Strings(out)
	return out
}

// reportGuard turns guard sites into obligations under rule name.
func reportGuard(c *Check, rule string, res *guardResult) {
	p := c.P
	sort.SliceStable(res.Sites, func(i, j int) bool {
		a, b := res.Sites[i], res.Sites[j]
		if fnName(a.Fn) != fnName(b.Fn) {
			return fnName(a.Fn) < fnName(b.Fn)
		}
		return a.Ins.Pos() < b.Ins.Pos()
	})
	for _, s := range res.Sites {
		key := fmt.Sprintf("%s|%s", fnName(s.Fn), s.Kind)
		if s.Kind == "panic" {
			if why, ok := oneofDefaultUnreachable(p, s); ok {
				c.Okf(rule, key, p.pos(s.Ins.Pos()), "%s", why)
				continue
			}
		}
		detail := fmt.Sprintf("%s reachable from the entry set with no recover barrier on the call path (same goroutine)", s.Kind)
		if s.Kind == "panic" {
			if pn, ok := s.Ins.(*ssa.Panic); ok {
				if msg := panicMessage(pn); msg != "" {
					detail += fmt.Sprintf(" — panic(%q)", msg)
				}
			}
		}
		chain := res.Unprot
		if !recoverable(s.Kind) {
			chain = res.All
			detail = fmt.Sprintf("%s (process exit: recover barriers do not help) reachable from the entry set", s.Kind)
		}
		c.Ob(rule, key, p.pos(s.Ins.Pos()), Flag, detail, chainTo(chain, s.Fn, p)...)
	}
	var silent []*ssa.Defer
	for d := range silentGuards {
		if _, ok := res.All[d.Parent()]; ok {
			silent = append(silent, d)
		}
	}
	sort.Slice(silent, func(i, j int) bool { return fnName(silent[i].Parent()) < fnName(silent[j].Parent()) })
	for _, d := range silent {
		c.Flagf("SILENT-GUARD", fnName(d.Parent())+"|a recovered panic becomes an error", p.pos(d.Pos()),
			"the deferred recover stops the panic but the function then returns as if it had succeeded: %s", silentGuards[d])
	}
	for _, s := range res.ProtSites {
		c.Okf(rule, fmt.Sprintf("%s|%s", fnName(s.Fn), s.Kind), p.pos(s.Ins.Pos()), "recoverable site protected by a recover barrier on every call path from the entry set")
	}
	c.Counts[rule+"_unprotected_sites"] = len(res.Sites)
	c.Counts[rule+"_protected_sites"] = res.Protected
	c.Counts[rule+"_reachable_functions"] = res.AllReach
	c.Counts[rule+"_unprotected_reachable_functions"] = len(res.Unprot)
}

func panicMessage(pn *ssa.Panic) string {
	v := stripValue(pn.X)
	if c, ok := v.(*ssa.Const); ok && c.Value != nil && c.Value.Kind() == constant.String {
		return constant.StringVal(c.Value)
	}
	return ""
}

var _ = token.NoPos

// reraises: the operand of the panic is the value a recover() returned — taken
// directly, or parked in a struct field that is only ever assigned recover()
// results (a worker goroutine hands its panic to the goroutine that waits for it).
func reraises(pn *ssa.Panic) bool {
	isRecover := func(v ssa.Value) bool {
		for d := 0; d < 4; d++ {
			switch x := v.(type) {
			case *ssa.MakeInterface:
				v = x.X
				continue
			case *ssa.ChangeInterface:
				v = x.X
				continue
			case *ssa.Call:
				b, ok := x.Call.Value.(*ssa.Builtin)
				return ok && b.Name() == "recover"
			}
			break
		}
		return false
	}
	v := pn.X
	if mi, ok := v.(*ssa.MakeInterface); ok {
		v = mi.X
	}
	if isRecover(v) {
		return true
	}
	own, fld, _, ok := loadedField(unspill(v))
	if !ok || own == nil {
		return false
	}
	n, all := 0, true
	if guardProg == nil {
		return false
	}
	for _, fn := range guardProg.RepoFuncs() {
		if fnPkgPath(fn) != fnPkgPath(pn.Parent()) {
			continue
		}
		eachInstr(fn, func(_ *ssa.BasicBlock, i ssa.Instruction) {
			st, ok := i.(*ssa.Store)
			if !ok {
				return
			}
			o2, f2, _, ok := fieldOfAddr(st.Addr)
			if !ok || o2 != own || f2 != fld {
				return
			}
			n++
			if !isRecover(st.Val) {
				all = false
			}
		})
	}
	return n > 0 && all
}

// guardProg: the program runGuard is working on (for rules that need to look
// at the rest of a package).
var guardProg *Program
