package main

import (
	"fmt"
	"go/ast"
	"go/token"
	"go/types"
	"os"
	"sort"
	"strings"

	"golang.org/x/tools/go/callgraph"
	"golang.org/x/tools/go/callgraph/cha"
	"golang.org/x/tools/go/callgraph/vta"
	"golang.org/x/tools/go/packages"
	"golang.org/x/tools/go/ssa"
	"golang.org/x/tools/go/ssa/ssautil"
)

const repoMod = "github.com/anz-bank/sysl"

// LoadMode says how much of the program a property needs.
type LoadMode int

const (
	// LoadTyped: typed syntax + SSA of the repository packages only
	// (dependencies are typed but have no bodies).
	LoadTyped LoadMode = iota
	// LoadWhole: typed syntax + SSA of the repository and every dependency,
	// plus the VTA call graph.
	LoadWhole
)

// Program is the resolved program all rules work on.
type Program struct {
	Root     string
	Fset     *token.FileSet
	Repo     []*packages.Package          // repository packages (non-test)
	ByPath   map[string]*packages.Package // all loaded packages by import path
	SSA      *ssa.Program
	SSAPkgs  map[string]*ssa.Package // by import path
	Whole    bool
	cg       *callgraph.Graph
	GOOS     string
	funcDecl map[*types.Func]*ast.FuncDecl
	fileOf   map[*ast.FuncDecl]*ast.File
	repoFns  []*ssa.Function
}

func repoRoot() string {
	if r := os.Getenv("SYSL_REPO"); r != "" {
		return r
	}
	return "/repo"
}

// Load loads /repo's current working tree. overlay maps absolute file names
// to replacement contents (used by the sensitivity runs only).
func Load(mode LoadMode, overlay map[string][]byte, goos string) (*Program, error) {
	root := repoRoot()
	env := append(os.Environ(),
		"GOFLAGS=-mod=mod", "GOPROXY=off", "GOSUMDB=off", "GOTOOLCHAIN=local", "GOWORK=off")
	if goos != "" {
		env = append(env, "GOOS="+goos, "CGO_ENABLED=0")
	}
	m := packages.NeedName | packages.NeedFiles | packages.NeedCompiledGoFiles |
		packages.NeedImports | packages.NeedTypes | packages.NeedTypesSizes |
		packages.NeedSyntax | packages.NeedTypesInfo | packages.NeedDeps | packages.NeedModule
	cfg := &packages.Config{
		Mode:    m,
		Dir:     root,
		Env:     env,
		Tests:   false,
		Overlay: overlay,
	}
	if mode == LoadTyped {
		// Only the root packages get syntax; dependencies come from export data.
		cfg.Mode = packages.NeedName | packages.NeedFiles | packages.NeedCompiledGoFiles |
			packages.NeedImports | packages.NeedTypes | packages.NeedTypesSizes |
			packages.NeedSyntax | packages.NeedTypesInfo | packages.NeedModule
	}
	roots, err := packages.Load(cfg, "./cmd/...", "./pkg/...", "./internal/...")
	if err != nil {
		return nil, fmt.Errorf("packages.Load: %w", err)
	}
	if len(roots) == 0 {
		return nil, fmt.Errorf("no packages loaded from %s", root)
	}
	p := &Program{Root: root, ByPath: map[string]*packages.Package{}, SSAPkgs: map[string]*ssa.Package{},
		Whole: mode == LoadWhole, GOOS: goos,
		funcDecl: map[*types.Func]*ast.FuncDecl{}, fileOf: map[*ast.FuncDecl]*ast.File{}}
	var errs []string
	packages.Visit(roots, nil, func(pk *packages.Package) {
		p.ByPath[pk.PkgPath] = pk
		if strings.HasPrefix(pk.PkgPath, repoMod) {
			for _, e := range pk.Errors {
				errs = append(errs, fmt.Sprintf("%s: %s", pk.PkgPath, e.Msg))
			}
		}
	})
	if len(errs) > 0 {
		sort.Strings(errs)
		if len(errs) > 8 {
			errs = errs[:8]
		}
		return nil, fmt.Errorf("type errors in the tree (a tree that does not type-check cannot be decided): %s",
			strings.Join(errs, "; "))
	}
	for _, pk := range roots {
		if strings.HasPrefix(pk.PkgPath, repoMod) {
			p.Repo = append(p.Repo, pk)
		}
	}
	sort.Slice(p.Repo, func(i, j int) bool { return p.Repo[i].PkgPath < p.Repo[j].PkgPath })
	if len(p.Repo) < 30 {
		return nil, fmt.Errorf("only %d repository packages loaded (expected ≥30)", len(p.Repo))
	}
	p.Fset = roots[0].Fset
	for _, pk := range p.Repo {
		for _, f := range pk.Syntax {
			for _, d := range f.Decls {
				if fd, ok := d.(*ast.FuncDecl); ok {
					if obj, ok := pk.TypesInfo.Defs[fd.Name].(*types.Func); ok {
						p.funcDecl[obj] = fd
						p.fileOf[fd] = f
					}
				}
			}
		}
	}
	bmode := ssa.InstantiateGenerics
	var prog *ssa.Program
	if mode == LoadWhole {
		var pkgs []*ssa.Package
		prog, pkgs = ssautil.AllPackages(roots, bmode)
		_ = pkgs
	} else {
		prog, _ = ssautil.Packages(roots, bmode)
	}
	prog.Build()
	p.SSA = prog
	lastProgram = p
	for _, sp := range prog.AllPackages() {
		p.SSAPkgs[sp.Pkg.Path()] = sp
	}
	return p, nil
}

// CallGraph returns the whole-program VTA graph (LoadWhole only).
func (p *Program) CallGraph() *callgraph.Graph {
	if p.cg != nil {
		return p.cg
	}
	if !p.Whole {
		panic("call graph requested on a repo-only load")
	}
	all := ssautil.AllFunctions(p.SSA)
	p.cg = vta.CallGraph(all, cha.CallGraph(p.SSA))
	return p.cg
}

func (p *Program) Pkg(path string) *packages.Package {
	if !strings.Contains(path, "/") || !strings.HasPrefix(path, "github.com") {
		path = repoMod + "/" + path
	}
	return p.ByPath[path]
}

func (p *Program) SSAPkg(path string) *ssa.Package {
	if !strings.HasPrefix(path, "github.com") {
		path = repoMod + "/" + path
	}
	return p.SSAPkgs[path]
}

func isRepoPkg(pk *types.Package) bool {
	return pk != nil && strings.HasPrefix(pk.Path(), repoMod)
}

func shortPkg(path string) string {
	return strings.TrimPrefix(strings.TrimPrefix(path, repoMod+"/"), "pkg/")
}

// RepoFuncs returns every SSA function (incl. closures and methods) whose
// source lies in a repository package, sorted by name.
func (p *Program) RepoFuncs() []*ssa.Function {
	if p.repoFns != nil {
		return p.repoFns
	}
	seen := map[*ssa.Function]bool{}
	var add func(f *ssa.Function)
	add = func(f *ssa.Function) {
		if f == nil || seen[f] {
			return
		}
		seen[f] = true
		p.repoFns = append(p.repoFns, f)
		for _, a := range f.AnonFuncs {
			add(a)
		}
	}
	for _, pk := range p.Repo {
		sp := p.SSAPkgs[pk.PkgPath]
		if sp == nil {
			continue
		}
		for _, mem := range sp.Members {
			switch m := mem.(type) {
			case *ssa.Function:
				add(m)
			case *ssa.Type:
				for _, t := range []types.Type{m.Type(), types.NewPointer(m.Type())} {
					ms := p.SSA.MethodSets.MethodSet(t)
					for i := 0; i < ms.Len(); i++ {
						fn := p.SSA.MethodValue(ms.At(i))
						if fn != nil && fn.Synthetic == "" && isRepoPkg(fn.Pkg.Pkg) {
							add(fn)
						}
					}
				}
			}
		}
	}
	sort.Slice(p.repoFns, func(i, j int) bool { return fnName(p.repoFns[i]) < fnName(p.repoFns[j]) })
	return p.repoFns
}

// fnName gives a stable, position-free name: pkg.(*T).m, pkg.f, pkg.f$1.
func fnName(f *ssa.Function) string {
	if f == nil {
		return "<nil>"
	}
	s := f.String()
	s = strings.ReplaceAll(s, repoMod+"/", "")
	return s
}

// FuncByName finds a repo function by its stable name (e.g.
// "pkg/parse.parseString", "(*pkg/parse.Parser).Parse").
func (p *Program) FuncByName(name string) *ssa.Function {
	for _, f := range p.RepoFuncs() {
		if fnName(f) == name {
			return f
		}
	}
	// the same function turned into a method (or back): same package, same name
	pkg, bare := name, ""
	if i := strings.LastIndex(name, "."); i > 0 {
		pkg, bare = name[:i], name[i+1:]
	}
	pkg = strings.TrimPrefix(strings.TrimPrefix(pkg, "(*"), "(")
	if j := strings.LastIndex(pkg, "."); j > 0 && strings.HasSuffix(name[:strings.LastIndex(name, ".")], ")") {
		pkg = pkg[:j] // strip the receiver type
	}
	var found *ssa.Function
	n := 0
	for _, f := range p.RepoFuncs() {
		if f.Parent() == nil && f.Name() == bare && strings.HasSuffix(fnPkgPath(f), "/"+pkg) {
			found = f
			n++
		}
	}
	if n == 1 {
		return found
	}
	return nil
}

func (p *Program) pos(pos token.Pos) string {
	if !pos.IsValid() {
		return "-"
	}
	ps := p.Fset.Position(pos)
	return fmt.Sprintf("%s:%d", strings.TrimPrefix(ps.Filename, p.Root+"/"), ps.Line)
}

// isGenerated reports whether the file is generated code (ANTLR / protobuf).
func (p *Program) isGeneratedFile(name string) bool {
	b := name[strings.LastIndex(name, "/")+1:]
	return strings.HasSuffix(b, ".pb.go") || b == "sysl_parser.go" || b == "sysl_lexer.go" ||
		b == "syslparser_listener.go" || b == "syslparser_base_listener.go" ||
		strings.Contains(name, "/lsp/framework/")
}

func (p *Program) fnFile(f *ssa.Function) string {
	for f.Parent() != nil {
		f = f.Parent()
	}
	if !f.Pos().IsValid() {
		return ""
	}
	return p.Fset.Position(f.Pos()).Filename
}

// onlyHelperOf: the function named helper is in the same package as the one
// named owner, owner calls it (directly or through at most two helpers of the
// same kind), and nothing else in the repository does or takes its address.
func (p *Program) onlyHelperOf(helper, owner string) bool {
	var h, o *ssa.Function
	for _, f := range p.RepoFuncs() {
		switch fnName(f) {
		case helper:
			h = f
		case owner:
			o = f
		}
	}
	if h == nil || o == nil || h == o || fnPkgPath(h) != fnPkgPath(o) {
		return false
	}
	for depth := 0; depth < 3 && h != nil; depth++ {
		c := p.soleCaller(h)
		if c == nil {
			return false
		}
		if c == o {
			return true
		}
		if fnPkgPath(c) != fnPkgPath(o) {
			return false
		}
		h = c
	}
	return false
}

// soleCaller: the one top-level function (closures counted with their parent)
// that calls h, provided nothing else calls it or takes its address.
func (p *Program) soleCaller(h *ssa.Function) *ssa.Function {
	var caller *ssa.Function
	for _, f := range p.RepoFuncs() {
		if len(f.Blocks) == 0 {
			continue
		}
		root := f
		for root.Parent() != nil {
			root = root.Parent()
		}
		for _, b := range f.Blocks {
			for _, i := range b.Instrs {
				for _, op := range i.Operands(nil) {
					if op == nil || *op != ssa.Value(h) {
						continue
					}
					cl, isCall := i.(ssa.CallInstruction)
					if !isCall || cl.Common().Value != ssa.Value(h) || (caller != nil && caller != root) || root == h {
						return nil
					}
					caller = root
				}
			}
		}
	}
	return caller
}

// directCallee: the function named owner calls the function named helper (same
// package) directly.
func (p *Program) directCallee(helper, owner string) bool {
	var h, o *ssa.Function
	for _, f := range p.RepoFuncs() {
		switch fnName(f) {
		case helper:
			h = f
		case owner:
			o = f
		}
	}
	if h == nil || o == nil || h == o || fnPkgPath(h) != fnPkgPath(o) {
		return false
	}
	found := false
	for _, g := range withClosures(o) {
		eachCall(g, func(cl ssa.CallInstruction) {
			if cl.Common().StaticCallee() == h {
				found = true
			}
		})
	}
	return found
}

// lastProgram: the program loaded last (rules that must look at every call of a
// helper from inside a value-level predicate use it).
var lastProgram *Program

// FuncByNameExact: the repository function printed exactly as name, or nil.
func (p *Program) FuncByNameExact(name string) *ssa.Function {
	for _, f := range p.RepoFuncs() {
		if fnName(f) == name {
			return f
		}
	}
	return nil
}
