package main

import (
	"fmt"
	"go/constant"
	"go/token"
	"go/types"
	"sort"
	"strings"

	"golang.org/x/tools/go/callgraph"
	"golang.org/x/tools/go/ssa"
)

// R-DEREF: results of by-name model look-ups used as if present.
//   (1) map-miss dereference: v := m[k] (no comma-ok) with pointer element type,
//       v dereferenced (field access or non-nil-safe method) with no dominating
//       nil test of the same access path;
//   (2) short-slice index: s[c], constant c, s a reference path / split result,
//       with no dominating length test.

// exprKey gives a structural name to an SSA value so that two evaluations of
// the same access path (go/ssa performs no CSE) can be recognised.
func exprKey(v ssa.Value, depth int) string {
	if depth > 12 {
		return fmt.Sprintf("?%p", v)
	}
	v = unspill(v)
	switch x := v.(type) {
	case *ssa.Parameter:
		return "p:" + x.Name()
	case *ssa.FreeVar:
		return "fv:" + x.Name()
	case *ssa.Const:
		if x.Value == nil {
			return "nil"
		}
		return "c:" + x.Value.ExactString()
	case *ssa.Global:
		return "g:" + x.Name()
	case *ssa.FieldAddr:
		return exprKey(x.X, depth+1) + ".&" + fmt.Sprint(x.Field)
	case *ssa.Field:
		return exprKey(x.X, depth+1) + "." + fmt.Sprint(x.Field)
	case *ssa.UnOp:
		if x.Op == token.MUL {
			return "*" + exprKey(x.X, depth+1)
		}
	case *ssa.Lookup:
		return exprKey(x.X, depth+1) + "[" + exprKey(x.Index, depth+1) + "]"
	case *ssa.IndexAddr:
		return exprKey(x.X, depth+1) + "[&" + exprKey(x.Index, depth+1) + "]"
	case *ssa.Index:
		return exprKey(x.X, depth+1) + "[" + exprKey(x.Index, depth+1) + "]"
	case *ssa.Extract:
		return exprKey(x.Tuple, depth+1) + "#" + fmt.Sprint(x.Index)
	case *ssa.Call:
		if sc := x.Call.StaticCallee(); sc != nil && sc.Pkg != nil && sc.Pkg.Pkg.Path() == "strings" {
			// pure function of its arguments
			parts := []string{}
			for _, a := range x.Call.Args {
				parts = append(parts, exprKey(a, depth+1))
			}
			return "strings." + sc.Name() + "(" + strings.Join(parts, ",") + ")"
		}
		if sc := x.Call.StaticCallee(); sc != nil && sc.Signature.Recv() != nil && (isAccessor(sc.Object(), x.Call.Args[1:]) || (len(x.Call.Args) == 1 && isRepoFn(sc) && sc.Signature.Results().Len() == 1)) {
			parts := []string{}
			for _, a := range x.Call.Args {
				parts = append(parts, exprKey(a, depth+1))
			}
			return sc.Name() + "(" + strings.Join(parts, ",") + ")"
		}
	case *ssa.ChangeType:
		return exprKey(x.X, depth+1)
	case *ssa.Convert:
		return exprKey(x.X, depth+1)
	case *ssa.MakeInterface:
		return exprKey(x.X, depth+1)
	case *ssa.Slice:
		if x.Low == nil && x.High == nil {
			return exprKey(x.X, depth+1)
		}
	}
	if f := v.Parent(); f != nil {
		// register names are unique within a function
		return "?" + v.Name() + "@" + f.String()
	}
	return fmt.Sprintf("?%s@%p", v.Name(), v)
}

// nilSafeMethod: every dereference of the receiver inside f is dominated by a
// successful non-nil test of the receiver (protobuf getters have this shape).
var nilSafeCache = map[*ssa.Function]bool{}

func nilSafeMethod(f *ssa.Function) bool {
	if v, ok := nilSafeCache[f]; ok {
		return v
	}
	res := false
	defer func() { nilSafeCache[f] = res }()
	if f == nil || len(f.Blocks) == 0 || len(f.Params) == 0 {
		return false
	}
	recv := f.Params[0]
	if _, isPtr := recv.Type().Underlying().(*types.Pointer); !isPtr {
		res = true // value receiver: the caller dereferences – handled as deref at call site
		return false
	}
	// non-nil region: blocks dominated by the non-nil successor of `recv != nil`
	var safeRoots []*ssa.BasicBlock
	for _, r := range *recv.Referrers() {
		bin, ok := r.(*ssa.BinOp)
		if !ok || (bin.Op != token.NEQ && bin.Op != token.EQL) || !(isNilConst(bin.X) || isNilConst(bin.Y)) {
			continue
		}
		for _, br := range branchesOn(bin) {
			s := br.TrueSucc
			if bin.Op == token.EQL {
				s = br.FalseSucc
			}
			if len(s.Preds) == 1 {
				safeRoots = append(safeRoots, s)
			}
		}
	}
	inSafe := func(b *ssa.BasicBlock) bool {
		for _, s := range safeRoots {
			if s == b || s.Dominates(b) {
				return true
			}
		}
		return false
	}
	ok := true
	for _, r := range *recv.Referrers() {
		switch x := r.(type) {
		case *ssa.FieldAddr:
			if x.X == recv && !inSafe(x.Block()) {
				ok = false
			}
		case *ssa.UnOp:
			if x.Op == token.MUL && !inSafe(x.Block()) {
				ok = false
			}
		case ssa.CallInstruction:
			// passing the receiver on: callee must be nil-safe too
			cc := x.Common()
			if !cc.IsInvoke() && len(cc.Args) > 0 && cc.Args[0] == recv {
				if sc := cc.StaticCallee(); sc != nil && sc != f {
					if !inSafe(x.Block()) && !nilSafeMethod(sc) {
						ok = false
					}
				}
			}
		}
	}
	res = ok
	return res
}

type derefFinding struct {
	fn   *ssa.Function
	ins  ssa.Instruction
	kind string
	what string
}

func isModelPointer(t types.Type) bool {
	pt, ok := t.Underlying().(*types.Pointer)
	if !ok {
		return false
	}
	_, isStruct := pt.Elem().Underlying().(*types.Struct)
	return isStruct
}

// nilTestedBefore: use (in block b) is dominated by the non-nil outcome of a
// nil comparison of a value with the same access path as v, or by the ok
// outcome of a comma-ok look-up of the same path.
func nilTestedBefore(f *ssa.Function, v ssa.Value, use ssa.Instruction) bool {
	key := exprKey(v, 0)
	found := false
	eachInstr(f, func(_ *ssa.BasicBlock, i ssa.Instruction) {
		if found {
			return
		}
		switch x := i.(type) {
		case *ssa.BinOp:
			if x.Op != token.NEQ && x.Op != token.EQL {
				return
			}
			var other ssa.Value
			if isNilConst(x.X) {
				other = x.Y
			} else if isNilConst(x.Y) {
				other = x.X
			} else {
				return
			}
			if other != v && exprKey(other, 0) != key {
				return
			}
			for _, br := range branchesOn(x) {
				s, o := br.TrueSucc, br.FalseSucc
				if x.Op == token.EQL {
					s, o = o, s
				}
				_ = o
				if (s == use.Block() || s.Dominates(use.Block())) && len(s.Preds) == 1 {
					found = true
				}
				// early-exit form: if v == nil { return/continue } … use
				if !found {
					nilSucc := br.TrueSucc
					if x.Op == token.NEQ {
						nilSucc = br.FalseSucc
					}
					if br.If.Block().Dominates(use.Block()) && !blockReaches(nilSucc, use.Block(), nil) {
						found = true
					}
				}
			}
		case *ssa.Lookup:
			if !x.CommaOk {
				return
			}
			lk, isLk := v.(*ssa.Lookup)
			if !isLk {
				return
			}
			if exprKey(x.X, 0) != exprKey(lk.X, 0) || exprKey(x.Index, 0) != exprKey(lk.Index, 0) {
				return
			}
			for _, r := range *x.Referrers() {
				ex, ok := r.(*ssa.Extract)
				if !ok || ex.Index != 1 {
					continue
				}
				for _, br := range branchesOn(ex) {
					if (br.TrueSucc == use.Block() || br.TrueSucc.Dominates(use.Block())) && len(br.TrueSucc.Preds) == 1 {
						found = true
					}
					if br.If.Block().Dominates(use.Block()) && !blockReaches(br.FalseSucc, use.Block(), nil) {
						found = true
					}
				}
			}
		}
	})
	return found
}

func derefsIn(p *Program, f *ssa.Function) []derefFinding {
	var out []derefFinding
	eachInstr(f, func(_ *ssa.BasicBlock, i ssa.Instruction) {
		switch x := i.(type) {
		case *ssa.Lookup:
			if x.CommaOk {
				return
			}
			if _, isMap := x.X.Type().Underlying().(*types.Map); !isMap {
				return
			}
			if !isModelPointer(x.Type()) {
				return
			}
			for _, r := range *x.Referrers() {
				deref := ""
				switch u := r.(type) {
				case *ssa.FieldAddr:
					if u.X == ssa.Value(x) {
						deref = "field access"
					}
				case *ssa.UnOp:
					if u.Op == token.MUL && u.X == ssa.Value(x) {
						deref = "load"
					}
				case ssa.CallInstruction:
					cc := u.Common()
					if !cc.IsInvoke() && len(cc.Args) > 0 && cc.Args[0] == ssa.Value(x) && cc.Signature().Recv() != nil {
						if sc := cc.StaticCallee(); sc != nil && !nilSafeMethod(sc) {
							deref = "method " + sc.Name()
						}
					}
				}
				if deref == "" {
					continue
				}
				if nilTestedBefore(f, x, r) {
					continue
				}
				if keyFromSameMap(x) {
					continue
				}
				mt := x.X.Type().Underlying().(*types.Map)
				out = append(out, derefFinding{f, r, "map-miss",
					fmt.Sprintf("result of map look-up %s (element %s) is dereferenced (%s) without a nil/ok test", exprKeyShort(x), types.TypeString(mt.Elem(), shortQual), deref)})
				break
			}
		case *ssa.Slice:
			// s[:k] / s[k:] of a string taken from the model: needs len(s) >= k
			if b, ok := x.X.Type().Underlying().(*types.Basic); !ok || b.Info()&types.IsString == 0 {
				return
			}
			// a constant string cut at a bound computed at run time: the bound must
			// have been compared with something (a constant, a length) on the way
			if cs, isConst := x.X.(*ssa.Const); isConst && cs.Value != nil {
				for _, bound := range []ssa.Value{x.High, x.Low} {
					if bound == nil {
						continue
					}
					if _, isK := constInt(bound); isK {
						continue
					}
					if !boundCompared(f, bound, x) {
						out = append(out, derefFinding{f, x, "const-slice",
							fmt.Sprintf("a constant string of %d bytes is cut at %s, a bound computed at run time that is never compared with its length: a larger value panics", len(constant.StringVal(cs.Value)), exprKeyShort(bound))})
						return
					}
				}
				return
			}
			var k int64
			if x.High != nil {
				if kk, ok := constInt(x.High); ok {
					k = kk
				}
			}
			if x.Low != nil {
				if kk, ok := constInt(x.Low); ok && kk > k {
					k = kk
				}
			}
			if k < 1 {
				return
			}
			src, risky := riskyStringSource(x.X)
			if !risky {
				return
			}
			if lenTestedBefore(f, x.X, k-1, x) || (k == 1 && nonEmptyTestedBefore(f, x.X, x)) {
				return
			}
			out = append(out, derefFinding{f, x, "short-string",
				fmt.Sprintf("the first %d byte(s) of %s are sliced without a dominating length test: an empty value panics", k, src)})
		case *ssa.Extract:
			// a pointer result used before the error that came with it is tested
			if d := usedBeforeErrCheck(x); d != nil {
				out = append(out, derefFinding{f, d, "use-before-error-check",
					fmt.Sprintf("the result of %s is dereferenced before the error returned with it is tested: when the call fails the result is nil", callName(x.Tuple))})
			}
		case *ssa.IndexAddr:
			c, ok := constInt(x.Index)
			if !ok {
				return
			}
			if _, isSlice := x.X.Type().Underlying().(*types.Slice); !isSlice {
				return
			}
			src, risky := riskySliceSource(x.X)
			if !risky {
				return
			}
			if lenTestedBefore(f, x.X, c, x) {
				return
			}
			out = append(out, derefFinding{f, x, "short-slice",
				fmt.Sprintf("element [%d] of %s is read without a dominating length test", c, src)})
		}
	})
	return out
}

func shortQual(p *types.Package) string { return p.Name() }

func exprKeyShort(v ssa.Value) string {
	s := exprKey(v, 0)
	if len(s) > 60 {
		s = s[:60] + "…"
	}
	return s
}

// riskySliceSource: slices whose length is decided by model content: the
// Path/Part lists of references and names, results of strings.Split*.
func riskySliceSource(v ssa.Value) (string, bool) {
	v = unspill(v)
	switch x := v.(type) {
	case *ssa.UnOp:
		if own, fld, _, ok := loadedField(x); ok && own != nil && own.Obj().Pkg() != nil && own.Obj().Pkg().Path() == repoMod+"/pkg/sysl" {
			if fld == "Path" || fld == "Part" {
				return own.Obj().Name() + "." + fld, true
			}
		}
	case *ssa.Phi:
		// a list that starts empty and is filled in a loop: as long as the data
		// it is filled from, possibly empty
		for _, e := range x.Edges {
			switch y := e.(type) {
			case *ssa.MakeSlice:
				if k, ok := constInt(y.Len); ok && k == 0 {
					return "a list that starts empty and is filled in a loop", true
				}
			case *ssa.Const:
				if y.Value == nil {
					return "a list that starts nil and is filled in a loop", true
				}
			}
		}
	case *ssa.Call:
		if sc := x.Call.StaticCallee(); sc != nil {
			if o, ok := sc.Object().(*types.Func); ok && o.Pkg() != nil {
				if o.Pkg().Path() == repoMod+"/pkg/sysl" && (o.Name() == "GetPath" || o.Name() == "GetPart") {
					return objLocalName(o), true
				}
				if o.Pkg().Path() == "strings" && (strings.HasPrefix(o.Name(), "Split") || o.Name() == "Fields") {
					return "strings." + o.Name(), true
				}
			}
		}
	}
	return "", false
}

func lenTestedBefore(f *ssa.Function, s ssa.Value, c int64, use ssa.Instruction) bool {
	// strings.Split(x, nonEmptyConst)[0] is always in range
	if call, ok := unspill(s).(*ssa.Call); ok && c == 0 {
		if sc := call.Call.StaticCallee(); sc != nil && sc.Pkg != nil && sc.Pkg.Pkg.Path() == "strings" && strings.HasPrefix(sc.Name(), "Split") {
			if sep, ok := constString(call.Call.Args[1]); ok && sep != "" {
				return true
			}
		}
	}
	// strings.Split*(x, sep)[1] under the true branch of strings.Contains(x, sep):
	// a string that contains the separator splits into at least two parts
	if call, ok := unspill(s).(*ssa.Call); ok && c == 1 {
		if sc := call.Call.StaticCallee(); sc != nil && sc.Pkg != nil && sc.Pkg.Pkg.Path() == "strings" && strings.HasPrefix(sc.Name(), "Split") && len(call.Call.Args) >= 2 {
			sep, okSep := constString(call.Call.Args[1])
			nOK := true
			if len(call.Call.Args) == 3 { // SplitN: n must allow two parts
				n, isK := constInt(call.Call.Args[2])
				nOK = isK && (n < 0 || n >= 2)
			}
			if okSep && sep != "" && nOK {
				subj := exprKey(call.Call.Args[0], 0)
				guarded := false
				eachInstr(f, func(_ *ssa.BasicBlock, i ssa.Instruction) {
					cc, ok := i.(*ssa.Call)
					if !ok || guarded {
						return
					}
					c2 := cc.Call.StaticCallee()
					if c2 == nil || c2.Pkg == nil || c2.Pkg.Pkg.Path() != "strings" || c2.Name() != "Contains" {
						return
					}
					if s2, ok := constString(cc.Call.Args[1]); !ok || s2 != sep {
						return
					}
					if cc.Call.Args[0] != call.Call.Args[0] && exprKey(cc.Call.Args[0], 0) != subj {
						return
					}
					for _, br := range branchesOn(cc) {
						if (br.TrueSucc == use.Block() || br.TrueSucc.Dominates(use.Block())) && len(br.TrueSucc.Preds) == 1 {
							guarded = true
						}
					}
				})
				if guarded {
					return true
				}
			}
		}
	}
	key := exprKey(s, 0)
	found := false
	eachInstr(f, func(_ *ssa.BasicBlock, i ssa.Instruction) {
		if found {
			return
		}
		bin, ok := i.(*ssa.BinOp)
		if !ok {
			return
		}
		var k int64
		var lenOnLeft bool
		isLen := func(v ssa.Value) bool {
			call, ok := v.(*ssa.Call)
			if !ok {
				return false
			}
			b, ok := call.Call.Value.(*ssa.Builtin)
			if !ok || b.Name() != "len" {
				return false
			}
			return call.Call.Args[0] == s || exprKey(call.Call.Args[0], 0) == key
		}
		if isLen(bin.X) {
			kk, ok := constInt(bin.Y)
			if !ok {
				return
			}
			k, lenOnLeft = kk, true
		} else if isLen(bin.Y) {
			kk, ok := constInt(bin.X)
			if !ok {
				return
			}
			k, lenOnLeft = kk, false
		} else {
			return
		}
		op := bin.Op
		if !lenOnLeft {
			// k op len  ⇒  len op' k
			switch op {
			case token.LSS:
				op = token.GTR
			case token.LEQ:
				op = token.GEQ
			case token.GTR:
				op = token.LSS
			case token.GEQ:
				op = token.LEQ
			}
		}
		// which outcome implies len > c ?
		trueImplies, falseImplies := false, false
		switch op {
		case token.GTR: // len > k
			trueImplies = k >= c
		case token.GEQ: // len >= k
			trueImplies = k >= c+1
		case token.LSS: // len < k ; false ⇒ len >= k
			falseImplies = k >= c+1
		case token.LEQ: // len <= k ; false ⇒ len > k
			falseImplies = k >= c
		case token.EQL:
			trueImplies = k >= c+1
			falseImplies = k == 0 && c == 0 // len != 0 ⇒ len >= 1
		case token.NEQ:
			falseImplies = k >= c+1
			trueImplies = k == 0 && c == 0
		}
		for _, br := range branchesOn(bin) {
			if trueImplies {
				if (br.TrueSucc == use.Block() || br.TrueSucc.Dominates(use.Block())) && len(br.TrueSucc.Preds) == 1 {
					found = true
				}
				if br.If.Block().Dominates(use.Block()) && !blockReaches(br.FalseSucc, use.Block(), nil) {
					found = true
				}
			}
			if falseImplies {
				if (br.FalseSucc == use.Block() || br.FalseSucc.Dominates(use.Block())) && len(br.FalseSucc.Preds) == 1 {
					found = true
				}
				if br.If.Block().Dominates(use.Block()) && !blockReaches(br.TrueSucc, use.Block(), nil) {
					found = true
				}
			}
		}
	})
	return found
}

// runDeref reports R-DEREF findings in repository functions reachable from
// entries (generated code excluded).
func runDeref(c *Check, rule string, entries []*ssa.Function, gr *guardResult, only func(*ssa.Function) bool, exclude ...*ssa.Function) {
	p := c.P
	excl := map[*ssa.Function]bool{}
	for _, f := range exclude {
		excl[f] = true
	}
	all := reachable(p.CallGraph(), entries, func(e *callgraph.Edge) bool { return excl[e.Callee.Func] })
	var fns []*ssa.Function
	nProt := 0
	for f := range all {
		if gr != nil {
			// a nil dereference / index panic is recoverable: functions reached
			// only under a recover barrier are protected
			if _, unprot := gr.Unprot[f]; !unprot {
				if isRepoFn(f) {
					nProt++
				}
				continue
			}
		}
		if isRepoFn(f) && !p.isGeneratedFile(p.fnFile(f)) && f.Synthetic == "" {
			if only == nil || only(f) {
				fns = append(fns, f)
			}
		}
	}
	sort.Slice(fns, func(i, j int) bool { return fnName(fns[i]) < fnName(fns[j]) })
	nLook, nIdx := 0, 0
	for _, f := range fns {
		before := nLook + nIdx
		eachInstr(f, func(_ *ssa.BasicBlock, i ssa.Instruction) {
			switch x := i.(type) {
			case *ssa.Lookup:
				if !x.CommaOk && isModelPointer(x.Type()) {
					nLook++
				}
			case *ssa.IndexAddr:
				if _, ok := constInt(x.Index); ok {
					if _, risky := riskySliceSource(x.X); risky {
						nIdx++
					}
				}
			}
		})
		ds := derefsIn(p, f)
		for _, ins := range ignoredFoundFlags(p, f) {
			ds = append(ds, derefFinding{f, ins, "found-flag-ignored", "the found flag returned by " + callName(ins.(*ssa.Call)) + " is never read while the value is used: on a miss the placeholder value is taken for a result"})
		}
		for _, d := range ds {
			key := fmt.Sprintf("%s|%s", fnName(f), d.kind)
			c.Ob(rule, key, p.pos(d.ins.Pos()), Flag, d.what, chainTo(all, f, p)...)
		}
		if ex := nLook + nIdx - before; ex > 0 {
			c.Okf(rule, fnName(f)+"|examined", p.pos(f.Pos()), "%d pointer-valued map look-ups and constant indexings of reference paths/split results examined in this function: %d reported, the others are tested (nil/ok/length) before use or only passed to nil-safe getters", ex, len(ds))
		}
	}
	c.Counts[rule+"_functions_scanned"] = len(fns)
	c.Counts[rule+"_functions_under_barrier_skipped"] = nProt
	c.Counts[rule+"_pointer_map_lookups"] = nLook
	c.Counts[rule+"_const_index_on_reference_paths"] = nIdx
	c.Okf(rule, "scan", "-", "scanned %d reachable repository functions: %d un-tested pointer-valued map look-ups and %d constant indexings of reference paths/split results examined", len(fns), nLook, nIdx)
}

// keyFromSameMap: the look-up key is an element of the map's own key list —
// `for _, k := range sortedKeys(m) { v := m[k] … }` or a key slice filled by
// ranging over the same map — so the look-up cannot miss.
func keyFromSameMap(lk *ssa.Lookup) bool {
	mkey := exprKey(lk.X, 0)
	// the key: a load of an element of some slice
	var slice ssa.Value
	switch k := unspill(lk.Index).(type) {
	case *ssa.UnOp:
		if ia, ok := k.X.(*ssa.IndexAddr); ok {
			slice = ia.X
		}
	case *ssa.Index:
		slice = k.X
	}
	if slice == nil {
		return false
	}
	seen := map[ssa.Value]bool{}
	var ok func(v ssa.Value, d int) bool
	ok = func(v ssa.Value, d int) bool {
		v = unspill(v)
		if v == nil || seen[v] || d > 6 {
			return false
		}
		seen[v] = true
		switch x := v.(type) {
		case *ssa.Call:
			if b, isB := x.Call.Value.(*ssa.Builtin); isB && b.Name() == "append" {
				// keys = append(keys, k) with k the key of a range over the same map
				if len(x.Call.Args) == 2 {
					if sl, isSl := x.Call.Args[1].(*ssa.Slice); isSl {
						if al, isAl := sl.X.(*ssa.Alloc); isAl {
							for _, r := range *al.Referrers() {
								if ia, isIA := r.(*ssa.IndexAddr); isIA {
									for _, r2 := range *ia.Referrers() {
										if st, isSt := r2.(*ssa.Store); isSt && rangeKeyOf(st.Val, mkey) {
											return true
										}
									}
								}
							}
						}
					}
				}
				return false
			}
			// a key-listing helper applied to the same map
			sc := x.Call.StaticCallee()
			if sc == nil || !strings.Contains(strings.ToLower(sc.Name()), "keys") {
				return false
			}
			for _, a := range x.Call.Args {
				if exprKey(a, 0) == mkey {
					return true
				}
				if mi, isMI := a.(*ssa.MakeInterface); isMI && exprKey(mi.X, 0) == mkey {
					return true
				}
			}
		case *ssa.Phi:
			for _, e := range x.Edges {
				if ok(e, d+1) {
					return true
				}
			}
		case *ssa.Slice:
			return ok(x.X, d+1)
		case *ssa.UnOp:
			// the key list of the enclosing function, captured by a closure
			// (a sort.Slice comparator looking the entries up by name)
			if fv, isFV := x.X.(*ssa.FreeVar); isFV && x.Op == token.MUL {
				fn := fv.Parent()
				par := fn.Parent()
				if par == nil {
					return false
				}
				for k, q := range fn.FreeVars {
					if q != fv {
						continue
					}
					res := false
					eachInstr(par, func(_ *ssa.BasicBlock, i ssa.Instruction) {
						mc, isMC := i.(*ssa.MakeClosure)
						if !isMC || mc.Fn != ssa.Value(fn) || k >= len(mc.Bindings) {
							return
						}
						if cell, isAl := mc.Bindings[k].(*ssa.Alloc); isAl && cell.Referrers() != nil {
							for _, r := range *cell.Referrers() {
								if st, isSt := r.(*ssa.Store); isSt && st.Addr == ssa.Value(cell) && ok(st.Val, d+1) {
									res = true
								}
							}
						}
					})
					return res
				}
			}
		}
		return false
	}
	return ok(slice, 0)
}

// normAccessKey makes the access path of a value seen from a closure (captured
// variables, one more dereference) comparable with the same path seen from the
// enclosing function.
func normAccessKey(s string) string {
	return strings.ReplaceAll(strings.ReplaceAll(s, "*", ""), "fv:", "p:")
}

// rangeKeyOf: v is the key extracted from a range over the map with access path mkey.
func rangeKeyOf(v ssa.Value, mkey string) bool {
	ex, ok := v.(*ssa.Extract)
	if !ok || ex.Index != 1 {
		return false
	}
	nx, ok := ex.Tuple.(*ssa.Next)
	if !ok {
		return false
	}
	rg, ok := nx.Iter.(*ssa.Range)
	return ok && (exprKey(rg.X, 0) == mkey || normAccessKey(exprKey(rg.X, 0)) == normAccessKey(mkey))
}

// riskyStringSource: strings whose content is decided by the model: results of
// pkg/sysl getters and string fields of pkg/sysl messages.
func riskyStringSource(v ssa.Value) (string, bool) {
	v = unspill(v)
	switch x := v.(type) {
	case *ssa.Call:
		if sc := x.Call.StaticCallee(); sc != nil {
			if o, ok := sc.Object().(*types.Func); ok && o.Pkg() != nil && o.Pkg().Path() == repoMod+"/pkg/sysl" && strings.HasPrefix(o.Name(), "Get") {
				return objLocalName(o), true
			}
		}
	case *ssa.UnOp:
		if own, fld, _, ok := loadedField(x); ok && own != nil && own.Obj().Pkg() != nil && own.Obj().Pkg().Path() == repoMod+"/pkg/sysl" {
			return own.Obj().Name() + "." + fld, true
		}
	}
	return "", false
}

// nonEmptyTestedBefore: use is dominated by the outcome s != "" of a comparison
// of the same string with the empty constant.
func nonEmptyTestedBefore(f *ssa.Function, s ssa.Value, use ssa.Instruction) bool {
	key := exprKey(s, 0)
	found := false
	eachInstr(f, func(_ *ssa.BasicBlock, i ssa.Instruction) {
		bin, ok := i.(*ssa.BinOp)
		if !ok || (bin.Op != token.EQL && bin.Op != token.NEQ) {
			return
		}
		var other ssa.Value
		if e, ok := constString(bin.X); ok && e == "" {
			other = bin.Y
		} else if e, ok := constString(bin.Y); ok && e == "" {
			other = bin.X
		} else {
			return
		}
		if other != s && exprKey(other, 0) != key {
			return
		}
		for _, br := range branchesOn(bin) {
			ne, eq := br.TrueSucc, br.FalseSucc
			if bin.Op == token.EQL {
				ne, eq = br.FalseSucc, br.TrueSucc
			}
			if (ne == use.Block() || ne.Dominates(use.Block())) && len(ne.Preds) == 1 {
				found = true
			}
			if br.If.Block().Dominates(use.Block()) && !blockReaches(eq, use.Block(), nil) {
				found = true
			}
		}
	})
	return found
}

func callName(v ssa.Value) string {
	if cl, ok := v.(*ssa.Call); ok {
		if o := calleeObj(cl); o != nil {
			return shortObj(o)
		}
		if cl.Call.IsInvoke() {
			return cl.Call.Method.Name()
		}
	}
	return "the call"
}

// usedBeforeErrCheck: ex is a pointer-typed result of a call that also returns
// an error which the function does test against nil; it returns a dereference
// of ex that is not protected by that test (neither dominated by the nil
// outcome, nor placed after an error branch that leaves).
func usedBeforeErrCheck(ex *ssa.Extract) ssa.Instruction {
	call, ok := ex.Tuple.(*ssa.Call)
	if !ok {
		return nil
	}
	if _, isPtr := ex.Type().Underlying().(*types.Pointer); !isPtr {
		if _, isIface := ex.Type().Underlying().(*types.Interface); !isIface {
			return nil
		}
	}
	sig := call.Call.Signature()
	ei := errorResultIndex(sig)
	if ei < 0 || ei == ex.Index || call.Referrers() == nil {
		return nil
	}
	var errv *ssa.Extract
	for _, r := range *call.Referrers() {
		if e2, ok := r.(*ssa.Extract); ok && e2.Index == ei {
			errv = e2
		}
	}
	if errv == nil || errv.Referrers() == nil {
		return nil
	}
	// nil comparisons of the error (directly or through the cell it is stored in)
	type side struct {
		iff       *ssa.If
		nilS, erS *ssa.BasicBlock
	}
	var tests []side
	var scan func(v ssa.Value, d int)
	seen := map[ssa.Value]bool{}
	scan = func(v ssa.Value, d int) {
		if d > 3 || seen[v] || v.Referrers() == nil {
			return
		}
		seen[v] = true
		for _, r := range *v.Referrers() {
			switch y := r.(type) {
			case *ssa.BinOp:
				if (y.Op == token.EQL || y.Op == token.NEQ) && (isNilConst(y.X) || isNilConst(y.Y)) {
					for _, br := range branchesOn(y) {
						n, e := br.TrueSucc, br.FalseSucc
						if y.Op == token.NEQ {
							n, e = br.FalseSucc, br.TrueSucc
						}
						tests = append(tests, side{br.If, n, e})
					}
				}
			case *ssa.Store:
				if y.Val == v {
					if al, ok := y.Addr.(*ssa.Alloc); ok && al.Referrers() != nil {
						for _, r2 := range *al.Referrers() {
							if ld, ok := r2.(*ssa.UnOp); ok && ld.Op == token.MUL {
								scan(ld, d+1)
							}
						}
					}
				}
			case *ssa.Phi:
				scan(y, d+1)
			}
		}
	}
	scan(errv, 0)
	if len(tests) == 0 {
		return nil // the error is not tested here at all: not this rule's business
	}
	if ex.Referrers() == nil {
		return nil
	}
	// the result itself and its copies read back from a local cell (a variable
	// captured by a closure is spilled to one)
	type use struct {
		v ssa.Value
		r ssa.Instruction
	}
	var uses []use
	for _, r := range *ex.Referrers() {
		uses = append(uses, use{ex, r})
		if st, ok := r.(*ssa.Store); ok && st.Val == ssa.Value(ex) {
			if al, ok := st.Addr.(*ssa.Alloc); ok && al.Referrers() != nil {
				for _, r2 := range *al.Referrers() {
					if ld, ok := r2.(*ssa.UnOp); ok && ld.Op == token.MUL && ld.Parent() == ex.Parent() && ld.Referrers() != nil {
						for _, r3 := range *ld.Referrers() {
							uses = append(uses, use{ld, r3})
						}
					}
				}
			}
		}
	}
	for _, us := range uses {
		r, val := us.r, us.v
		deref := false
		switch u := r.(type) {
		case *ssa.FieldAddr:
			deref = u.X == val
		case *ssa.UnOp:
			deref = u.Op == token.MUL && u.X == val
		case ssa.CallInstruction:
			cc := u.Common()
			if _, isDefer := r.(*ssa.Defer); isDefer {
				continue
			}
			if cc.IsInvoke() && cc.Value == val {
				deref = true
			} else if !cc.IsInvoke() && len(cc.Args) > 0 && cc.Args[0] == val && cc.Signature().Recv() != nil {
				if sc := cc.StaticCallee(); sc == nil || !nilSafeMethod(sc) {
					deref = true
				}
			}
		}
		if !deref {
			continue
		}
		ub := r.Block()
		protected := false
		for _, t := range tests {
			if (t.nilS == ub || t.nilS.Dominates(ub)) && len(t.nilS.Preds) == 1 {
				protected = true
			}
			if t.iff.Block().Dominates(ub) && t.iff.Block() != ub && !blockReaches(t.erS, ub, nil) {
				protected = true
			}
		}
		if !protected {
			return r
		}
	}
	return nil
}

// ignoredFoundFlags: calls of repository functions returning (value, bool)
// whose bool is never read while the value is used.
func ignoredFoundFlags(p *Program, f *ssa.Function) []ssa.Instruction {
	var out []ssa.Instruction
	eachInstr(f, func(_ *ssa.BasicBlock, i ssa.Instruction) {
		call, ok := i.(*ssa.Call)
		if !ok {
			return
		}
		sc := call.Call.StaticCallee()
		if sc == nil || !isRepoFn(sc) || sc.Signature.Results().Len() != 2 {
			return
		}
		if b, ok := sc.Signature.Results().At(1).Type().Underlying().(*types.Basic); !ok || b.Kind() != types.Bool {
			return
		}
		// a found flag: the callee has a return with the constant false and one with the constant true
		sawT, sawF := false, false
		for _, b := range sc.Blocks {
			if ret, ok := b.Instrs[len(b.Instrs)-1].(*ssa.Return); ok && len(ret.Results) == 2 {
				if cv, ok := retVal(ret, 1).(*ssa.Const); ok && cv.Value != nil {
					if cv.Value.String() == "true" {
						sawT = true
					} else if cv.Value.String() == "false" {
						sawF = true
					}
				}
			}
		}
		if !sawT || !sawF {
			return
		}
		if call.Referrers() == nil {
			return
		}
		valUsed, okUsed := false, false
		for _, r := range *call.Referrers() {
			if ex, ok := r.(*ssa.Extract); ok && ex.Referrers() != nil && len(*ex.Referrers()) > 0 {
				if ex.Index == 0 {
					valUsed = true
				} else {
					okUsed = true
				}
			}
		}
		if valUsed && !okUsed {
			out = append(out, i)
		}
	})
	return out
}

// boundCompared: some comparison of the bound (the same access path) with a
// constant or a len() dominates the use on the outcome that leads to it.
func boundCompared(f *ssa.Function, bound ssa.Value, use ssa.Instruction) bool {
	key := exprKey(bound, 0)
	found := false
	eachInstr(f, func(_ *ssa.BasicBlock, i ssa.Instruction) {
		bin, ok := i.(*ssa.BinOp)
		if !ok || found {
			return
		}
		switch bin.Op {
		case token.LSS, token.LEQ, token.GTR, token.GEQ:
		default:
			return
		}
		if exprKey(bin.X, 0) != key && exprKey(bin.Y, 0) != key {
			return
		}
		for _, br := range branchesOn(bin) {
			if br.TrueSucc.Dominates(use.Block()) || br.FalseSucc.Dominates(use.Block()) || br.TrueSucc == use.Block() || br.FalseSucc == use.Block() {
				found = true
			}
		}
	})
	return found
}
