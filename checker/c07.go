package main

import (
	"fmt"
	"go/token"
	"go/types"
	"sort"
	"strings"

	"golang.org/x/tools/go/ssa"
)

func init() { register("C07", LoadWhole, checkC07) }

const grammarPkg = repoMod + "/pkg/grammar"

// compileReach: repository functions reachable from the parser entry points
// and the three pbutil encoders.
func compileReach(p *Program) (map[*ssa.Function]reachInfo, []*ssa.Function) {
	entries := parseEntries(p)
	for _, f := range p.RepoFuncs() {
		if fnPkgPath(f) == repoMod+"/pkg/pbutil" && f.Parent() == nil && strings.HasSuffix(p.fnFile(f), "/output.go") {
			entries = append(entries, f)
		}
	}
	return reachable(p.CallGraph(), entries, nil), entries
}

// loadsGlobal: v is read from a package-level variable (through loads, field
// and index selection, phis and conversions — not through calls).
func loadsGlobal(v ssa.Value) (*ssa.Global, bool) {
	var g *ssa.Global
	derives(v, func(x ssa.Value) bool {
		if gl, ok := x.(*ssa.Global); ok {
			g = gl
			return true
		}
		return false
	}, nil)
	return g, g != nil
}

func checkC07(c *Check) {
	p := c.P
	c.Explanation = "C07 (structural clauses): (1) no map iteration reachable from Parser.Parse or the pbutil encoders reaches an order-sensitive effect on the model or the output (R-ORDER, same engine as C19); (2) the generated recogniser constructors are called only from the thread-safe wrappers on the compile path, and each wrapper replaces the Interpreter with a simulator whose ATN, DFA slice and prediction cache are created in that call, none read from a package variable; (3) every NewThreadSafeSyslLexer on the compile path is paired with a deferred DeleteLexerState of the same value on all paths, the state table is the lock-free hashmap and is touched only by its accessor functions; (4) no repository package variable is written by a function reachable from the compile entry points (outside init); (5) a closure started on an errgroup goroutine writes only variables declared inside the spawning loop body or elements indexed by the loop's induction variable; (6) the file table shared by the parallel import fetchers is tested and claimed in one critical section before the file is read, accessed only under its mutex while fetchers run, and the already-claimed branch reads no field that the claiming goroutine still writes (the rules of C05 on the collector). Data-race freedom inside the ANTLR runtime and byte-identity of two runs are not decided."
	c.Assumptions = append(c.Assumptions,
		"github.com/cornelk/hashmap.HashMap is safe for concurrent use (library contract)",
		"writes performed by callees of a goroutine closure on shared state are decided by the lock rule (rule 6, LOCKED-ACCESS) and by rule 4, not by rule 5",
		"antlr.NewDFA / NewATNDeserializer / NewPredictionContextCache return fresh objects")
	arrivalOrder(c, "ARRIVAL-ORDER")
	reach, entries := compileReach(p)
	if len(entries) < 6 {
		c.Undecidedf("ANCHOR", "entries", "-", "compile/encoder entry points not found")
		return
	}
	var fns []*ssa.Function
	for f := range reach {
		if isRepoFn(f) && !p.isGeneratedFile(p.fnFile(f)) {
			fns = append(fns, f)
		}
	}
	sort.Slice(fns, func(i, j int) bool { return fnName(fns[i]) < fnName(fns[j]) })
	c.Counts["compile_path_repo_functions"] = len(fns)
	inReach := map[*ssa.Function]bool{}
	for _, f := range fns {
		inReach[f] = true
		for _, a := range withClosures(f) {
			inReach[a] = true
		}
	}
	// (1) R-ORDER
	e := newOrderEngine(p)
	runOrder(c, "MAP-ORDER", e, func(f *ssa.Function) bool { return inReach[f] })
	nondetSources(c, "NONDET-SOURCE", func(f *ssa.Function) bool { return inReach[f] })

	// (2) recogniser constructors and private simulators
	c07Recognisers(c, reach)
	// (3) lexer state lifetime
	c07LexerState(c, reach)
	// (4) globals
	c07Globals(c, fns)
	// (5) goroutine captures
	c07Captures(c, fns)
	// (7) locks and semaphore tokens on the compile path are given back on every
	// path and not held across a call that can take them again: with a process-wide
	// limiter that would make concurrent compilations wait for each other for ever
	inFns := map[*ssa.Function]bool{}
	for _, f := range fns {
		for _, g := range withClosures(f) {
			inFns[g] = true
		}
	}
	c.Counts["blocking_resources_on_compile_path"] = blockingResources(c, "RESOURCE-PAIR", "HELD-ACROSS-NESTING", inFns)
	c.Counts["goroutines_started_in_loops"] = goroutineLoopVars(c, "GOROUTINE-LOOPVAR", inFns)
	c.Okf("GOROUTINE-LOOPVAR", "scan", "-", "%d compile-path functions scanned for goroutines started in loops: %d found and evaluated", len(inFns), c.Counts["goroutines_started_in_loops"])
	c.Okf("RESOURCE-PAIR", "scan", "-", "%d compile-path functions scanned for locks and semaphore tokens: %d acquisitions found and evaluated", len(inFns), c.Counts["blocking_resources_on_compile_path"])
	c.Okf("HELD-ACROSS-NESTING", "scan", "-", "%d compile-path functions scanned for locks and semaphore tokens: %d acquisitions found and evaluated", len(inFns), c.Counts["blocking_resources_on_compile_path"])
	// (6) the file table shared by the import fetchers of one compilation
	if ic := findImportClosure(c); ic == nil || ic.collector == nil || ic.canon == nil {
		c.Undecidedf("ANCHOR", "import closure", "-", "cannot resolve the retrieved-list type / collector / canonicaliser in pkg/parse: unresolved anchor")
	} else {
		collectorSharing(c, ic)
	}
}

func c07Recognisers(c *Check, reach map[*ssa.Function]reachInfo) {
	p := c.P
	gen := map[string]bool{"NewSyslLexer": true, "NewSyslParser": true}
	nCalls := 0
	var wrappers []*ssa.Function
	for f := range reach {
		if !isRepoFn(f) {
			continue
		}
		eachCall(f, func(cl ssa.CallInstruction) {
			o := calleeObj(cl)
			if o == nil || o.Pkg() == nil || o.Pkg().Path() != grammarPkg || !gen[o.Name()] {
				return
			}
			nCalls++
			isWrapper := fnPkgPath(f) == grammarPkg && !p.isGeneratedFile(p.fnFile(f))
			c.Cond(isWrapper, "RECOGNISER-CTOR", fmt.Sprintf("%s|%s", fnName(f), o.Name()), p.pos(cl.Pos()),
				"generated constructor called from a thread-safe wrapper",
				"the generated constructor (whose simulator shares the package-level ATN/DFA) is called directly on the compile path")
			if isWrapper {
				wrappers = append(wrappers, f)
			}
		})
	}
	c.Counts["generated_ctor_calls_on_compile_path"] = nCalls
	if len(wrappers) < 2 {
		c.Undecidedf("RECOGNISER-CTOR", "wrappers", "-", "expected the lexer and the parser wrapper on the compile path, found %d", len(wrappers))
	}
	sort.Slice(wrappers, func(i, j int) bool { return fnName(wrappers[i]) < fnName(wrappers[j]) })
	for _, w := range wrappers {
		// the store to .Interpreter
		var st *ssa.Store
		eachInstr(w, func(_ *ssa.BasicBlock, i ssa.Instruction) {
			if s, ok := i.(*ssa.Store); ok {
				if _, fld, _, ok := fieldOfAddr(s.Addr); ok && fld == "Interpreter" {
					st = s
				}
			}
		})
		key := fnName(w)
		if st == nil {
			c.Flagf("PRIVATE-SIMULATOR", key+"|Interpreter replaced", p.pos(w.Pos()), "the wrapper does not replace the Interpreter: the instance keeps the simulator built on package-level ATN/DFA tables")
			continue
		}
		// every return is dominated by the store
		okDom := true
		for _, b := range w.Blocks {
			if r, ok := b.Instrs[len(b.Instrs)-1].(*ssa.Return); ok && !instrDominates(st, r) {
				okDom = false
			}
		}
		c.Cond(okDom, "PRIVATE-SIMULATOR", key+"|Interpreter replaced", p.pos(st.Pos()), "Interpreter is replaced on every path before the instance is returned", "some path returns the instance without replacing the Interpreter")
		call, _ := stripValue(st.Val).(*ssa.Call)
		if call == nil || !strings.HasSuffix(objFull(calleeObj(call)), "ATNSimulator") {
			c.Flagf("PRIVATE-SIMULATOR", key+"|simulator built here", p.pos(st.Pos()), "Interpreter is not assigned a simulator constructed in the wrapper")
			continue
		}
		names := []string{"recogniser", "ATN", "DFA table", "prediction cache"}
		for ai, a := range call.Call.Args {
			if ai == 0 {
				continue
			}
			nm := fmt.Sprint(ai)
			if ai < len(names) {
				nm = names[ai]
			}
			g, shared := loadsGlobal(a)
			detail := ""
			if shared {
				detail = fmt.Sprintf("the %s handed to the simulator is read from package variable %s: all instances share (and mutate) it", nm, g.Name())
			}
			c.Cond(!shared, "PRIVATE-SIMULATOR", key+"|"+nm+" is per instance", p.pos(call.Pos()), "the "+nm+" is created in this call", detail)
		}
	}
}

func c07LexerState(c *Check, reach map[*ssa.Function]reachInfo) {
	p := c.P
	n := 0
	for f := range reach {
		if !isRepoFn(f) || p.isGeneratedFile(p.fnFile(f)) {
			continue
		}
		eachInstr(f, func(_ *ssa.BasicBlock, i ssa.Instruction) {
			call, ok := i.(*ssa.Call)
			if !ok || !callIs(call, grammarPkg, "NewThreadSafeSyslLexer") {
				return
			}
			n++
			key := fnName(f) + "|lexer state released"
			var def *ssa.Defer
			eachInstr(f, func(_ *ssa.BasicBlock, j ssa.Instruction) {
				if d, ok := j.(*ssa.Defer); ok && callIs(d, grammarPkg, "DeleteLexerState") && len(d.Call.Args) == 1 && d.Call.Args[0] == ssa.Value(call) {
					def = d
				}
			})
			if def == nil {
				c.Flagf("LEXER-STATE", key, p.pos(call.Pos()), "no `defer DeleteLexerState(lexer)` for the lexer created here: its indentation state stays in the process-global table (leak; a later lexer allocated at the same address inherits it)")
				return
			}
			// no return (and no call that may panic) between creation and the defer
			if _, bad := reachAvoiding(call, func(x ssa.Instruction) bool {
				if isReturn(x) {
					return true
				}
				if _, isCall := x.(*ssa.Call); isCall && x != ssa.Instruction(def) {
					return true
				}
				return false
			}, func(x ssa.Instruction) bool { return x == ssa.Instruction(def) }); bad {
				c.Flagf("LEXER-STATE", key, p.pos(def.Pos()), "the deferred DeleteLexerState is not registered immediately after the lexer is created (a return or a call that may panic comes first)")
				return
			}
			c.Okf("LEXER-STATE", key, p.pos(def.Pos()), "DeleteLexerState is deferred on the same lexer value right after creation")
		})
	}
	c.Counts["threadsafe_lexer_creations_on_compile_path"] = n
	if n == 0 {
		c.Undecidedf("LEXER-STATE", "creations", "-", "no NewThreadSafeSyslLexer call found on the compile path")
	}
	// the state table: type and accessors
	gp := p.SSAPkgs[grammarPkg]
	var table *ssa.Global
	if gp != nil {
		for _, m := range gp.Members {
			if g, ok := m.(*ssa.Global); ok {
				if typeIs(g.Type().(*types.Pointer).Elem(), "github.com/cornelk/hashmap", "HashMap") {
					table = g
				}
			}
		}
	}
	if table == nil {
		c.Flagf("LEXER-STATE", "state table is a concurrent map", "-", "the lexer state table is no longer a github.com/cornelk/hashmap.HashMap package variable: concurrent lexers need a concurrency-safe table")
		return
	}
	c.Okf("LEXER-STATE", "state table is a concurrent map", p.pos(table.Pos()), "lexer states live in %s of type *hashmap.HashMap", table.Name())
	users := map[string]bool{}
	for _, f := range p.RepoFuncs() {
		eachInstr(f, func(_ *ssa.BasicBlock, i ssa.Instruction) {
			for _, op := range i.Operands(nil) {
				if *op == ssa.Value(table) {
					users[fnName(f)] = true
				}
			}
		})
	}
	for _, u := range sortedKeys(users) {
		f := p.FuncByName(u)
		okU := f != nil && (f.Name() == "init" || (len(f.Params) == 1 && typeIs(f.Params[0].Type(), grammarPkg, "SyslLexer")))
		c.Cond(okU, "LEXER-STATE", "table accessed by "+u, p.pos(f.Pos()), "accessor keyed by the lexer instance", "the lexer state table is accessed outside its per-lexer accessors")
	}
}

func c07Globals(c *Check, fns []*ssa.Function) {
	p := c.P
	n := 0
	for _, f := range fns {
		if f.Name() == "init" || strings.HasPrefix(f.Name(), "init#") {
			continue
		}
		for _, g := range withClosures(f) {
			eachInstr(g, func(_ *ssa.BasicBlock, i ssa.Instruction) {
				var addr ssa.Value
				what := ""
				switch x := i.(type) {
				case *ssa.Store:
					addr, what = x.Addr, "store"
				case *ssa.MapUpdate:
					addr, what = x.Map, "map update"
				case ssa.CallInstruction:
					// a mutating method of a sync / sync/atomic container held in a package
					// variable (sync.Map.Store, atomic.Value.Store, sync.Pool.Put, …): a
					// process-wide memo or counter
					o := calleeObj(x)
					if o == nil || o.Pkg() == nil || (o.Pkg().Path() != "sync" && o.Pkg().Path() != "sync/atomic") || len(x.Common().Args) == 0 {
						return
					}
					switch o.Name() {
					case "Store", "LoadOrStore", "Swap", "CompareAndSwap", "Delete", "LoadAndDelete", "CompareAndDelete", "Put", "Add", "And", "Or", "Clear",
						"StoreInt32", "StoreInt64", "StoreUint32", "StoreUint64", "StorePointer", "AddInt32", "AddInt64", "AddUint32", "AddUint64":
						addr, what = x.Common().Args[0], objLocalName(o)
					default:
						return
					}
				default:
					return
				}
				for _, r := range rootsOf(addr) {
					if r.Kind != rGlobal {
						continue
					}
					gl := r.V.(*ssa.Global)
					if gl.Pkg == nil || !isRepoPkg(gl.Pkg.Pkg) {
						continue
					}
					n++
					c.Flagf("SHARED-GLOBAL", fmt.Sprintf("%s|%s %s.%s", fnName(g), what, shortPkg(gl.Pkg.Pkg.Path()), gl.Name()), p.pos(i.Pos()),
						"package variable %s.%s is written on the compile path: concurrent compilations in one process share it", shortPkg(gl.Pkg.Pkg.Path()), gl.Name())
				}
			})
		}
	}
	c.Counts["global_writes_on_compile_path"] = n
	c.Okf("SHARED-GLOBAL", "scan", "-", "%d compile-path functions scanned for writes to repository package variables: %d found", len(fns), n)
}

func c07Captures(c *Check, fns []*ssa.Function) {
	p := c.P
	n := 0
	for _, f := range fns {
		if fnPkgPath(f) != repoMod+"/pkg/parse" {
			continue
		}
		eachInstr(f, func(_ *ssa.BasicBlock, i ssa.Instruction) {
			var mc *ssa.MakeClosure
			switch x := i.(type) {
			case *ssa.Go:
				mc, _ = x.Call.Value.(*ssa.MakeClosure)
			case ssa.CallInstruction:
				if _, ok := isGroupCall(i, "Go"); ok {
					for _, a := range x.Common().Args {
						if m, ok := a.(*ssa.MakeClosure); ok {
							mc = m
						}
					}
				}
			}
			if mc == nil {
				return
			}
			fn := mc.Fn.(*ssa.Function)
			n++
			// loop containing the closure creation
			loop := enclosingLoop(mc.Block())
			bad := ""
			nw := 0
			eachInstr(fn, func(_ *ssa.BasicBlock, j ssa.Instruction) {
				st, ok := j.(*ssa.Store)
				if !ok {
					return
				}
				okW, why := captureWriteOK(st.Addr, fn, mc, loop, 0)
				if why == "local" {
					return
				}
				nw++
				if !okW && bad == "" {
					bad = fmt.Sprintf("store at %s: %s", p.pos(st.Pos()), why)
				}
			})
			// entries filed in a map the goroutines share (a captured map, a map
			// reached through a captured variable): Go maps do not tolerate two
			// writers — unless a lock taken in the closure dominates the update
			eachInstr(fn, func(_ *ssa.BasicBlock, j ssa.Instruction) {
				mu, ok := j.(*ssa.MapUpdate)
				if !ok || loop == nil {
					return
				}
				shared := false
				for _, r := range rootsOf(mu.Map) {
					if r.Kind == rFree || r.Kind == rGlobal {
						shared = true
					}
				}
				if !shared {
					return
				}
				nw++
				locked := false
				eachInstr(fn, func(_ *ssa.BasicBlock, k ssa.Instruction) {
					if cl, ok := k.(ssa.CallInstruction); ok {
						if o := calleeObj(cl); o != nil && o.Pkg() != nil && o.Pkg().Path() == "sync" && (o.Name() == "Lock") && instrDominates(k, mu) {
							locked = true
						}
					}
				})
				if !locked && bad == "" {
					bad = fmt.Sprintf("map update at %s: the map is shared by the goroutines started in this loop and no lock taken in the closure precedes the update (concurrent map writes are a fatal error)", p.pos(mu.Pos()))
				}
			})
			key := fmt.Sprintf("%s|goroutine closure writes", fnName(fn))
			if bad != "" {
				c.Flagf("GOROUTINE-CAPTURE", key, p.pos(mc.Pos()), "a goroutine closure writes shared state without a lock — %s", bad)
			} else {
				c.Okf("GOROUTINE-CAPTURE", key, p.pos(mc.Pos()), "%d writes through captured variables, each to a per-iteration variable or to the element indexed by the loop variable", nw)
			}
		})
	}
	c.Counts["goroutine_closures_on_pipeline"] = n
	if n < 1 {
		c.Undecidedf("GOROUTINE-CAPTURE", "closures", "-", "expected goroutine closures in pkg/parse (the per-file workers), found %d", n)
	}
}

// enclosingLoop returns the blocks of the innermost natural loop containing b.
func enclosingLoop(b *ssa.BasicBlock) map[*ssa.BasicBlock]bool {
	f := b.Parent()
	var best map[*ssa.BasicBlock]bool
	for _, h := range f.Blocks {
		body := map[*ssa.BasicBlock]bool{}
		var stack []*ssa.BasicBlock
		for _, pr := range h.Preds {
			if h.Dominates(pr) {
				if !body[pr] {
					body[pr] = true
					stack = append(stack, pr)
				}
			}
		}
		if len(stack) == 0 {
			continue
		}
		body[h] = true
		for len(stack) > 0 {
			x := stack[len(stack)-1]
			stack = stack[:len(stack)-1]
			if x == h {
				continue
			}
			for _, pr := range x.Preds {
				if !body[pr] {
					body[pr] = true
					stack = append(stack, pr)
				}
			}
		}
		if body[b] && (best == nil || len(body) < len(best)) {
			best = body
		}
	}
	return best
}

// captureWriteOK decides whether a store address inside a goroutine closure
// designates per-iteration storage.
func captureWriteOK(addr ssa.Value, fn *ssa.Function, mc *ssa.MakeClosure, loop map[*ssa.BasicBlock]bool, depth int) (bool, string) {
	if depth > 12 {
		return false, "address chain too deep"
	}
	switch x := addr.(type) {
	case *ssa.Alloc:
		if x.Parent() == fn {
			return true, "local"
		}
		// allocation in the spawning function: fresh per iteration only if inside the loop
		if loop != nil && loop[x.Block()] {
			return true, "variable declared inside the spawning loop body"
		}
		return false, fmt.Sprintf("variable %s is declared outside the spawning loop and shared by all goroutines", x.Comment)
	case *ssa.FieldAddr:
		return captureWriteOK(x.X, fn, mc, loop, depth+1)
	case *ssa.IndexAddr:
		// element selected by the loop's induction variable: disjoint per iteration
		if fwd, _ := inductionForward(x.Index); fwd && loop != nil && loop[x.Block()] {
			return true, "element indexed by the loop variable"
		}
		// inside the goroutine: the index is a per-iteration copy of the loop
		// variable (`i := i` in the loop body, captured by the closure)
		if ld, ok := x.Index.(*ssa.UnOp); ok && ld.Op == token.MUL {
			if fv, ok := ld.X.(*ssa.FreeVar); ok {
				if al, ok := bindingOf(fv, fn, mc).(*ssa.Alloc); ok && loop != nil && loop[al.Block()] && al.Referrers() != nil {
					nStores, fromLoopVar := 0, true
					for _, r := range *al.Referrers() {
						if st, ok := r.(*ssa.Store); ok && st.Addr == ssa.Value(al) {
							nStores++
							if fwd, _ := inductionForward(st.Val); !fwd {
								fromLoopVar = false
							}
						}
					}
					if nStores == 1 && fromLoopVar {
						return true, "element indexed by a per-iteration copy of the loop variable"
					}
				}
			}
		}
		return false, "indexed element not selected by the loop variable"
	case *ssa.UnOp:
		if x.Op == token.MUL {
			// pointer loaded from a cell
			switch y := x.X.(type) {
			case *ssa.FreeVar:
				b := bindingOf(y, fn, mc)
				if b == nil {
					return false, "unresolved captured variable"
				}
				al, ok := b.(*ssa.Alloc)
				if !ok {
					return captureWriteOK(b, fn, mc, loop, depth+1)
				}
				// the cell must be per-iteration and hold a per-iteration pointer
				if loop == nil || !loop[al.Block()] {
					return false, fmt.Sprintf("captured variable %s is declared outside the spawning loop", al.Comment)
				}
				for _, r := range *al.Referrers() {
					if s, ok := r.(*ssa.Store); ok && s.Addr == al {
						return captureWriteOK(s.Val, fn, mc, loop, depth+1)
					}
				}
				return false, "captured pointer has no visible definition"
			case *ssa.Alloc:
				if y.Parent() == fn {
					// local cell in the closure holding a pointer
					for _, r := range *y.Referrers() {
						if s, ok := r.(*ssa.Store); ok && s.Addr == y {
							return captureWriteOK(s.Val, fn, mc, loop, depth+1)
						}
					}
				}
			}
			return captureWriteOK(x.X, fn, mc, loop, depth+1)
		}
	case *ssa.FreeVar:
		b := bindingOf(x, fn, mc)
		if b == nil {
			return false, "unresolved captured variable"
		}
		return captureWriteOK(b, fn, mc, loop, depth+1)
	case *ssa.Call, *ssa.MakeMap, *ssa.MakeSlice:
		if i, ok := addr.(ssa.Instruction); ok && i.Parent() == fn {
			return true, "local"
		}
	case *ssa.Parameter:
		return false, "parameter of the spawning function (shared)"
	case *ssa.Global:
		return false, "package variable " + x.Name()
	}
	return false, fmt.Sprintf("write through %T not recognised as per-iteration storage", addr)
}

func bindingOf(fv *ssa.FreeVar, fn *ssa.Function, mc *ssa.MakeClosure) ssa.Value {
	for i, v := range fn.FreeVars {
		if v == fv && i < len(mc.Bindings) {
			return mc.Bindings[i]
		}
	}
	return nil
}
