package main

import (
	"fmt"
	"go/constant"
	"go/token"
	"go/types"
	"sort"
	"strings"

	"golang.org/x/tools/go/ssa"
)

func init() { register("C03", LoadTyped, checkC03) }

// names found by role on each run (see checkC03)
var c03StateName, c03NlFld, c03SpFld string

func checkC03(c *Check) {
	p := c.P
	c.Explanation = "C03 (structural clauses of the hand-written indentation lexer): (1) every token type whose generated lexer action records a line break (stores true to lexerState.gotNewLine) is in the set of token types the token pump returns unchanged while a line break is pending, and the whole-line comment token returns before indentation is synthesised — otherwise a blank or comment line is measured as indentation; (2) the leading-width function is additive with space = 1 and tab = 4 and nothing else (a necessary condition for uniform re-indentation and tab-for-4-spaces to preserve the order of indent widths); (3) in the synthesis loop every push on the indent stack is paired with an emitted INDENT token and every pop with a DEDENT token. Equality of the models of two layouts is not decided."
	c03LayoutBlind(c)
	walkEveryFile(c, "WALK-EVERY-FILE")
	c.Assumptions = append(c.Assumptions, "the generated lexer (sysl_lexer.go) corresponds to SyslLexer.g4 (ANTLR naming convention <TOKEN>_Action / SyslLexer<TOKEN>)")
	gp := p.SSAPkgs[grammarPkg]
	if gp == nil {
		c.Undecidedf("ANCHOR", "pkg/grammar", "-", "package not found")
		return
	}
	// token constants
	tokConst := map[string]int64{}
	for name, m := range gp.Members {
		if nc, ok := m.(*ssa.NamedConst); ok && strings.HasPrefix(name, "SyslLexer") {
			if v, ok := constant.Int64Val(nc.Value.Value); ok && nc.Value.Value.Kind() == constant.Int {
				tokConst[strings.TrimPrefix(name, "SyslLexer")] = v
			}
		}
	}
	// the token pump: non-generated function calling (*antlr.BaseLexer).NextToken
	var pump *ssa.Function
	for _, f := range p.RepoFuncs() {
		if fnPkgPath(f) != grammarPkg || p.isGeneratedFile(p.fnFile(f)) {
			continue
		}
		eachCall(f, func(cl ssa.CallInstruction) {
			// (directly, or through an interface the raw token source is handed in as)
			if o := calleeObj(cl); o != nil && o.Name() == "NextToken" && o.Pkg() != nil &&
				(strings.HasSuffix(o.Pkg().Path(), "/antlr") || (cl.Common().IsInvoke() && o.Pkg().Path() == grammarPkg)) {
				pump = f
			}
		})
	}
	if pump == nil || len(tokConst) < 50 {
		c.Undecidedf("ANCHOR", "token pump", "-", "token pump (caller of BaseLexer.NextToken) or token constants not found")
		return
	}
	c.Okf("ANCHOR", "token pump="+fnName(pump), p.pos(pump.Pos()), "%d lexer token constants", len(tokConst))
	// the lexer state and its two fields, by role: the struct that holds the
	// indentation stack (a named []int with Push and Pop); the "line break pending"
	// flag is its bool field that the pump (or a helper) resets to false; the width
	// of the current line is its int field that the pump compares with the stack top
	c03StateName, c03NlFld, c03SpFld = "", "", ""
	{
		var pumpFns []*ssa.Function
		for g := range repoReach(p, pump) {
			if fnPkgPath(g) == grammarPkg && !p.isGeneratedFile(p.fnFile(g)) {
				pumpFns = append(pumpFns, g)
			}
		}
		sort.Slice(pumpFns, func(i, j int) bool { return fnName(pumpFns[i]) < fnName(pumpFns[j]) })
		sc := gp.Pkg.Scope()
		for _, n := range sc.Names() {
			tn, ok := sc.Lookup(n).(*types.TypeName)
			if !ok {
				continue
			}
			st, ok := tn.Type().Underlying().(*types.Struct)
			if !ok {
				continue
			}
			for i := 0; i < st.NumFields(); i++ {
				ft := namedOf(st.Field(i).Type())
				if ft == nil {
					continue
				}
				if sl, ok := ft.Underlying().(*types.Slice); !ok || !isIntType(sl.Elem()) {
					continue
				}
				ms := types.NewMethodSet(types.NewPointer(ft))
				if ms.Lookup(gp.Pkg, "Push") != nil && ms.Lookup(gp.Pkg, "Pop") != nil {
					c03StateName = tn.Name()
				}
			}
		}
		for _, g := range pumpFns {
			eachInstr(g, func(_ *ssa.BasicBlock, i ssa.Instruction) {
				switch x := i.(type) {
				case *ssa.Store:
					if own, fld, _, ok := fieldOfAddr(x.Addr); ok && own != nil && own.Obj().Name() == c03StateName && isBoolType(x.Val.Type()) {
						if cv, ok := x.Val.(*ssa.Const); ok && cv.Value != nil && cv.Value.String() == "false" && c03NlFld == "" {
							c03NlFld = fld
						}
					}
				case *ssa.BinOp:
					switch x.Op {
					case token.EQL, token.NEQ, token.GTR, token.LSS, token.GEQ, token.LEQ:
					default:
						return
					}
					for _, pair := range [][2]ssa.Value{{x.X, x.Y}, {x.Y, x.X}} {
						own, fld, _, ok := loadedField(pair[0])
						if !ok || own == nil || own.Obj().Name() != c03StateName || !isIntType(pair[0].Type()) {
							continue
						}
						// compared with the indentation of the innermost open block (the
						// stack top, read directly or kept in a local): not a constant
						if _, isConst := pair[1].(*ssa.Const); !isConst && c03SpFld == "" {
							c03SpFld = fld
						}
					}
				}
			})
		}
	}
	if c03StateName == "" || c03NlFld == "" || c03SpFld == "" {
		c.Undecidedf("ANCHOR", "lexer state", "-", "cannot identify the lexer state struct (holder of the indent stack: %q), its line-break flag (%q) or its line-width field (%q)", c03StateName, c03NlFld, c03SpFld)
		return
	}
	c.Notes = append(c.Notes, fmt.Sprintf("lexer state %s: line-break flag %s, line width %s", c03StateName, c03NlFld, c03SpFld))

	// (1) A: tokens whose action sets gotNewLine
	A := map[string]string{}
	for _, f := range p.RepoFuncs() {
		if fnPkgPath(f) != grammarPkg || !strings.HasSuffix(f.Name(), "_Action") || f.Parent() != nil {
			continue
		}
		eachInstr(f, func(_ *ssa.BasicBlock, i ssa.Instruction) {
			st, ok := i.(*ssa.Store)
			if !ok {
				return
			}
			if own, fld, _, ok := fieldOfAddr(st.Addr); ok && own != nil && own.Obj().Name() == c03StateName && fld == c03NlFld {
				if cv, ok := st.Val.(*ssa.Const); ok && cv.Value != nil && cv.Value.String() == "true" {
					A[strings.TrimSuffix(f.Name(), "_Action")] = p.pos(st.Pos())
				}
			}
		})
	}
	// B: constants compared with GetTokenType() inside the region guarded by gotNewLine == true
	var typeCalls []ssa.Value
	eachCall(pump, func(cl ssa.CallInstruction) {
		if cl.Common().IsInvoke() && cl.Common().Method.Name() == "GetTokenType" {
			if v := cl.Value(); v != nil {
				typeCalls = append(typeCalls, v)
			}
		}
	})
	B := map[int64]bool{}
	var commentIf *ssa.If
	eachInstr(pump, func(b *ssa.BasicBlock, i ssa.Instruction) {
		bin, ok := i.(*ssa.BinOp)
		if !ok || bin.Op != token.EQL {
			return
		}
		isType := false
		for _, tc := range typeCalls {
			if bin.X == tc || bin.Y == tc {
				isType = true
			}
		}
		k, okK := constInt(bin.Y)
		if !okK {
			k, okK = constInt(bin.X)
		}
		if !isType || !okK {
			return
		}
		// the true edge must lead (through empty jumps) to a return of the token itself
		for _, br := range branchesOn(bin) {
			t := br.TrueSucc
			for steps := 0; steps < 12 && len(t.Instrs) == 1; steps++ {
				if j, ok := t.Instrs[0].(*ssa.Jump); ok {
					_ = j
					t = t.Succs[0]
				} else {
					break
				}
			}
			if _, ok := t.Instrs[len(t.Instrs)-1].(*ssa.Return); !ok {
				continue
			}
			if k == tokConst["SYSL_COMMENT"] {
				commentIf = br.If
				continue
			}
			// guarded by gotNewLine?
			if guardedByField(b, c03NlFld) {
				B[k] = true
			}
		}
	})
	// the same set expressed through a predicate helper: `if gotNewLine && isX(next.GetTokenType()) { return next }`
	eachInstr(pump, func(b *ssa.BasicBlock, i ssa.Instruction) {
		call, ok := i.(*ssa.Call)
		if !ok {
			return
		}
		h := staticCallee(call)
		if h == nil || !isRepoFn(h) || len(h.Blocks) == 0 || h.Signature.Results().Len() != 1 || len(call.Call.Args) != 1 {
			return
		}
		if bt, ok := h.Signature.Results().At(0).Type().Underlying().(*types.Basic); !ok || bt.Kind() != types.Bool {
			return
		}
		isType := false
		for _, tc := range typeCalls {
			if call.Call.Args[0] == tc {
				isType = true
			}
		}
		if !isType {
			return
		}
		// its true outcome must lead to the return of the token, under the pending-line-break guard
		leads := false
		for _, br := range branchesOn(call) {
			t := br.TrueSucc
			for steps := 0; steps < 12 && len(t.Instrs) == 1; steps++ {
				if _, ok := t.Instrs[0].(*ssa.Jump); ok {
					t = t.Succs[0]
				} else {
					break
				}
			}
			if _, ok := t.Instrs[len(t.Instrs)-1].(*ssa.Return); ok && (guardedByField(b, c03NlFld) || guardedByField(br.If.Block(), c03NlFld)) {
				leads = true
			}
		}
		if !leads {
			return
		}
		// constants for which the helper returns true
		eachInstr(h, func(_ *ssa.BasicBlock, j ssa.Instruction) {
			bin, ok := j.(*ssa.BinOp)
			if !ok || bin.Op != token.EQL {
				return
			}
			var k int64
			var okK bool
			if bin.X == ssa.Value(h.Params[0]) {
				k, okK = constInt(bin.Y)
			} else if bin.Y == ssa.Value(h.Params[0]) {
				k, okK = constInt(bin.X)
			}
			if !okK {
				return
			}
			for _, br := range branchesOn(bin) {
				t := br.TrueSucc
				for steps := 0; steps < 12 && len(t.Instrs) == 1; steps++ {
					if _, ok := t.Instrs[0].(*ssa.Jump); ok {
						t = t.Succs[0]
					} else {
						break
					}
				}
				if ret, ok := t.Instrs[len(t.Instrs)-1].(*ssa.Return); ok && len(ret.Results) == 1 {
					if cv, ok := retVal(ret, 0).(*ssa.Const); ok && cv.Value != nil && cv.Value.String() == "true" {
						B[k] = true
					}
				}
			}
		})
	})
	names := sortedKeys(A)
	c.Counts["newline_recording_actions"] = len(A)
	c.Counts["bypassed_token_types"] = len(B)
	for _, n := range names {
		v, known := tokConst[n]
		c.Cond(known && B[v], "BYPASS-SET", "token "+n, A[n],
			"token records a line break and is returned unchanged by the token pump while a line break is pending",
			fmt.Sprintf("token %s records a line break (gotNewLine = true) but the token pump does not bypass it: the next blank/comment/continuation line is measured against the indent stack and INDENT/DEDENT tokens are synthesised for it", n))
	}
	if len(A) < 8 {
		c.Undecidedf("BYPASS-SET", "actions", "-", "only %d line-break recording actions found in the generated lexer", len(A))
	}
	// comment bypass precedes synthesis
	var pushes []ssa.Instruction
	isPush := func(sc *ssa.Function) bool {
		return sc != nil && sc.Name() == "Push" && fnPkgPath(sc) == grammarPkg
	}
	eachCall(pump, func(cl ssa.CallInstruction) {
		sc := staticCallee(cl)
		if isPush(sc) {
			pushes = append(pushes, cl)
			return
		}
		// the synthesis may live in a helper of the pump (syncIndent): the call of a
		// helper that can reach a Push is where synthesis starts
		if sc != nil && fnPkgPath(sc) == grammarPkg && !p.isGeneratedFile(p.fnFile(sc)) {
			for g := range repoReach(p, sc) {
				found := false
				eachCall(g, func(c2 ssa.CallInstruction) {
					if isPush(staticCallee(c2)) {
						found = true
					}
				})
				if found {
					pushes = append(pushes, cl)
					break
				}
			}
		}
	})
	okComment := commentIf != nil
	for _, ps := range pushes {
		if commentIf == nil || !commentIf.Block().Dominates(ps.Block()) {
			okComment = false
		}
	}
	cpos := "-"
	if commentIf != nil {
		cpos = p.pos(commentIf.Pos())
	}
	c.Cond(okComment && len(pushes) > 0, "BYPASS-SET", "whole-line comment returns before synthesis", cpos,
		"the SYSL_COMMENT test returns the token and dominates the indentation synthesis",
		"whole-line comment tokens are no longer returned before indentation synthesis: a comment line's width changes the indent stack")

	// (2) additive width
	c03Width(c)
	// (3) stack discipline
	c03Stack(c, pump, tokConst)
}

// guardedByField: block b is dominated by the true successor of a branch on a
// load of the named lexerState field.
func guardedByField(b *ssa.BasicBlock, field string) bool {
	f := b.Parent()
	ok := false
	eachInstr(f, func(_ *ssa.BasicBlock, i ssa.Instruction) {
		ld, isLd := i.(*ssa.UnOp)
		if !isLd || ld.Op != token.MUL {
			return
		}
		if _, fld, _, isF := fieldOfAddr(ld.X); !isF || fld != field {
			return
		}
		for _, br := range branchesOn(ld) {
			if br.TrueSucc == b || br.TrueSucc.Dominates(b) {
				ok = true
			}
		}
	})
	return ok
}

func c03Width(c *Check) {
	p := c.P
	// functions whose result is stored to lexerState.spaces
	widthFns := map[*ssa.Function]bool{}
	for _, f := range p.RepoFuncs() {
		if fnPkgPath(f) != grammarPkg {
			continue
		}
		eachInstr(f, func(_ *ssa.BasicBlock, i ssa.Instruction) {
			st, ok := i.(*ssa.Store)
			if !ok {
				return
			}
			if own, fld, _, ok := fieldOfAddr(st.Addr); ok && own != nil && own.Obj().Name() == c03StateName && fld == c03SpFld {
				if call, ok := st.Val.(*ssa.Call); ok {
					if sc := staticCallee(call); sc != nil && isRepoFn(sc) {
						widthFns[sc] = true
					}
				} else if _, isC := st.Val.(*ssa.Const); !isC {
					c.Flagf("ADDITIVE-WIDTH", fnName(f)+"|spaces assigned", p.pos(st.Pos()), "lexerState.spaces is assigned something other than 0 or the result of the width function")
				}
			}
		})
	}
	if len(widthFns) != 1 {
		c.Undecidedf("ADDITIVE-WIDTH", "width function", "-", "expected exactly one function whose result is stored to lexerState.spaces, found %d", len(widthFns))
		return
	}
	for wf := range widthFns {
		key := fnName(wf)
		incs := map[int64]int64{}
		problems := []string{}
		// the returned value
		var retv ssa.Value
		for _, b := range wf.Blocks {
			if r, ok := b.Instrs[len(b.Instrs)-1].(*ssa.Return); ok && len(r.Results) == 1 {
				retv = r.Results[0]
			}
		}
		if retv == nil {
			c.Undecidedf("ADDITIVE-WIDTH", key, p.pos(wf.Pos()), "no single integer result")
			continue
		}
		seen := map[ssa.Value]bool{}
		var walk func(v ssa.Value)
		walk = func(v ssa.Value) {
			if seen[v] {
				return
			}
			seen[v] = true
			switch x := v.(type) {
			case *ssa.Phi:
				for _, e := range x.Edges {
					walk(e)
				}
			case *ssa.Const:
				if k, ok := constInt(x); !ok || k != 0 {
					problems = append(problems, fmt.Sprintf("accumulator starts from %v, not 0", x.Value))
				}
			case *ssa.BinOp:
				k, isK := constInt(x.Y)
				if x.Op != token.ADD || !isK {
					problems = append(problems, fmt.Sprintf("accumulator updated by `%s` at %s (not `+ constant`): the width is not additive", x.Op, p.pos(x.Pos())))
					return
				}
				// which character selects this increment?
				ch, ok := selectingChar(x.Block())
				if !ok {
					problems = append(problems, fmt.Sprintf("increment +%d at %s is not selected by an equality test of the current character", k, p.pos(x.Pos())))
				} else {
					if old, dup := incs[ch]; dup && old != k {
						problems = append(problems, fmt.Sprintf("character %q has two different widths", rune(ch)))
					}
					incs[ch] = k
				}
				walk(x.X)
			default:
				problems = append(problems, fmt.Sprintf("accumulator defined by %T (%s): form not recognised", v, v.Name()))
			}
		}
		walk(retv)
		if len(problems) > 0 {
			c.Ob("ADDITIVE-WIDTH", key, p.pos(wf.Pos()), Undecided, "the width function is not of the additive form the rule can decide: "+problems[0], problems...)
			continue
		}
		want := map[int64]int64{' ': 1, '\t': 4}
		same := len(incs) == len(want)
		for ch, w := range want {
			if incs[ch] != w {
				same = false
			}
		}
		var got []string
		for ch, w := range incs {
			got = append(got, fmt.Sprintf("%q:%d", rune(ch), w))
		}
		sort.Strings(got)
		c.Cond(same, "ADDITIVE-WIDTH", key, p.pos(wf.Pos()), "width = Σ per-character constants {' ':1, '\\t':4}",
			fmt.Sprintf("per-character widths are {%s}; the language defines space = 1 and tab = 4", strings.Join(got, ", ")))
	}
}

// selectingChar: block b is entered through the true edge of `byte == const`.
func selectingChar(b *ssa.BasicBlock) (int64, bool) {
	for cur := b; cur != nil && len(cur.Preds) == 1; cur = cur.Preds[0] {
		pr := cur.Preds[0]
		iff, ok := pr.Instrs[len(pr.Instrs)-1].(*ssa.If)
		if !ok {
			continue
		}
		if pr.Succs[0] != cur {
			return 0, false
		}
		bin, ok := iff.Cond.(*ssa.BinOp)
		if !ok || bin.Op != token.EQL {
			return 0, false
		}
		if k, ok := constInt(bin.Y); ok {
			if bt, ok := bin.X.Type().Underlying().(*types.Basic); ok && (bt.Kind() == types.Uint8 || bt.Kind() == types.Int32) {
				return k, true
			}
		}
		return 0, false
	}
	return 0, false
}

func c03Stack(c *Check, pump *ssa.Function, tokConst map[string]int64) {
	p := c.P
	// token factories by the constant type they pass to NewCommonToken
	factory := map[*ssa.Function]string{}
	for _, f := range p.RepoFuncs() {
		if fnPkgPath(f) != grammarPkg || p.isGeneratedFile(p.fnFile(f)) {
			continue
		}
		eachCall(f, func(cl ssa.CallInstruction) {
			if o := calleeObj(cl); o != nil && o.Name() == "NewCommonToken" && len(cl.Common().Args) >= 2 {
				if k, ok := constInt(cl.Common().Args[1]); ok {
					switch k {
					case tokConst["INDENT"]:
						factory[f] = "INDENT"
					case tokConst["DEDENT"]:
						factory[f] = "DEDENT"
					}
				}
			}
		})
	}
	n := 0
	// the pump and the hand-written helpers it calls
	var pumpBlocks []*ssa.BasicBlock
	pumpBlocks = append(pumpBlocks, pump.Blocks...)
	for g := range repoReach(p, pump) {
		if g != pump && fnPkgPath(g) == grammarPkg && !p.isGeneratedFile(p.fnFile(g)) {
			pumpBlocks = append(pumpBlocks, g.Blocks...)
		}
	}
	sort.SliceStable(pumpBlocks, func(i, j int) bool {
		if pumpBlocks[i].Parent() != pumpBlocks[j].Parent() {
			return fnName(pumpBlocks[i].Parent()) < fnName(pumpBlocks[j].Parent())
		}
		return pumpBlocks[i].Index < pumpBlocks[j].Index
	})
	for _, b := range pumpBlocks {
		var op string
		var at ssa.Instruction
		emits := map[string]bool{}
		for _, i := range b.Instrs {
			cl, ok := i.(ssa.CallInstruction)
			if !ok {
				continue
			}
			sc := staticCallee(cl)
			if sc == nil {
				continue
			}
			if fnPkgPath(sc) == grammarPkg && (sc.Name() == "Push" || sc.Name() == "Pop") && sc.Signature.Recv() != nil {
				op, at = sc.Name(), i
			}
			if k, ok := factory[sc]; ok {
				emits[k] = true
			}
		}
		if op == "" {
			continue
		}
		n++
		want := map[string]string{"Push": "INDENT", "Pop": "DEDENT"}[op]
		other := map[string]string{"Push": "DEDENT", "Pop": "INDENT"}[op]
		c.Cond(emits[want] && !emits[other], "STACK-DISCIPLINE", fmt.Sprintf("%s|level.%s emits %s", fnName(pump), op, want), p.pos(at.Pos()),
			fmt.Sprintf("every %s on the indent stack queues exactly one %s token in the same branch", op, want),
			fmt.Sprintf("a %s on the indent stack is not paired with a queued %s token in the same branch: blocks open or close without the parser seeing it", op, want))
	}
	if n < 2 {
		c.Undecidedf("STACK-DISCIPLINE", fnName(pump), p.pos(pump.Pos()), "expected a push and a pop branch in the token pump, found %d", n)
	}
}

// c03LayoutBlind: blank lines and comment lines change the line numbers of
// everything after them and nothing else. Line and column numbers of tokens may
// therefore reach only what is allowed to depend on layout: the recorded
// source locations and message text. In pkg/parse every read of a token's line
// or column (GetLine / GetColumn, and the Line/Col fields of a recorded
// location) flows only into a location being built, a formatted message, or
// arithmetic feeding those — never into a comparison that steers the listener,
// and never into listener state.
func c03LayoutBlind(c *Check) {
	p := c.P
	n := 0
	for _, f := range p.RepoFuncs() {
		if fnPkgPath(f) != repoMod+"/"+parsePkg || strings.HasSuffix(p.fnFile(f), "_test.go") || strings.HasSuffix(p.fnFile(f), "/error_listener.go") {
			continue
		}
		eachInstr(f, func(_ *ssa.BasicBlock, i ssa.Instruction) {
			var src ssa.Value
			what := ""
			switch x := i.(type) {
			case *ssa.Call:
				if x.Call.IsInvoke() && (x.Call.Method.Name() == "GetLine" || x.Call.Method.Name() == "GetColumn") {
					src, what = x, x.Call.Method.Name()+"()"
				}
			case *ssa.UnOp:
				if own, fld, _, ok := loadedField(x); ok && own != nil && own.Obj().Name() == "SourceContext_Location" && (fld == "Line" || fld == "Col") {
					src, what = x, "recorded "+fld
				}
			}
			if src == nil {
				return
			}
			n++
			key := fmt.Sprintf("%s|%s feeds only locations and messages", fnName(f), what)
			bad := ""
			seen := map[ssa.Value]bool{}
			var walk func(v ssa.Value, d int)
			walk = func(v ssa.Value, d int) {
				if bad != "" || d > 8 || seen[v] || v.Referrers() == nil {
					return
				}
				seen[v] = true
				for _, r := range *v.Referrers() {
					switch y := r.(type) {
					case *ssa.BinOp:
						switch y.Op {
						case token.EQL, token.NEQ, token.LSS, token.GTR, token.LEQ, token.GEQ:
							bad = "is compared at " + p.pos(y.Pos())
						default:
							walk(y, d+1)
						}
					case *ssa.Convert:
						walk(y, d+1)
					case *ssa.ChangeType:
						walk(y, d+1)
					case *ssa.MakeInterface:
						walk(y, d+1) // formatted into a message
					case *ssa.Phi:
						walk(y, d+1)
					case *ssa.Store:
						own, fld, _, ok := fieldOfAddr(y.Addr)
						switch {
						case ok && own != nil && own.Obj().Name() == "SourceContext_Location":
						case ok && own != nil && (strings.Contains(own.Obj().Name(), "Listener") || strings.Contains(own.Obj().Name(), "listener")):
							bad = "is kept in listener state (" + own.Obj().Name() + "." + fld + ") at " + p.pos(y.Pos())
						}
					case ssa.CallInstruction:
						// handed to the location constructor, a formatter or a logger: fine
					}
				}
			}
			walk(src, 0)
			c.Cond(bad == "", "LAYOUT-BLIND", key, p.pos(i.Pos()),
				"the position is used only to build a location or a message",
				"a token position "+bad+": inserting a blank line or a comment line changes what the listener builds, not only where it says it stands")
		})
	}
	c.Counts["position_reads"] = n
	if n < 3 {
		c.Undecidedf("LAYOUT-BLIND", "pkg/parse", "-", "only %d reads of token positions found: unresolved anchor", n)
	}
}

func isIntType(t types.Type) bool {
	b, ok := t.Underlying().(*types.Basic)
	return ok && b.Info()&types.IsInteger != 0
}
