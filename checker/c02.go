package main

import (
	"fmt"
	"go/token"
	"go/types"
	"os"
	"path/filepath"
	"sort"
	"strings"
	"unicode"

	"golang.org/x/tools/go/ssa"
)

func init() { register("C02", LoadTyped, checkC02) }

// ---- minimal .g4 rule reader ------------------------------------------------------

// g4RuleBody returns the text of rule `name` (between ':' and the terminating ';'),
// with action/predicate blocks removed.
func g4RuleBody(src, name string) (string, bool) {
	lines := strings.Split(src, "\n")
	start := -1
	for i, l := range lines {
		t := strings.TrimSpace(l)
		if strings.HasPrefix(t, name) {
			rest := strings.TrimSpace(strings.TrimPrefix(t, name))
			if strings.HasPrefix(rest, ":") {
				start = i
				break
			}
		}
	}
	if start < 0 {
		return "", false
	}
	text := strings.Join(lines[start:], "\n")
	text = text[strings.Index(text, ":")+1:]
	var out strings.Builder
	depth := 0
	inQ := false
	for i := 0; i < len(text); i++ {
		ch := text[i]
		if inQ {
			out.WriteByte(ch)
			if ch == '\\' && i+1 < len(text) {
				i++
				out.WriteByte(text[i])
				continue
			}
			if ch == '\'' {
				inQ = false
			}
			continue
		}
		switch {
		case ch == '\'' && depth == 0:
			inQ = true
			out.WriteByte(ch)
		case ch == '{':
			depth++
		case ch == '}':
			depth--
			// a predicate's trailing '?'
			if depth == 0 && i+1 < len(text) && text[i+1] == '?' {
				i++
			}
		case depth > 0:
		case ch == ';':
			return out.String(), true
		default:
			out.WriteByte(ch)
		}
	}
	return "", false
}

// g4Words enumerates the literal strings a (simple) lexer rule body matches:
// alternatives of sequences of quoted literals, single-letter case-insensitive
// fragments (I N T), parenthesised groups and '?'. ok=false if the body uses
// anything else (character classes are allowed only as trailing whitespace).
func g4Words(body string) (words []string, ok bool) {
	pos := 0
	var parseAlt func() ([]string, bool)
	skip := func() {
		for pos < len(body) && unicode.IsSpace(rune(body[pos])) {
			pos++
		}
	}
	parseSeq := func() ([]string, bool) {
		acc := []string{""}
		for {
			skip()
			if pos >= len(body) || body[pos] == '|' || body[pos] == ')' {
				return acc, true
			}
			var item []string
			switch ch := body[pos]; {
			case ch == '\'':
				j := pos + 1
				var sb strings.Builder
				for j < len(body) && body[j] != '\'' {
					if body[j] == '\\' && j+1 < len(body) {
						j++
					}
					sb.WriteByte(body[j])
					j++
				}
				pos = j + 1
				item = []string{sb.String()}
			case ch == '(':
				pos++
				sub, ok := parseAlt()
				if !ok {
					return nil, false
				}
				skip()
				if pos >= len(body) || body[pos] != ')' {
					return nil, false
				}
				pos++
				item = sub
			case ch == '[':
				// character class: only accepted as optional trailing whitespace ([ \t]*)
				j := strings.IndexByte(body[pos:], ']')
				if j < 0 {
					return nil, false
				}
				pos += j + 1
				skip()
				if pos < len(body) && (body[pos] == '*' || body[pos] == '?') {
					pos++
					item = []string{""}
				} else {
					return nil, false
				}
			case unicode.IsUpper(rune(ch)):
				j := pos
				for j < len(body) && (unicode.IsLetter(rune(body[j])) || body[j] == '_' || unicode.IsDigit(rune(body[j]))) {
					j++
				}
				id := body[pos:j]
				pos = j
				if len(id) != 1 {
					return nil, false // reference to another rule: not a literal word
				}
				item = []string{id}
			default:
				return nil, false
			}
			skip()
			if pos < len(body) && body[pos] == '?' {
				pos++
				item = append(item, "")
			}
			var next []string
			for _, a := range acc {
				for _, b := range item {
					next = append(next, a+b)
				}
			}
			acc = next
		}
	}
	parseAlt = func() ([]string, bool) {
		var all []string
		for {
			s, ok := parseSeq()
			if !ok {
				return nil, false
			}
			all = append(all, s...)
			skip()
			if pos < len(body) && body[pos] == '|' {
				pos++
				continue
			}
			return all, true
		}
	}
	w, ok := parseAlt()
	skip()
	if !ok || pos != len(body) {
		return nil, false
	}
	seen := map[string]bool{}
	for _, x := range w {
		if !seen[x] {
			seen[x] = true
			words = append(words, x)
		}
	}
	sort.Strings(words)
	return words, true
}

// ---- folded tables ------------------------------------------------------------------

// mapLiteralKeys folds the string keys (and int values) of a map built by a
// composite literal and stored to global g (package initialiser) or to field
// `field` inside function f.
func mapLiteralKeysOfGlobal(p *Program, pkgPath, name string) (map[string]int64, bool) {
	sp := p.SSAPkgs[pkgPath]
	if sp == nil {
		return nil, false
	}
	g, _ := sp.Members[name].(*ssa.Global)
	if g == nil {
		return nil, false
	}
	out := map[string]int64{}
	found := false
	eachInstr(sp.Func("init"), func(_ *ssa.BasicBlock, i ssa.Instruction) {
		st, ok := i.(*ssa.Store)
		if !ok || st.Addr != ssa.Value(g) {
			return
		}
		mm, ok := st.Val.(*ssa.MakeMap)
		if !ok {
			return
		}
		found = true
		for _, r := range *mm.Referrers() {
			if mu, ok := r.(*ssa.MapUpdate); ok {
				if k, ok := constString(mu.Key); ok {
					v, _ := constInt(mu.Value)
					out[k] = v
				}
			}
		}
	})
	return out, found
}

func checkC02(c *Check) {
	p := c.P
	c.Explanation = "C02 (thin structural clauses): agreement between what the grammar accepts and what the listener's tables map — every built-in type word of the lexer rules NativeDataTypes/E_NativeDataTypes is mapped by the primitive-mapping function to a primitive other than NO_Primitive; every comparison operator literal accepted for e_compare_ops is a key of the listener's operator table; every HTTP verb the lexer accepts is a key of the REST method enum; every statement-scope kind pushed on the scope stack has a case in each function that type-switches on the scope stack; integer literals are parsed with 64 (or native) bits and never narrowed below 32 bits on the way to the model. Grammar facts are read from the .g4 sources with a small tokenizer. Says nothing about the values the model contains."
	c.Assumptions = append(c.Assumptions, "the generated lexer/parser were produced from the .g4 files in pkg/grammar")
	read := func(name string) string {
		b, err := os.ReadFile(filepath.Join(p.Root, "pkg/grammar", name))
		if err != nil {
			return ""
		}
		return string(b)
	}
	lexer := read("SyslLexer.g4")
	if lexer == "" {
		c.Undecidedf("ANCHOR", "SyslLexer.g4", "-", "grammar source not readable")
		return
	}
	words := func(rule string) ([]string, bool) {
		body, ok := g4RuleBody(lexer, rule)
		if !ok {
			return nil, false
		}
		return g4Words(body)
	}
	c02OptionalMarker(c)
	// post-processing applies declared attributes to every matching statement: a
	// short-circuited `applied = applied || apply(…)` in a loop leaves the later
	// ones out
	ppFns := map[*ssa.Function]bool{}
	for _, f := range p.RepoFuncs() {
		if fnPkgPath(f) == repoMod+"/"+parsePkg && !strings.HasSuffix(p.fnFile(f), "_test.go") {
			ppFns[f] = true
		}
	}
	nSk := skippedEffects(c, "SKIPPED-EFFECT", ppFns)
	walkEveryFile(c, "WALK-EVERY-FILE")
	c.Counts["short_circuited_calls_in_loops"] = nSk
	c.Okf("SKIPPED-EFFECT", "scan", "-", "%d functions of pkg/parse scanned for `flag = flag || f(x)` in loops: %d found and evaluated", len(ppFns), nSk)
	c02Native(c, words)
	c02Ops(c, words)
	c02Verbs(c, words)
	c02Scopes(c)
	c02Widths(c)
}

func c02Native(c *Check, words func(string) ([]string, bool)) {
	p := c.P
	prim, ok := mapLiteralKeysOfGlobal(p, syslPkg, "Type_Primitive_value")
	if !ok || len(prim) < 8 {
		c.Undecidedf("NATIVE-TYPES", "Type_Primitive_value", "-", "cannot fold the primitive enum table")
		return
	}
	// the mapping function: pkg/parse function returning *sysl.Type_Primitive_
	var mf *ssa.Function
	for _, f := range p.RepoFuncs() {
		if fnPkgPath(f) == repoMod+"/pkg/parse" && f.Parent() == nil && f.Signature.Results().Len() >= 1 && typeIs(f.Signature.Results().At(0).Type(), syslPkg, "Type_Primitive_") {
			mf = f
		}
	}
	if mf == nil {
		c.Undecidedf("NATIVE-TYPES", "mapping function", "-", "no pkg/parse function returns *sysl.Type_Primitive_: unresolved anchor")
		return
	}
	// does it consult the enum table with the upper-cased text, and which extra words does it switch on
	usesTable, upper := false, false
	cases := map[string]bool{}
	eachInstr(mf, func(_ *ssa.BasicBlock, i ssa.Instruction) {
		switch x := i.(type) {
		case *ssa.Lookup:
			if g, ok := loadsGlobal(x.X); ok && g.Name() == "Type_Primitive_value" {
				usesTable = true
			} else if ok && g.Pkg != nil && isRepoPkg(g.Pkg.Pkg) {
				// a table of the package keyed by the type word (the sized natives)
				if keys, found := mapLiteralKeysOfGlobal(p, g.Pkg.Pkg.Path(), g.Name()); found {
					for k := range keys {
						cases[k] = true
					}
				}
			}
		case *ssa.Call:
			if callIs(x, "strings", "ToUpper") {
				upper = true
			}
		case *ssa.BinOp:
			if x.Op == token.EQL {
				if s, ok := constString(x.Y); ok {
					cases[s] = true
				}
			}
		}
	})
	for _, rule := range []string{"NativeDataTypes", "E_NativeDataTypes"} {
		ws, ok := words(rule)
		if !ok || len(ws) < 8 {
			c.Undecidedf("NATIVE-TYPES", "lexer rule "+rule, "-", "cannot enumerate the alternatives of lexer rule %s", rule)
			continue
		}
		for _, w := range ws {
			key := fmt.Sprintf("%s %s", rule, w)
			u := w
			if upper {
				u = strings.ToUpper(w)
			}
			v, inTable := prim[u]
			good := (usesTable && inTable && v != 0) || cases[u]
			c.Cond(good, "NATIVE-TYPES", key, p.pos(mf.Pos()),
				fmt.Sprintf("built-in type word %s maps to a primitive (enum entry or explicit case of %s)", w, mf.Name()),
				fmt.Sprintf("the lexer accepts the built-in type word %s but %s maps it to NO_Primitive: a field of that type compiles to a typeless primitive", w, mf.Name()))
		}
	}
}

func c02Ops(c *Check, words func(string) ([]string, bool)) {
	p := c.P
	// operator table, found by role: a map literal from string to the model's
	// binary-operator enum, or a function from a string to that enum that compares
	// its argument with string constants; the one that knows "==" is the table of
	// the comparison operators
	isOpEnum := func(t types.Type) bool {
		n := namedOf(t)
		return n != nil && n.Obj().Name() == "Expr_BinExpr_Op"
	}
	keys := map[string]bool{}
	var at token.Pos
	for _, f := range p.RepoFuncs() {
		if fnPkgPath(f) != repoMod+"/pkg/parse" {
			continue
		}
		local := map[string]bool{}
		var localAt token.Pos
		eachInstr(f, func(_ *ssa.BasicBlock, i ssa.Instruction) {
			switch x := i.(type) {
			case *ssa.MakeMap:
				m, ok := x.Type().Underlying().(*types.Map)
				if !ok || !isStringType(m.Key()) || !isOpEnum(m.Elem()) || x.Referrers() == nil {
					return
				}
				cand := map[string]bool{}
				for _, r := range *x.Referrers() {
					if mu, ok := r.(*ssa.MapUpdate); ok {
						if k, ok := constString(mu.Key); ok {
							cand[k] = true
						}
					}
				}
				if cand["=="] {
					keys, at = cand, x.Pos()
				}
			case *ssa.BinOp:
				if x.Op != token.EQL || f.Signature.Results().Len() != 1 || !isOpEnum(f.Signature.Results().At(0).Type()) {
					return
				}
				for _, pair := range [][2]ssa.Value{{x.X, x.Y}, {x.Y, x.X}} {
					if k, ok := constString(pair[1]); ok {
						if _, isParam := pair[0].(*ssa.Parameter); isParam {
							local[k] = true
							if localAt == token.NoPos {
								localAt = x.Pos()
							}
						}
					}
				}
			}
		})
		if local["=="] && len(keys) == 0 {
			keys, at = local, localAt
		}
	}
	if len(keys) == 0 {
		c.Undecidedf("COMPARE-OPS", "operator table", "-", "the listener's table of comparison operators (string → Expr_BinExpr_Op) could not be found or folded")
		return
	}
	for _, rule := range []string{"E_REL", "E_ANGLE_OPEN", "E_ANGLE_CLOSE", "E_DOUBLE_EQ"} {
		ws, ok := words(rule)
		if !ok {
			c.Undecidedf("COMPARE-OPS", "lexer rule "+rule, "-", "cannot enumerate the literals of %s", rule)
			continue
		}
		for _, w := range ws {
			c.Cond(keys[w], "COMPARE-OPS", fmt.Sprintf("%s %q", rule, w), p.pos(at),
				"operator literal has an entry in the listener's operator table",
				fmt.Sprintf("the grammar accepts the comparison operator %q but the listener's operator table has no entry for it: the expression compiles with operator 0 (NO_Op)", w))
		}
	}
}

func c02Verbs(c *Check, words func(string) ([]string, bool)) {
	p := c.P
	methods, ok := mapLiteralKeysOfGlobal(p, syslPkg, "Endpoint_RestParams_Method_value")
	if !ok {
		c.Undecidedf("HTTP-VERBS", "method enum", "-", "cannot fold Endpoint_RestParams_Method_value")
		return
	}
	ws, ok := words("HTTP_VERBS")
	if !ok || len(ws) < 4 {
		c.Undecidedf("HTTP-VERBS", "lexer rule HTTP_VERBS", "-", "cannot enumerate the verbs of the lexer rule")
		return
	}
	for _, w := range ws {
		v, in := methods[w]
		c.Cond(in && v != 0, "HTTP-VERBS", "verb "+w, "pkg/grammar/SyslLexer.g4",
			"verb maps to a REST method enum value",
			fmt.Sprintf("the lexer accepts the HTTP verb %s but the REST method enum has no value named %s: the endpoint compiles with method 0 (NO_Method)", w, w))
	}
}

// c02Scopes: every type pushed on the statement-scope stack has a case in
// every function that type-switches on the stack's elements.
func c02Scopes(c *Check) {
	p := c.P
	pushed := map[string]string{}
	// the scope stack and its push function, by role: a function of pkg/parse that
	// appends its interface-typed parameter to a slice-of-interface field of the listener
	var push *ssa.Function
	scopeFld := ""
	for _, f := range p.RepoFuncs() {
		if fnPkgPath(f) != repoMod+"/pkg/parse" || f.Parent() != nil || strings.HasSuffix(p.fnFile(f), "_test.go") {
			continue
		}
		eachInstr(f, func(_ *ssa.BasicBlock, i ssa.Instruction) {
			st, ok := i.(*ssa.Store)
			if !ok || push != nil {
				return
			}
			own, fld, _, ok := fieldOfAddr(st.Addr)
			// (a field of the listener, or of a stack type of the package the listener holds)
			if !ok || own == nil || own.Obj().Pkg() == nil || own.Obj().Pkg().Path() != repoMod+"/pkg/parse" {
				return
			}
			sl, ok := st.Addr.Type().Underlying().(*types.Pointer).Elem().Underlying().(*types.Slice)
			if !ok {
				return
			}
			if _, isIface := sl.Elem().Underlying().(*types.Interface); !isIface {
				return
			}
			ap := appendCall(st.Val)
			if ap == nil {
				return
			}
			// the appended element is a parameter of f
			if derives(ap.Common().Args[1], func(v ssa.Value) bool {
				prm, ok := v.(*ssa.Parameter)
				if !ok {
					return false
				}
				_, isIface := prm.Type().Underlying().(*types.Interface)
				return isIface
			}, nil) {
				push, scopeFld = f, fld
			}
		})
	}
	if push == nil {
		c.Undecidedf("SCOPE-KINDS", "pushScope", "-", "scope push function not found")
		return
	}
	for _, f := range p.RepoFuncs() {
		if fnPkgPath(f) != repoMod+"/pkg/parse" {
			continue
		}
		eachCall(f, func(cl ssa.CallInstruction) {
			if staticCallee(cl) != push {
				return
			}
			for _, a := range cl.Common().Args[1:] {
				if mi, ok := a.(*ssa.MakeInterface); ok {
					pushed[types.TypeString(mi.X.Type(), shortQual)] = p.pos(cl.Pos())
				} else {
					pushed["<"+a.Type().String()+">"] = p.pos(cl.Pos())
				}
			}
		})
	}
	// statement-bearing kinds: pushed pointer-to-struct types with a Stmt field
	stmtBearing := map[string]bool{}
	for _, f := range p.RepoFuncs() {
		if fnPkgPath(f) != repoMod+"/pkg/parse" {
			continue
		}
		eachCall(f, func(cl ssa.CallInstruction) {
			if staticCallee(cl) != push {
				return
			}
			for _, a := range cl.Common().Args[1:] {
				if mi, ok := a.(*ssa.MakeInterface); ok {
					if n := namedOf(mi.X.Type()); n != nil && hasField(n, "Stmt") {
						stmtBearing[types.TypeString(mi.X.Type(), shortQual)] = true
					}
				}
			}
		})
	}
	// consumers: functions with ≥2 TypeAsserts on a value loaded from the stmt_scope slice
	n := 0
	for _, f := range p.RepoFuncs() {
		if fnPkgPath(f) != repoMod+"/pkg/parse" {
			continue
		}
		asserted := map[string]bool{}
		eachInstr(f, func(_ *ssa.BasicBlock, i ssa.Instruction) {
			ta, ok := i.(*ssa.TypeAssert)
			if !ok {
				return
			}
			if derives(ta.X, func(v ssa.Value) bool {
				_, fld, _, ok := loadedField(v)
				if ok && fld == scopeFld {
					return true
				}
				// through an accessor of the stack (peekScope)
				if call, isC := v.(*ssa.Call); isC {
					if sc := staticCallee(call); sc != nil && isRepoFn(sc) && len(call.Call.Args) == 1 {
						hit := false
						eachInstr(sc, func(_ *ssa.BasicBlock, j ssa.Instruction) {
							if fa, ok := j.(*ssa.FieldAddr); ok {
								if _, f2, _, ok := fieldOfAddr(fa); ok && f2 == scopeFld {
									hit = true
								}
							}
						})
						return hit
					}
				}
				return false
			}, nil) {
				asserted[types.TypeString(ta.AssertedType, shortQual)] = true
			}
		})
		if len(asserted) < 2 {
			continue
		}
		n++
		// a consumer that appends to / reads .Stmt only needs the statement-bearing kinds
		stmtOnly := false
		eachInstr(f, func(_ *ssa.BasicBlock, i ssa.Instruction) {
			if fa, ok := i.(*ssa.FieldAddr); ok {
				if _, fld, _, ok := fieldOfAddr(fa); ok && fld == "Stmt" {
					stmtOnly = true
				}
			}
		})
		for _, t := range sortedKeys(pushed) {
			if stmtOnly && !stmtBearing[t] {
				continue
			}
			if !stmtOnly && stmtBearing[t] && !asserted[t] {
				continue // attribute consumers need only attribute-bearing scopes; not decided here
			}
			if !stmtOnly {
				continue
			}
			c.Cond(asserted[t], "SCOPE-KINDS", fmt.Sprintf("%s|case %s", fnName(f), t), pushed[t],
				"scope kind pushed by the listener has a case in this scope-stack consumer",
				fmt.Sprintf("values of type %s are pushed on the statement-scope stack but %s has no case for them: statements inside such a block are dropped or the listener panics", t, f.Name()))
		}
	}
	c.Counts["scope_kinds_pushed"] = len(pushed)
	c.Counts["scope_stack_consumers"] = n
	c.Counts["statement_bearing_scope_kinds"] = len(stmtBearing)
	if n < 2 || len(stmtBearing) < 5 {
		c.Undecidedf("SCOPE-KINDS", "consumers", "-", "expected ≥2 scope-stack consumers and ≥5 statement-bearing kinds, found %d/%d", n, len(stmtBearing))
	}
}

func c02Widths(c *Check) {
	p := c.P
	n := 0
	for _, f := range p.RepoFuncs() {
		if !isListenerCode(p, f) {
			continue
		}
		eachInstr(f, func(_ *ssa.BasicBlock, i ssa.Instruction) {
			call, ok := i.(*ssa.Call)
			if !ok || !(callIs(call, "strconv", "ParseInt") || callIs(call, "strconv", "ParseUint")) {
				return
			}
			n++
			bits, isK := constInt(call.Call.Args[2])
			key := fmt.Sprintf("%s|ParseInt width", fnName(f))
			c.Cond(isK && (bits == 0 || bits == 64), "LITERAL-WIDTH", key, p.pos(call.Pos()),
				fmt.Sprintf("integer literal parsed with bitSize %d", bits),
				fmt.Sprintf("integer literal parsed with bitSize %d: values the language allows are rejected or truncated", bits))
			// narrowing conversions of the parsed value
			var val ssa.Value
			for _, r := range *call.Referrers() {
				if ex, ok := r.(*ssa.Extract); ok && ex.Index == 0 {
					val = ex
				}
			}
			if val == nil {
				return
			}
			seen := map[ssa.Value]bool{}
			var walk func(v ssa.Value)
			walk = func(v ssa.Value) {
				if seen[v] || v.Referrers() == nil {
					return
				}
				seen[v] = true
				for _, r := range *v.Referrers() {
					switch x := r.(type) {
					case *ssa.Convert:
						if bt, ok := x.Type().Underlying().(*types.Basic); ok && bt.Info()&types.IsInteger != 0 {
							sz := p.Repo[0].TypesSizes.Sizeof(bt)
							if sz < 4 {
								c.Flagf("LITERAL-WIDTH", fmt.Sprintf("%s|narrowing to %s", fnName(f), bt.Name()), p.pos(x.Pos()),
									"a parsed integer literal is converted to %s (%d bits) on its way to the model", bt.Name(), sz*8)
							}
						}
						walk(x)
					case *ssa.Phi:
						walk(x)
					case *ssa.Store:
						if al, ok := x.Addr.(*ssa.Alloc); ok {
							for _, r2 := range *al.Referrers() {
								if ld, ok := r2.(*ssa.UnOp); ok && ld.Op == token.MUL {
									walk(ld)
								}
							}
						}
					}
				}
			}
			walk(val)
		})
	}
	c.Counts["integer_literal_parses"] = n
	if n < 5 {
		c.Undecidedf("LITERAL-WIDTH", "parses", "-", "only %d ParseInt/ParseUint calls found in the listener", n)
	}
}

// c02OptionalMarker: a callback whose grammar rule has an optional marker
// (`?`: the context accessor QN / E_QN) and that builds a type must consult the
// marker whatever kind of type it built: every path from an allocation of a
// sysl.Type in the callback to a return passes the marker test. A test that
// sits in one arm of the switch over the kinds of type leaves the types built in
// the other arms without their optional flag.
func c02OptionalMarker(c *Check) {
	p := c.P
	n := 0
	for _, f := range p.RepoFuncs() {
		if f.Parent() != nil || !isListenerCode(p, f) {
			continue
		}
		var tests []ssa.Instruction
		eachCall(f, func(cl ssa.CallInstruction) {
			cc := cl.Common()
			name := ""
			if cc.IsInvoke() {
				name = cc.Method.Name()
			} else if o := calleeObj(cl); o != nil {
				name = o.Name()
			}
			if name == "QN" || name == "E_QN" {
				tests = append(tests, cl)
			}
		})
		if len(tests) == 0 {
			continue
		}
		var allocs []ssa.Instruction
		eachInstr(f, func(_ *ssa.BasicBlock, i ssa.Instruction) {
			if al, ok := i.(*ssa.Alloc); ok && al.Heap && typeIs(al.Type().(*types.Pointer).Elem(), syslPkg, "Type") {
				allocs = append(allocs, i)
			}
		})
		if len(allocs) == 0 {
			continue
		}
		n++
		key := fnName(f) + "|optional marker consulted for every kind of type"
		isTest := func(i ssa.Instruction) bool {
			for _, t := range tests {
				if t == i {
					return true
				}
			}
			return false
		}
		bad := ""
		for _, al := range allocs {
			// allocations made after the test (on the marker's own branch) are fine
			after := false
			for _, t := range tests {
				if canReach(t, al, nil) && !canReach(al, t, nil) {
					after = true
				}
			}
			if after {
				continue
			}
			if ret, escapes := reachAvoiding(al, isReturn, isTest); escapes {
				bad = fmt.Sprintf("the type built at %s reaches the return at %s without the marker test", p.pos(al.Pos()), p.pos(ret.Pos()))
			}
		}
		c.Cond(bad == "", "OPTIONAL-MARKER", key, p.pos(tests[0].Pos()),
			"every type the callback builds passes the `?` test before the callback returns",
			"the `?` marker is not consulted for every kind of type the callback builds ("+bad+"): such a declaration loses its optional flag")
	}
	c.Counts["callbacks_with_optional_marker"] = n
	if n < 3 {
		c.Undecidedf("OPTIONAL-MARKER", "callbacks", "-", "only %d callbacks that build a type and have an optional marker found: unresolved anchor", n)
	}
}
