package main

import (
	"fmt"
	"go/constant"
	"go/token"
	"go/types"
	"os"
	"path/filepath"
	"sort"
	"strings"

	"golang.org/x/tools/go/callgraph"
	"golang.org/x/tools/go/ssa"
)

func init() {
	register("C11", LoadWhole, checkC11)
	register("C12", LoadWhole, checkC12)
}

const importerPkg = repoMod + "/pkg/importer"

func checkC11(c *Check) {
	p := c.P
	c.Explanation = "C11 (thin structural clauses, Go importers only): re-running an import gives identical text — no map iteration reachable from the Load methods of the Go importers (OpenAPI 2, OpenAPI 3 legacy path, XSD, Avro, grammar) and the Sysl text writer reaches ordered output unsorted (R-ORDER); an import returns or errors — explicit panics, process exits, unchecked look-ups and unguarded recursion reachable from those entries are reported (R-GUARD/R-DEREF/R-REC); the text writer's sink is a *bytes.Buffer at every construction site (so its exit-on-write-error cannot fire); the type-name escaping rule consults the same built-in type list whose entries cover every NativeDataTypes word of the lexer. The bundled arr.ai importers (OpenAPI 3 new path, SQL, protobuf) are not Go and are not analysed."
	c.Assumptions = append(c.Assumptions, "the arr.ai bundles (.arraiz) are opaque to every rule")
	var entries []*ssa.Function
	for _, f := range p.RepoFuncs() {
		if fnPkgPath(f) != importerPkg || f.Parent() != nil || f.Signature.Recv() == nil {
			continue
		}
		if f.Name() == "Load" || f.Name() == "LoadFile" {
			entries = append(entries, f)
		}
	}
	sort.Slice(entries, func(i, j int) bool { return fnName(entries[i]) < fnName(entries[j]) })
	if len(entries) < 6 {
		c.Undecidedf("ANCHOR", "importer Load methods", "-", "only %d Load/LoadFile methods found in pkg/importer", len(entries))
		return
	}
	runGenEngines(c, genOpts{entries: entries, order: true, guard: true, deref: true, rec: true, modelRO: true})
	// sink is a buffer
	var nw *ssa.Function
	for _, f := range p.RepoFuncs() {
		if fnPkgPath(f) == importerPkg && f.Name() == "newWriter" {
			nw = f
		}
	}
	if nw == nil {
		// by role: the constructor of the text writer — a function of the package
		// whose first parameter is an io.Writer and whose result is a type of the package
		for _, f := range p.RepoFuncs() {
			if fnPkgPath(f) != importerPkg || f.Parent() != nil || f.Signature.Recv() != nil || f.Signature.Params().Len() == 0 || f.Signature.Results().Len() != 1 {
				continue
			}
			if !typeIs(f.Signature.Params().At(0).Type(), "io", "Writer") {
				continue
			}
			if rn := namedOf(f.Signature.Results().At(0).Type()); rn != nil && rn.Obj().Pkg() != nil && rn.Obj().Pkg().Path() == importerPkg {
				nw = f
			}
		}
	}
	n := 0
	if nw != nil {
		for _, f := range p.RepoFuncs() {
			eachCall(f, func(cl ssa.CallInstruction) {
				if staticCallee(cl) != nw {
					return
				}
				n++
				arg := stripValue(cl.Common().Args[0])
				isBuf := typeIs(arg.Type(), "bytes", "Buffer")
				c.Cond(isBuf, "SINK-IS-BUFFER", fnName(f)+"|newWriter sink", p.pos(cl.Pos()),
					"the Sysl text writer is constructed over a *bytes.Buffer (writes cannot fail)",
					fmt.Sprintf("the Sysl text writer is constructed over a %s: a failing write ends the process through logger.Fatalf in mustWrite", arg.Type()))
			})
		}
	}
	if n == 0 {
		c.Undecidedf("SINK-IS-BUFFER", "newWriter", "-", "no construction site of the importer's text writer found")
	}
	// built-in list covers the lexer's type words
	c11Builtins(c)
}

func c11Builtins(c *Check) {
	p := c.P
	// fold syslutil.BuiltInTypes (slice literal of string constants)
	sp := p.SSAPkgs[repoMod+"/pkg/syslutil"]
	var list []string
	if sp != nil {
		if g, ok := sp.Members["BuiltInTypes"].(*ssa.Global); ok {
			eachInstr(sp.Func("init"), func(_ *ssa.BasicBlock, i ssa.Instruction) {
				st, ok := i.(*ssa.Store)
				if !ok || st.Addr != ssa.Value(g) {
					return
				}
				if sl, ok := st.Val.(*ssa.Slice); ok {
					if al, ok := sl.X.(*ssa.Alloc); ok {
						for _, r := range *al.Referrers() {
							if ia, ok := r.(*ssa.IndexAddr); ok {
								for _, r2 := range *ia.Referrers() {
									if s2, ok := r2.(*ssa.Store); ok {
										if name, ok := foldBuiltinName(p, sp, s2.Val); ok {
											list = append(list, name)
										}
									}
								}
							}
						}
					}
				}
			})
		}
	}
	if len(list) < 5 {
		c.Undecidedf("BUILTIN-LIST", "syslutil.BuiltInTypes", "-", "cannot fold the built-in type list (%d entries)", len(list))
		return
	}
	have := map[string]bool{}
	for _, s := range list {
		have[strings.ToLower(s)] = true
	}
	b, err := os.ReadFile(filepath.Join(p.Root, "pkg/grammar/SyslLexer.g4"))
	if err != nil {
		c.Undecidedf("BUILTIN-LIST", "SyslLexer.g4", "-", "grammar not readable")
		return
	}
	body, ok := g4RuleBody(string(b), "NativeDataTypes")
	words, ok2 := g4Words(body)
	if !ok || !ok2 {
		c.Undecidedf("BUILTIN-LIST", "NativeDataTypes", "-", "cannot enumerate the lexer's type words")
		return
	}
	// the escaping rule prefixes names that *start with* a built-in: every lexer word must start with a list entry
	for _, w := range words {
		lw := strings.ToLower(w)
		covered := false
		for k := range have {
			if strings.HasPrefix(lw, k) {
				covered = true
			}
		}
		c.Cond(covered, "BUILTIN-LIST", "type word "+w, "pkg/syslutil/typeutil.go",
			"a type named like this lexer keyword is escaped by the importer (the built-in list has a prefix of it)",
			fmt.Sprintf("the lexer treats %s as a built-in type word but syslutil.BuiltInTypes has no entry that prefixes it: an imported type called %s is written unescaped and the output does not compile", w, w))
	}
	// and the escaping function consults that list
	uses := false
	for _, f := range p.RepoFuncs() {
		// (whatever the escaping function is called: a function of the importer that
		// returns a string and reads the list)
		if fnPkgPath(f) == importerPkg && f.Signature.Results().Len() == 1 && isStringType(f.Signature.Results().At(0).Type()) {
			eachInstr(f, func(_ *ssa.BasicBlock, i ssa.Instruction) {
				for _, op := range i.Operands(nil) {
					if g, ok := (*op).(*ssa.Global); ok && g.Name() == "BuiltInTypes" {
						uses = true
					}
				}
			})
		}
	}
	c.Cond(uses, "BUILTIN-LIST", "getSyslTypeName consults the list", "pkg/importer/utils.go", "the type-name escaping rule (a string-valued function of the importer) reads syslutil.BuiltInTypes", "no string-valued function of the importer consults syslutil.BuiltInTypes any more: the type-name escaping rule has lost its list")
}

func checkC12(c *Check) {
	p := c.P
	c.Explanation = "C12 (structural clauses): ordered arrays of the exported documents (parameters, required, enum) are not filled from unordered iteration (R-ORDER from the exporter entry points); the kind strings the simplified type mapper produces (constants stored to syslwrapper.Type.Type, plus the lower-cased primitive names) each have a case in the OpenAPI 3 schema builder, and every primitive enum value is a key of the Swagger exporter's primitive table; the mapper and both schema builders recurse structurally over the type tree, and the reference-resolving rewriter (which would make that recursion cyclic) is not reachable from any export or diagram entry; no explicit panic, unchecked look-up or index is reachable. Schema content, document validity and re-import are not decided."
	var entries []*ssa.Function
	for _, n := range []string{"OpenAPI3Exporter", "SwaggerExporter", "TypeExporter", "EndpointExporter"} {
		for _, f := range methodsOfType(p, "pkg/exporter", n) {
			if f.Parent() == nil && types.NewMethodSet(types.NewPointer(namedOf(f.Signature.Recv().Type()))).Lookup(f.Pkg.Pkg, f.Name()) != nil && isExported(f.Name()) {
				entries = append(entries, f)
			}
		}
	}
	for _, f := range methodsOfType(p, "pkg/syslwrapper", "AppMapper") {
		if f.Parent() == nil && (f.Name() == "Map" || f.Name() == "IndexTypes" || f.Name() == "MapType") {
			entries = append(entries, f)
		}
	}
	if len(entries) < 6 {
		c.Undecidedf("ANCHOR", "exporter entries", "-", "only %d exporter entry points found", len(entries))
		return
	}
	runGenEngines(c, genOpts{entries: entries, order: true, guard: true, deref: true, rec: true, modelRO: true})

	// kind-table agreement
	wp := p.Pkg("pkg/syslwrapper")
	var wType *types.Named
	if wp != nil {
		if tn, ok := wp.Types.Scope().Lookup("Type").(*types.TypeName); ok {
			wType, _ = tn.Type().(*types.Named)
		}
	}
	var exportType *ssa.Function
	for _, f := range methodsOfType(p, "pkg/exporter", "OpenAPI3Exporter") {
		if f.Name() == "exportType" {
			exportType = f
		}
	}
	if exportType == nil && wType != nil {
		// by role: the method of the exporter that distinguishes most kinds of the
		// simplified type
		best := 0
		for _, f := range methodsOfType(p, "pkg/exporter", "OpenAPI3Exporter") {
			if k := len(switchConstsOnField(f, wType, "Type")); k > best {
				best, exportType = k, f
			}
		}
	}
	if wType == nil || exportType == nil {
		c.Undecidedf("KIND-AGREEMENT", "anchors", "-", "syslwrapper.Type or OpenAPI3Exporter.exportType not found")
	} else {
		var mapperFns []*ssa.Function
		for _, f := range methodsOfType(p, "pkg/syslwrapper", "AppMapper") {
			mapperFns = append(mapperFns, f)
		}
		produced := stringConstsStoredToField(mapperFns, wType, "Type")
		prim, _ := mapLiteralKeysOfGlobal(p, syslPkg, "Type_Primitive_value")
		for _, n := range lowerAll(prim, true) {
			produced[n] = true
		}
		consumed := switchConstsOnField(exportType, wType, "Type")
		if len(produced) < 8 || len(consumed) < 8 {
			c.Undecidedf("KIND-AGREEMENT", "tables", "-", "could not fold the kind tables (produced %d, consumed %d)", len(produced), len(consumed))
		}
		for _, k := range sortedKeys(produced) {
			c.Cond(consumed[k], "KIND-AGREEMENT", "kind "+k, p.pos(exportType.Pos()),
				"the OpenAPI 3 schema builder has a case for this kind",
				fmt.Sprintf("the type mapper can produce kind %q but the OpenAPI 3 schema builder has no case for it: such a type is exported as an empty schema", k))
		}
	}
	// primitives vs swagger primitive table
	prim, _ := mapLiteralKeysOfGlobal(p, syslPkg, "Type_Primitive_value")
	keys := map[int64]bool{}
	var at ssa.Instruction
	for _, f := range p.RepoFuncs() {
		if fnPkgPath(f) != repoMod+"/pkg/exporter" {
			continue
		}
		// the table is found by role: a map keyed by the primitive enum that is
		// filled with constant keys, or a function that switches over a primitive
		// value with at least five constant cases
		isPrimEnum := func(t types.Type) bool {
			n := namedOf(t)
			return n != nil && n.Obj().Name() == "Type_Primitive" && n.Obj().Pkg() != nil && n.Obj().Pkg().Path() == syslPkg
		}
		local := map[int64]bool{}
		var localAt ssa.Instruction
		eachInstr(f, func(_ *ssa.BasicBlock, i ssa.Instruction) {
			switch x := i.(type) {
			case *ssa.MakeMap:
				m, ok := x.Type().Underlying().(*types.Map)
				if !ok || !isPrimEnum(m.Key()) || x.Referrers() == nil {
					return
				}
				n := 0
				for _, r := range *x.Referrers() {
					if mu, ok := r.(*ssa.MapUpdate); ok {
						if k, ok := constInt(mu.Key); ok {
							keys[k] = true
							n++
						}
					}
				}
				if n >= 5 {
					at = x
				}
			case *ssa.BinOp:
				if x.Op != token.EQL {
					return
				}
				for _, pair := range [][2]ssa.Value{{x.X, x.Y}, {x.Y, x.X}} {
					if k, ok := constInt(pair[1]); ok && isPrimEnum(pair[0].Type()) {
						if _, isConst := pair[0].(*ssa.Const); !isConst {
							local[k] = true
							if localAt == nil {
								localAt = x
							}
						}
					}
				}
			}
		})
		if len(local) >= 5 && at == nil {
			for k := range local {
				keys[k] = true
			}
			at = localAt
		}
	}
	if at == nil || len(prim) == 0 {
		c.Undecidedf("KIND-AGREEMENT", "swagger primitive table", "-", "primitive table of the Swagger type exporter not found")
	} else {
		for _, name := range sortedKeys(prim) {
			c.Cond(keys[prim[name]], "KIND-AGREEMENT", "primitive "+name, p.pos(at.Pos()),
				"the Swagger exporter's primitive table has an entry for this primitive",
				fmt.Sprintf("primitive %s has no entry in the Swagger exporter's primitive table: fields of that type are exported with empty type and format", name))
		}
	}
	// resolver not reachable
	var resolver *ssa.Function
	for _, f := range methodsOfType(p, "pkg/syslwrapper", "AppMapper") {
		if f.Name() == "ResolveTypes" {
			resolver = f
		}
	}
	if resolver == nil {
		c.Okf("RESOLVER-UNREACHABLE", "AppMapper.ResolveTypes", "-", "the reference-resolving rewriter no longer exists")
	} else {
		var cmdEntries []*ssa.Function
		for _, f := range commandExecutes(p) {
			cmdEntries = append(cmdEntries, f)
		}
		cmdEntries = append(cmdEntries, entries...)
		r := reachable(p.CallGraph(), cmdEntries, func(e *callgraph.Edge) bool { return false })
		_, reach := r[resolver]
		detail := ""
		if reach {
			detail = "the rewriter that replaces type references by pointers to the referenced types is reachable from a command or exporter entry (" + strings.Join(chainTo(r, resolver, p), " → ") + "): the structural recursion of MapType/exportType no longer terminates on recursive types unless it gets a visited guard"
		}
		c.Cond(!reach, "RESOLVER-UNREACHABLE", "AppMapper.ResolveTypes", p.pos(resolver.Pos()),
			"the reference-resolving rewriter is not reachable from any command or exporter entry (type trees stay acyclic: references by name)", detail)
	}
}

func isExported(name string) bool { return name != "" && name[0] >= 'A' && name[0] <= 'Z' }

// foldBuiltinName folds one element of syslutil.BuiltInTypes: a string
// constant, or a package variable initialised with a string constant or with
// GetTypePrimitiveName(<primitive enum constant>) = lower-cased enum name.
func foldBuiltinName(p *Program, sp *ssa.Package, v ssa.Value) (string, bool) {
	v = stripValue(v)
	if cv, ok := v.(*ssa.Const); ok && cv.Value != nil && cv.Value.Kind() == constant.String {
		return constant.StringVal(cv.Value), true
	}
	ld, ok := v.(*ssa.UnOp)
	if !ok {
		return "", false
	}
	g, ok := ld.X.(*ssa.Global)
	if !ok {
		return "", false
	}
	name, found := "", false
	prim, _ := mapLiteralKeysOfGlobal(p, syslPkg, "Type_Primitive_value")
	eachInstr(sp.Func("init"), func(_ *ssa.BasicBlock, i ssa.Instruction) {
		st, ok := i.(*ssa.Store)
		if !ok || st.Addr != ssa.Value(g) {
			return
		}
		val := stripValue(st.Val)
		if cv, ok := val.(*ssa.Const); ok && cv.Value != nil && cv.Value.Kind() == constant.String {
			name, found = constant.StringVal(cv.Value), true
			return
		}
		if call, ok := val.(*ssa.Call); ok && len(call.Call.Args) == 1 {
			if sc := staticCallee(call); sc != nil && sc.Name() == "GetTypePrimitiveName" {
				if k, ok := constInt(call.Call.Args[0]); ok {
					for n, vv := range prim {
						if vv == k {
							name, found = strings.ToLower(n), true
						}
					}
				}
			}
		}
	})
	return name, found
}
