package main

import (
	"go/token"
	"go/types"
	"strings"

	"golang.org/x/tools/go/ssa"
)

// Scope variables handled through an object: a small type of pkg/eval that
// holds (scope, name) with methods that bind, unbind, save and restore the
// variable. The discipline rules read calls of such methods as the map
// operation the method performs on what hangs off its receiver.
type scopeOps struct {
	kind map[*ssa.Function]string // "bind" | "unbind" | "save" | "restore"
}

// paramRooted: v is read from a parameter of h through loads and field
// selections only (the receiver's fields).
func paramRooted(v ssa.Value, h *ssa.Function) bool {
	for d := 0; d < 10 && v != nil; d++ {
		switch x := v.(type) {
		case *ssa.Parameter:
			return x.Parent() == h
		case *ssa.UnOp:
			if x.Op != token.MUL {
				return false
			}
			v = x.X
		case *ssa.Field:
			v = x.X
		case *ssa.FieldAddr:
			v = x.X
		case *ssa.Alloc:
			var st *ssa.Store
			n := 0
			if x.Referrers() != nil {
				for _, r := range *x.Referrers() {
					if s, ok := r.(*ssa.Store); ok && s.Addr == ssa.Value(x) {
						st = s
						n++
					}
				}
			}
			if n != 1 {
				return false
			}
			v = st.Val
		default:
			return false
		}
	}
	return false
}

func buildScopeOps(p *Program) *scopeOps {
	so := &scopeOps{kind: map[*ssa.Function]string{}}
	var cands []*ssa.Function
	for _, h := range p.RepoFuncs() {
		if fnPkgPath(h) != evalPkg || h.Parent() != nil || len(h.Blocks) == 0 || len(h.Blocks) > 8 || h.Signature.Recv() == nil ||
			strings.HasSuffix(p.fnFile(h), "/debugger.go") {
			continue
		}
		// methods of a type that is not the scope itself
		if isScopeType(h.Params[0].Type()) {
			continue
		}
		cands = append(cands, h)
	}
	type facts struct{ lookup, del, update, updateInEntry bool }
	fact := map[*ssa.Function]facts{}
	for _, h := range cands {
		var ft facts
		eachInstr(h, func(b *ssa.BasicBlock, i ssa.Instruction) {
			switch x := i.(type) {
			case *ssa.Lookup:
				if x.CommaOk && isScopeType(x.X.Type()) && paramRooted(x.X, h) && paramRooted(x.Index, h) {
					ft.lookup = true
				}
			case *ssa.MapUpdate:
				if isScopeType(x.Map.Type()) && paramRooted(x.Map, h) && paramRooted(x.Key, h) && paramRooted(x.Value, h) {
					ft.update = true
					if b == h.Blocks[0] {
						ft.updateInEntry = true
					}
				}
			case *ssa.Call:
				if bi, ok := x.Call.Value.(*ssa.Builtin); ok && bi.Name() == "delete" && len(x.Call.Args) == 2 &&
					isScopeType(x.Call.Args[0].Type()) && paramRooted(x.Call.Args[0], h) && paramRooted(x.Call.Args[1], h) {
					ft.del = true
				}
			}
		})
		fact[h] = ft
		switch {
		case ft.del && !ft.update && !ft.lookup:
			so.kind[h] = "unbind"
		case ft.updateInEntry && !ft.del && !ft.lookup && len(h.Blocks) == 1:
			so.kind[h] = "bind"
		case ft.lookup && !ft.update && !ft.del && h.Signature.Results().Len() == 1 && !isBoolType(h.Signature.Results().At(0).Type()):
			so.kind[h] = "save"
		}
	}
	for _, h := range cands {
		if so.kind[h] != "" {
			continue
		}
		ft := fact[h]
		if ft.lookup || ft.del || len(h.Blocks) < 2 {
			continue
		}
		writes := ft.update && !ft.updateInEntry
		eachInstr(h, func(b *ssa.BasicBlock, i ssa.Instruction) {
			if cl, ok := i.(*ssa.Call); ok && b != h.Blocks[0] {
				if sc := staticCallee(cl); sc != nil && so.kind[sc] == "bind" && len(cl.Call.Args) > 0 && paramRooted(cl.Call.Args[0], h) {
					writes = true
				}
			}
		})
		if writes {
			so.kind[h] = "restore"
		}
	}
	return so
}

// op: the kind of scope operation the instruction performs through a helper
// method, with the receiver it is called on.
func (so *scopeOps) op(i ssa.Instruction) (string, ssa.Value, *ssa.Call) {
	cl, ok := i.(*ssa.Call)
	if !ok {
		return "", nil, nil
	}
	sc := staticCallee(cl)
	if sc == nil || so.kind[sc] == "" || len(cl.Call.Args) == 0 {
		return "", nil, nil
	}
	return so.kind[sc], cl.Call.Args[0], cl
}

// back walks from a receiver value to where the slot object came from: stop
// reports the call that ends the walk.
func (so *scopeOps) back(v ssa.Value, stop func(*ssa.Call) bool) *ssa.Call {
	seen := map[ssa.Value]bool{}
	var found *ssa.Call
	var walk func(v ssa.Value, d int)
	walk = func(v ssa.Value, d int) {
		if v == nil || seen[v] || d > 14 || found != nil {
			return
		}
		seen[v] = true
		switch x := v.(type) {
		case *ssa.UnOp:
			if x.Op == token.MUL {
				walk(x.X, d+1)
			}
		case *ssa.Field:
			walk(x.X, d+1)
		case *ssa.FieldAddr:
			walk(x.X, d+1)
		case *ssa.Phi:
			for _, e := range x.Edges {
				walk(e, d+1)
			}
		case *ssa.Alloc:
			if x.Referrers() != nil {
				for _, r := range *x.Referrers() {
					if s, ok := r.(*ssa.Store); ok && s.Addr == ssa.Value(x) {
						walk(s.Val, d+1)
					}
				}
			}
		case *ssa.FreeVar:
			fn := x.Parent()
			if par := fn.Parent(); par != nil {
				for k, fv := range fn.FreeVars {
					if fv != x {
						continue
					}
					eachInstr(par, func(_ *ssa.BasicBlock, j ssa.Instruction) {
						if mc, ok := j.(*ssa.MakeClosure); ok && mc.Fn == ssa.Value(fn) && k < len(mc.Bindings) {
							walk(mc.Bindings[k], d+1)
						}
					})
				}
			}
		case *ssa.Call:
			if stop(x) {
				found = x
				return
			}
			if sc := staticCallee(x); sc != nil && so.kind[sc] == "save" && len(x.Call.Args) > 0 {
				walk(x.Call.Args[0], d+1)
			}
		}
	}
	walk(v, 0)
	return found
}

// slotName: the string that names the variable a slot object stands for — the
// string argument of the pkg/eval call that built the object from a scope and a
// name.
func (so *scopeOps) slotName(recv ssa.Value) ssa.Value {
	var name ssa.Value
	so.back(recv, func(cl *ssa.Call) bool {
		sc := staticCallee(cl)
		if sc == nil || fnPkgPath(sc) != evalPkg || so.kind[sc] != "" || sc.Signature.Results().Len() != 1 {
			return false
		}
		if _, isStruct := sc.Signature.Results().At(0).Type().Underlying().(*types.Struct); !isStruct {
			return false
		}
		var str ssa.Value
		hasScope := false
		for _, a := range cl.Call.Args {
			if isScopeType(a.Type()) {
				hasScope = true
			}
			if b, ok := a.Type().Underlying().(*types.Basic); ok && b.Kind() == types.String {
				str = a
			}
		}
		if hasScope && str != nil {
			name = str
			return true
		}
		return false
	})
	return name
}

// savedBy: the save call a receiver value comes from.
func (so *scopeOps) savedBy(recv ssa.Value) *ssa.Call {
	return so.back(recv, func(cl *ssa.Call) bool {
		sc := staticCallee(cl)
		return sc != nil && so.kind[sc] == "save"
	})
}
