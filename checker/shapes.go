package main

import (
	"crypto/sha1"
	"encoding/hex"
	"encoding/json"
	"fmt"
	"go/token"
	"go/types"
	"io"
	"os"
	"sort"
	"strconv"
	"strings"

	"golang.org/x/tools/go/ssa"
)

// Shapes: a second, name-independent address for an obligation, so that a table
// row (exception, known finding, baseline) written for a construct keeps
// applying when the function that holds it is renamed or moved, or when its
// locals and fields are renamed — edits that change the obligation's key (which
// is built from names) but not the code. The shape is
//
//	rule ~ fingerprint(function) ~ ordinal
//
// where the fingerprint hashes the function's SSA (and that of its closures)
// with every repository name erased — instruction kinds, operators, constants,
// field indices, the names of standard-library and third-party callees, the
// shapes of types — and the ordinal is the position of the obligation among the
// obligations of the same rule in the same function, in source order. A row is
// matched by shape only when its key matches no obligation of the run (the
// construct it was written for is gone under that name) and the shapes agree:
// the same code under another name. Any edit of the function body changes the
// fingerprint and the row then matches by key or not at all.

var fpMemo = map[*ssa.Function]string{}

// a construct (a loop) must have at least this many instructions for its own
// fingerprint to identify it anywhere in its package
const minPkgShapeSize = 25

func typeSig(t types.Type, d int) string {
	if d > 3 || t == nil {
		return "_"
	}
	switch x := t.(type) {
	case *types.Basic:
		return x.Name()
	case *types.Named:
		if x.Obj().Pkg() != nil && isRepoPkg(x.Obj().Pkg()) {
			return "R<" + typeSigKind(x.Underlying()) + ">"
		}
		if x.Obj().Pkg() == nil {
			return x.Obj().Name()
		}
		return x.Obj().Pkg().Path() + "." + x.Obj().Name()
	case *types.Pointer:
		return "*" + typeSig(x.Elem(), d+1)
	case *types.Slice:
		return "[]" + typeSig(x.Elem(), d+1)
	case *types.Array:
		return "[n]" + typeSig(x.Elem(), d+1)
	case *types.Map:
		return "map[" + typeSig(x.Key(), d+1) + "]" + typeSig(x.Elem(), d+1)
	case *types.Chan:
		return "chan " + typeSig(x.Elem(), d+1)
	case *types.Signature:
		return fmt.Sprintf("func/%d/%d", x.Params().Len(), x.Results().Len())
	case *types.Tuple:
		parts := []string{}
		for i := 0; i < x.Len(); i++ {
			parts = append(parts, typeSig(x.At(i).Type(), d+1))
		}
		return "(" + strings.Join(parts, ",") + ")"
	case *types.Interface:
		return fmt.Sprintf("iface/%d", x.NumMethods())
	case *types.Struct:
		return fmt.Sprintf("struct/%d", x.NumFields())
	}
	return "?"
}

func typeSigKind(t types.Type) string {
	switch x := t.(type) {
	case *types.Struct:
		return fmt.Sprintf("struct/%d", x.NumFields())
	case *types.Interface:
		return fmt.Sprintf("iface/%d", x.NumMethods())
	case *types.Basic:
		return x.Name()
	case *types.Map:
		return "map"
	case *types.Slice:
		return "slice"
	case *types.Signature:
		return "func"
	case *types.Pointer:
		return "ptr"
	}
	return "other"
}

func operandSig(v ssa.Value) string {
	switch x := v.(type) {
	case nil:
		return "nil"
	case *ssa.Const:
		if x.Value == nil {
			return "c:nil"
		}
		return "c:" + x.Value.ExactString()
	case *ssa.Global:
		if x.Pkg != nil && !isRepoPkg(x.Pkg.Pkg) {
			return "g:" + x.Pkg.Pkg.Path() + "." + x.Name()
		}
		return "g:R"
	case *ssa.Function:
		if x.Pkg != nil && !isRepoPkg(x.Pkg.Pkg) {
			return "f:" + x.String()
		}
		return "f:R"
	case *ssa.Builtin:
		return "b:" + x.Name()
	case *ssa.Parameter:
		return "p"
	case *ssa.FreeVar:
		return "fv"
	}
	return "v"
}

// fingerprintBlocks hashes a set of blocks of one function (in index order,
// block numbers made relative to the first one).
func fingerprintBlocks(blocks []*ssa.BasicBlock) string {
	sort.Slice(blocks, func(i, j int) bool { return blocks[i].Index < blocks[j].Index })
	h := sha1.New()
	for k, b := range blocks {
		fmt.Fprintf(h, "B%d/%d\n", k, len(b.Succs))
		writeBlockSig(h, b)
	}
	return hex.EncodeToString(h.Sum(nil))[:16]
}

func fingerprint(f *ssa.Function) string {
	if s, ok := fpMemo[f]; ok {
		return s
	}
	h := sha1.New()
	var walk func(g *ssa.Function)
	walk = func(g *ssa.Function) {
		// parameters counted with the receiver, results only: a free function whose
		// first parameter becomes the receiver keeps its fingerprint
		fmt.Fprintf(h, "FN %d/%d\n", len(g.Params), g.Signature.Results().Len())
		for _, b := range g.Blocks {
			fmt.Fprintf(h, "B%d/%d\n", b.Index, len(b.Succs))
			writeBlockSig(h, b)
		}
		for _, an := range g.AnonFuncs {
			walk(an)
		}
	}
	walk(f)
	if d := os.Getenv("VERIF_FP_DUMP"); d != "" && strings.HasSuffix(fnName(f), d) {
		var sb strings.Builder
		var dump func(g *ssa.Function)
		dump = func(g *ssa.Function) {
			for _, b := range g.Blocks {
				fmt.Fprintf(&sb, "B%d/%d\n", b.Index, len(b.Succs))
				writeBlockSig(&sb, b)
			}
			for _, an := range g.AnonFuncs {
				dump(an)
			}
		}
		dump(f)
		fmt.Fprintf(os.Stderr, "FPDUMP %s\n%s", fnName(f), sb.String())
	}
	s := hex.EncodeToString(h.Sum(nil))[:16]
	fpMemo[f] = s
	return s
}

// effectFree reports instructions that only compute a value (or spill a
// parameter into its fresh cell): a run of them may be evaluated in any order
// that respects their data dependencies, so their order carries no behaviour.
func effectFree(i ssa.Instruction) bool {
	switch x := i.(type) {
	case *ssa.Alloc, *ssa.FieldAddr, *ssa.Field, *ssa.IndexAddr, *ssa.Index, *ssa.BinOp, *ssa.Convert,
		*ssa.ChangeType, *ssa.ChangeInterface, *ssa.MakeInterface, *ssa.Extract, *ssa.Slice, *ssa.Phi:
		return true
	case *ssa.UnOp:
		return x.Op != token.ARROW
	case *ssa.Lookup:
		return true
	case *ssa.Store:
		_, isParam := x.Val.(*ssa.Parameter)
		_, isCell := x.Addr.(*ssa.Alloc)
		return isParam && isCell
	}
	return false
}

// writeBlockSig writes the signatures of a block's instructions, each maximal
// run of effect-free instructions in sorted order: swapping two parameters, or
// the evaluation order of two reads, leaves the fingerprint alone.
func writeBlockSig(h io.Writer, b *ssa.BasicBlock) {
	var run []string
	flush := func() {
		sort.Strings(run)
		for _, l := range run {
			io.WriteString(h, l)
		}
		run = run[:0]
	}
	for _, i := range b.Instrs {
		var sb strings.Builder
		writeInstrSig(&sb, i)
		if effectFree(i) {
			run = append(run, sb.String())
			continue
		}
		flush()
		io.WriteString(h, sb.String())
	}
	flush()
}

// looseSig: while set, call instructions are written without their number of
// arguments and without their operand list (a dropped or added parameter leaves
// the signature alone).
var looseSig bool

func writeInstrSig(h io.Writer, i ssa.Instruction) {
	{
		{
			{
				if _, ok := i.(*ssa.DebugRef); ok {
					return
				}
				fmt.Fprintf(h, "%T", i)
				switch x := i.(type) {
				case *ssa.BinOp:
					fmt.Fprintf(h, " %s", x.Op)
				case *ssa.UnOp:
					fmt.Fprintf(h, " %s", x.Op)
				case *ssa.FieldAddr:
					fmt.Fprintf(h, " #%d", x.Field)
				case *ssa.Field:
					fmt.Fprintf(h, " #%d", x.Field)
				case *ssa.Extract:
					fmt.Fprintf(h, " #%d", x.Index)
				case *ssa.Alloc:
					fmt.Fprintf(h, " heap=%v", x.Heap)
				case *ssa.TypeAssert:
					fmt.Fprintf(h, " %s %v", typeSig(x.AssertedType, 0), x.CommaOk)
				case *ssa.Lookup:
					fmt.Fprintf(h, " %v", x.CommaOk)
				case ssa.CallInstruction:
					cc := x.Common()
					if looseSig {
						if cc.IsInvoke() {
							fmt.Fprintf(h, " invoke")
						} else {
							fmt.Fprintf(h, " call %s", operandSig(cc.Value))
						}
						fmt.Fprintln(h)
						return
					}
					if cc.IsInvoke() {
						m := cc.Method
						if m.Pkg() != nil && isRepoPkg(m.Pkg()) {
							fmt.Fprintf(h, " invoke R/%d", len(cc.Args))
						} else {
							fmt.Fprintf(h, " invoke %s", m.FullName())
						}
					} else {
						fmt.Fprintf(h, " call %s/%d", operandSig(cc.Value), len(cc.Args))
					}
				}
				if v, ok := i.(ssa.Value); ok {
					fmt.Fprintf(h, " : %s", typeSig(v.Type(), 0))
				}
				for _, op := range i.Operands(nil) {
					if op != nil && *op != nil {
						fmt.Fprintf(h, " %s", operandSig(*op))
					}
				}
				fmt.Fprintln(h)
			}
		}
	}
}

// posLine extracts the line of a "file:line" position for ordering.
func posLine(pos string) (string, int) {
	i := strings.LastIndex(pos, ":")
	if i < 0 {
		return pos, 0
	}
	n, _ := strconv.Atoi(pos[i+1:])
	return pos[:i], n
}

// assignShapes gives every obligation whose key names a repository function a
// shape. Obligations may carry a ShapeSeed (e.g. the fingerprints of all members
// of a recursive cycle) that replaces the function fingerprint.
func (c *Check) assignShapes() {
	if c.P == nil {
		return
	}
	byName := map[string]*ssa.Function{}
	for _, f := range c.P.RepoFuncs() {
		byName[fnName(f)] = f
	}
	type grp struct{ rule, fn string }
	groups := map[grp][]*Obligation{}
	for _, o := range c.Obs {
		parts := strings.Split(o.Key, "|")
		if len(parts) < 2 {
			continue
		}
		fn := parts[1]
		if i := strings.LastIndex(fn, "#"); i > 0 && len(parts) == 2 {
			if _, err := strconv.Atoi(fn[i+1:]); err == nil {
				fn = fn[:i]
			}
		}
		if byName[fn] == nil {
			continue
		}
		groups[grp{o.Rule, fn}] = append(groups[grp{o.Rule, fn}], o)
	}
	for g, obs := range groups {
		sort.SliceStable(obs, func(i, j int) bool {
			fi, li := posLine(obs[i].Pos)
			fj, lj := posLine(obs[j].Pos)
			if fi != fj {
				return fi < fj
			}
			return li < lj
		})
		fp := fingerprint(byName[g.fn])
		nth := map[string]int{}
		for _, o := range obs {
			seed := fp
			if o.ShapeSeed != "" {
				seed = o.ShapeSeed
			}
			o.Shape = fmt.Sprintf("%s~%s~%d", g.rule, seed, nth[seed])
			nth[seed]++
			if o.LocalSeed != "" {
				lk := "L" + o.LocalSeed
				o.ShapeLocal = fmt.Sprintf("%s~%s~%s~%d", g.rule, g.fn, o.LocalSeed, nth[lk])
				nth[lk]++
				if o.LocalSize >= minPkgShapeSize {
					o.ShapePkg = fmt.Sprintf("%s~%s~%s", g.rule, fnPkgPath(byName[g.fn]), o.LocalSeed)
				}
			}
			if o.LooseSeed != "" && o.ShapePkg == "" {
				o.ShapePkg = fmt.Sprintf("%s~%s~%s~%d", g.rule, fnPkgPath(byName[g.fn]), o.LooseSeed, nth["P"+o.LooseSeed])
				nth["P"+o.LooseSeed]++
			}
		}
	}
}

// sccLooseSeed: like sccSeed, from fingerprints that ignore how many parameters
// the functions take and how many arguments their calls pass (a cycle whose
// functions were renamed and lost or gained a parameter keeps it).
func sccLooseSeed(fns []*ssa.Function) string {
	looseSig = true
	defer func() { looseSig = false }()
	var fps []string
	for _, f := range fns {
		h := sha1.New()
		var walk func(g *ssa.Function)
		walk = func(g *ssa.Function) {
			for _, b := range g.Blocks {
				fmt.Fprintf(h, "B%d/%d\n", b.Index, len(b.Succs))
				writeBlockSig(h, b)
			}
			for _, an := range g.AnonFuncs {
				walk(an)
			}
		}
		walk(f)
		fps = append(fps, hex.EncodeToString(h.Sum(nil))[:16])
	}
	sort.Strings(fps)
	h := sha1.Sum([]byte(strings.Join(fps, ",")))
	return "loose" + hex.EncodeToString(h[:])[:14]
}

// sccSeed: fingerprint of a set of functions, independent of their names.
func sccSeed(fns []*ssa.Function) string {
	var fps []string
	for _, f := range fns {
		fps = append(fps, fingerprint(f))
	}
	sort.Strings(fps)
	h := sha1.Sum([]byte(strings.Join(fps, ",")))
	return "scc" + hex.EncodeToString(h[:])[:14]
}

// shapeDump collects, for VERIF_SHAPES=<file>, the shape of the obligation each
// table row matched by key on this run; tools/reshape.py writes them into the tables.
var shapeDump = map[string]string{}

func recordShape(table string, r *tableRow, o *Obligation) {
	if os.Getenv("VERIF_SHAPES") == "" || o.Shape == "" {
		return
	}
	shapeDump[table+"\x00"+r.Property+"\x00"+r.Key] = o.Shape + "\x00" + o.ShapeLocal + "\x00" + o.ShapePkg
}

func flushShapes() {
	path := os.Getenv("VERIF_SHAPES")
	if path == "" {
		return
	}
	old := map[string]string{}
	if b, err := os.ReadFile(path); err == nil {
		_ = json.Unmarshal(b, &old)
	}
	for k, v := range shapeDump {
		old[k] = v
	}
	b, _ := json.MarshalIndent(old, "", " ")
	_ = os.WriteFile(path, b, 0o644)
}
