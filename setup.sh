#!/bin/bash
# Builds /verif/bin/syslcheck offline from /verif/checker (module cache only).
set -eu
cd "$(dirname "$0")"
export GOFLAGS=-mod=mod GOPROXY=off GOSUMDB=off GOTOOLCHAIN=local
unset GOWORK
mkdir -p bin evidence/replay
if [ ! -x bin/syslcheck ] || [ -n "$(find checker -newer bin/syslcheck \( -name '*.go' -o -name go.mod \) -print -quit)" ]; then
  (cd checker && go build -o ../bin/syslcheck .)
fi
echo "syslcheck built"
