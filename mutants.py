#!/usr/bin/env python3
"""Sensitivity run: applies every seeded mutant of a property as an in-memory
overlay (nothing is written to /repo) and requires the check to report the
expected obligation. usage: mutants.py <property>|all [-j N]"""
import glob, json, os, subprocess, sys
from concurrent.futures import ThreadPoolExecutor
HERE = os.path.dirname(os.path.abspath(__file__))

def run(path):
    m = json.load(open(path))
    r = subprocess.run([os.path.join(HERE, "bin/syslcheck"), "-props", m["property"], "-mutant", path],
                       capture_output=True, text=True)
    out = r.stdout
    if r.returncode == 3:
        return path, "skipped", out.strip().splitlines()[-1] if out.strip() else ""
    hits = [l for l in out.splitlines() if l.lstrip().startswith(("violation", "undecided"))]
    exp = m.get("expect", "")
    if r.returncode == 1 and any(exp in h for h in hits):
        return path, "detected", next(h for h in hits if exp in h).strip()[:200]
    if r.returncode == 1:
        return path, "other-alarm", (hits[0].strip()[:200] if hits else out[-300:])
    return path, "MISSED", ""

def main():
    prop = sys.argv[1] if len(sys.argv) > 1 else "all"
    pat = os.path.join(HERE, "mutants", "*" if prop == "all" else prop, "*.json")
    files = sorted(glob.glob(pat))
    subprocess.run([os.path.join(HERE, "setup.sh")], check=True, stdout=subprocess.DEVNULL)
    jobs = 4
    if "-j" in sys.argv:
        jobs = int(sys.argv[sys.argv.index("-j") + 1])
    res = list(ThreadPoolExecutor(jobs).map(run, files))
    bad = 0
    for path, st, info in res:
        print("%-12s %s  %s" % (st, os.path.relpath(path, HERE), info))
        if st not in ("detected",):
            bad += 1
    print("%d mutants, %d not detected as expected" % (len(res), bad))
    return 1 if bad else 0

if __name__ == "__main__":
    sys.exit(main())
