#!/bin/bash
exec /root/.cache/puppeteer/chrome/linux-147.0.7727.57/chrome-linux64/chrome --no-sandbox --disable-gpu --disable-dev-shm-usage "$@"
