javaFile: package annotations? comment* import* definition;
package: 'package' packageName '\n';
import: 'import' importPath '\n';
