#!/bin/bash
# triage aid: runs commands over untidy-but-valid models and prints crash sites
S=${SYSL:-/tmp/tri/sysl}; O=/tmp/tri/cm; mkdir -p $O/db
run() { # label, args...
  local label=$1; shift
  out=$(timeout 20 "$S" "$@" 2>&1); rc=$?
  if echo "$out" | grep -q "^panic:\|^fatal error:\|goroutine [0-9]* \[running\]"; then
    site=$(echo "$out" | grep -A1 "^github.com/anz-bank/sysl" | grep -m1 "^\s*/repo" | sed 's/^\s*//; s/ +0x.*//')
    msg=$(echo "$out" | grep -m1 "^panic:\|^fatal error:" | cut -c1-100)
    echo "CRASH $label :: $msg :: $site"
  elif [ $rc -eq 124 ]; then echo "HANG  $label"; fi
}
for m in dangling_calls dangling_types cyclic empty; do
  f=$m.sysl
  run "$m pb-json" pb --mode json -o $O/o.json $f
  run "$m pb-textpb" pb --mode textpb -o $O/o.textpb $f
  for ep in "A <- ep" "A <- GET /rest" "B <- ep" "Empty <- x"; do run "$m sd [$ep]" sd -s "$ep" -o $O/o.puml $f; done
  run "$m sd-app" sd -a Proj -o $O/o.puml $f
  for fl in "" "--epa" "-c"; do run "$m ints $fl" ints -j Proj $fl -o $O/o.puml $f; done
  run "$m datamodel -d" datamodel -d -o $O/o.puml $f
  run "$m datamodel -j" datamodel -j Proj -o $O/%\(epname\).puml $f
  for app in A B Empty Other; do
    run "$m export swagger $app" export -f swagger -a $app -o $O/o.yaml $f
    run "$m export openapi3 $app" export -f openapi3 -a $app -o $O/o.yaml $f
    run "$m dbscripts $app" generate-db-scripts -a $app -o $O/db -t x -d postgres $f
  done
  run "$m validate" validate $f
done
