#!/bin/bash
# usage: rep.sh <n> <outfile-or-dir> -- cmd...   prints number of distinct outputs
n=$1; out=$2; shift 3
declare -A seen
for i in $(seq $n); do
  rm -rf "$out"; "$@" >/dev/null 2>&1
  if [ -d "$out" ]; then h=$(find "$out" -type f | sort | xargs cat | md5sum | cut -c1-8); else h=$(md5sum < "$out" | cut -c1-8); fi
  seen[$h]=1
done
echo "distinct=${#seen[@]}"
