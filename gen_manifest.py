#!/usr/bin/env python3
"""Regenerates MANIFEST.json from the per-property table below.
Run after a check is added or its claim changes: python3 gen_manifest.py"""
import json, os

HERE = os.path.dirname(os.path.abspath(__file__))

# id -> dict(built, technique, text, note, design)   (built=False => listed under not_applicable with `na`)
P = {}

def prop(pid, built, technique="", text="", note="", design="", na=""):
    P[pid] = dict(built=built, technique=technique, text=text, note=note, design=design, na=na)

prop("C18", True,
     technique="SSA dominance/dataflow funnel check on the confining filesystem type + whole-program VTA who-may-call rule",
     text="Decides a structural necessary condition, not the behaviour: every path string that the confining filesystem type hands to the wrapped afero.Fs is the result of its join function and has passed its range test on every control-flow path (closures followed to their dispatch helper); the type implements afero.Fs without promoted methods and its root/wrapped fields are written only by its constructor; join = Abs|Clean(Join(root, name)), range test = Rel(root, path) with first segment \"..\" rejected; pkg/loader passes only the confining filesystem to the parser; no OS-level file API is called from repository code reachable from parse.Parser.Parse in the whole-program call graph. Breaking any of these lets some spelling of a path escape the root. Level 'other': static analysis of all paths of the current source, no execution.",
     note="Trusted: go/types, go/ssa, VTA call graph (x/tools v0.29.0); filepath.Abs/Join/Rel/Clean behave as documented; reflection/unsafe create no relevant calls; file access inside dependencies behind the reader.Reader given to Parse is out of scope. Does not decide that the lexical test is correct for every spelling. One recorded known finding (OS filesystem loader reachable from `import x.yaml as …`).",
     design="DESIGN.md §3 C18")

prop("C05", True,
     technique="SSA dominance and CFG path search (claim-before-read, must-locked regions, Lock/Unlock and Go/Wait pairing, publication safety, flatten order, canonical keys, depth step)",
     text="Decides structural necessary conditions of the import closure, not equality of results across schedules: in the collector (found by role: the pkg/parse function calling reader.Reader.ReadHashBranch) the claim in the retrieved map dominates the read and shares one critical section and one key with the membership test; every access to the shared map on a goroutine is must-locked; Lock/Unlock and errgroup Go/Wait pair on all paths; the already-claimed branch reads no field written after publication; flatten does not iterate the map, appends a file before its imports, walks imports with a forward index, returns early on an already-listed canonical key, and runs only after the root collector call returned; map keys are built only by the canonicaliser (which cleans the path and drops @version); depth is passed as current+1 and cut by current >= limit. Each clause, when broken, makes the result schedule-dependent, double-includes a file, loses termination on cycles, or cuts at the wrong depth.",
     note="Trusted: go/ssa, errgroup.Wait joins all Go callbacks, sync.Mutex. Not decided: identical result under every interleaving (no happens-before model), source order of the import list produced by the pre-parse, the observed depth-limit/claim-order interaction described in DESIGN §3 C05.",
     design="DESIGN.md §3 C05")

prop("C01", True,
     technique="whole-program VTA call-graph reachability of panic/exit sites with recover barriers, SSA dominance for the parser guard structure, SCC classification of recursion",
     text="Decides structural necessary conditions of 'compilation is total': (1) every call of the generated parser entry runs under a defer/recover barrier that sets the named error result, and the parse tree is returned only on the no-syntax-error outcome of the registered error listener (whose callback sets the flag first); (2) every explicit panic, must-helper (Must*/Assert/PanicOn*) call, non-constant regexp.MustCompile and process-exit call in repository code reachable from Parser.Parse/ParseString/ParseFromFs in the whole-program call graph is protected by a recover barrier on every call path in its own goroutine (process exits can never be protected); sites in the default arm of a type switch that enumerates all implementers of a oneof interface are discharged mechanically; (3) every recursive cycle of repository functions on the compile path is structural (descends the parse tree / protobuf tree by accessor steps), a verified counter recursion, or a verified visited-guard; (4) main2 returns 0 only when err == nil and every Exit code built in pkg/parse is a non-zero constant. A change that removes a barrier, adds an unprotected crash site, starts a walk on an unguarded goroutine, drops the flatten/collector guard or maps an error to status 0 is reported with the call chain.",
     note="Trusted: go/ssa, VTA call graph (over-approximate; artefact paths are excepted one by one with reasons in tables/exceptions.json), recover semantics. NOT decided: implicit runtime panics inside a protected region are irrelevant, but implicit panics (index, nil map, type assertion) outside every barrier, termination of the ANTLR interpreter and of the hand-written lexer loop, and stack depth on deeply nested input are out of reach.",
     design="DESIGN.md §3 C01")

prop("C06", True,
     technique="SSA error-flow discipline (R-FLOW) with failure-region dominance, no-model-on-error and names-the-file dataflow rules, who-may-call rule for blocking primitives",
     text="Decides structural necessary conditions of 'a failure anywhere fails the compile cleanly': for every error-returning call in the hand-written pipeline (pkg/parse parse.go/reader.go, pkg/loader, pkg/pbutil input side) the error is returned (possibly wrapped), or nil-tested with a failure branch that cannot rejoin the success path and ends in a non-nil error return, or stored in a field that is checked that way — a discarded or swallowed error is reported; every return of a (*sysl.Module,…,error) function in pkg/parse and pkg/loader carries a nil module unless its error operand is the nil constant (or delegates both results); every error returned by the per-file functions of parse.go is constructed from, or returned by a callee that received, the file name; no channel operation, blocking select, WaitGroup or Cond wait exists on the pipeline (errgroup.Wait is the only join, its pairing is decided under C05).",
     note="Trusted: go/ssa; errgroup.Wait returns the first error; a callee that is handed the file name names it in its errors (read once for GuessFileType, FromPB*, ReadHashBranch). Not decided: which error is reported when several files fail, timing, crash-freedom of the failure paths (R-GUARD under C01). Nine exceptions with reasons (operation-summary writes, root-marker and modules.yaml probes, configuration errors before any file is read).",
     design="DESIGN.md §3 C06")

prop("C19", True,
     technique="unordered-iteration taint analysis on SSA (loop-relative root classification, bottom-up effect summaries over the whole-program VTA call graph, tainted-result propagation) + who-may-call rule for clock/random/non-deterministic encoders",
     text="Decides a structural necessary condition of determinism: every `range` over a Go map (and every reflect MapKeys/MapRange, and every slice returned in map order) in non-generated generator code is classified; a loop is order-insensitive only if no effect reachable from its body — writes to writers/builders/files held outside the loop, appends to outer slices not sorted before use, string concatenation, last-writer-wins stores and map updates under non-injective keys, early returns of iteration-dependent values, and the same effects performed by callees (summaries with parameter substitution) on storage that lives outside the loop — depends on the visiting order. Binary protobuf encoding must use Deterministic: true; clock/random/pid reads in generator code are reported. A new unsorted map walk that feeds ordered output (the validated 'remove the sort of application names' mutation, and its siblings in every generator) is reported with the sink. Loops flagged on the pinned tree are each an exception with a reason, a reproduced known finding (Mermaid generators, database line-number collisions).",
     note="Trusted: go/ssa, VTA call graph; third-party encoders (encoding/json, protojson, prototext, ghodss/yaml) are deterministic; distinct map values do not alias; logging is not output; push/pop stack fields are balanced. Not decided: byte-identity of output (only the absence of order-dependent construction), arr.ai bundles; no unconfirmed loop is left (each flagged loop is repaired, a known finding, or a reasoned exception).",
     design="DESIGN.md §3 C19, §2 R-ORDER")

prop("C07", True,
     technique="R-ORDER taint analysis on the compile path, SSA dataflow for per-instance recogniser state, defer pairing, who-may-write rule for package variables, capture analysis of goroutine closures",
     text="Decides structural necessary conditions of deterministic and concurrency-safe compilation: no map iteration reachable from Parser.Parse or the pbutil encoders reaches an order-sensitive effect on the model or output (the validated 'post-process applications in map order' mutation is reported with its sink); the generated lexer/parser constructors are called only from the thread-safe wrappers, each of which replaces the Interpreter on every path with a simulator whose ATN, DFA table and prediction cache are created in that call and never read from a package variable; every thread-safe lexer created on the compile path has DeleteLexerState deferred on the same value immediately, the state table is the lock-free hashmap touched only by its per-lexer accessors; no repository package variable is written on the compile path outside init (one sync.Once-guarded exception); goroutine closures of the pipeline write only per-iteration variables or elements indexed by the loop variable; binary encoding uses Deterministic: true.",
     note="Trusted: go/ssa, VTA call graph, cornelk/hashmap is concurrency-safe, sync.Once, antlr constructors return fresh objects. Not decided: data-race freedom inside the ANTLR runtime or dependencies (no happens-before model), byte-identity of two runs.",
     design="DESIGN.md §3 C07")

prop("C08", True,
     technique="who-may-write rule on SourceContext.Start, SSA shape of the location constructor, provenance dataflow from each listener callback's own rule context, path rule for one location per (re)declaration, dominance of the per-file stamp",
     text="Thin claim — decides only structural necessary conditions of correct source locations: Start (and Line/Col reached through Start) is stored only inside the location constructor (found by role), where Start.Line = start token line − 1 and Start.Col = start token column; each of the 97 location sites in listener callbacks builds its location from the callback's own rule context or tokens of it (a location taken from a parent or child context is reported); every look-up-or-create callback whose creation is control-dependent on the look-up appends a location on every found path; both tree walks are dominated by an assignment of the listener's file stamp derived from the current file name. Catches a local 'correction' of a start column after construction (the plausible form of the validated PATCH mutation), wrong-context locations, a dropped re-declaration location, a stale file stamp.",
     note="Trusted: go/ssa; ANTLR tokens report 1-based lines / 0-based columns. NOT decided: that a position is the first character of the element or lies inside the file (numbers), end positions, arithmetic changes inside a getSrcCtxFor argument that still use the callback's own tokens. One known finding (re-declared event records one location; the repair changes three pinned goldens).",
     design="DESIGN.md §3 C08")

prop("C09", True,
     technique="regexp/syntax shape check of the folded JSON clean-up pattern, codec pairing and suffix tables folded from SSA constants, must-pass-through (dominance) rule for post-processing",
     text="Thin claim — decides structural necessary conditions of the round trip: the pattern applied to the JSON encoder's bytes (folded from the package initialiser and parsed with regexp/syntax) is anchored at a line start in multi-line mode, captures optional whitespace + one quoted key + `: `, removes exactly one following space and is replaced by $1, so it cannot alter text inside a string value; each reader suffix (.pb/.pb.json/.textpb) is decoded with the codec the corresponding writer marshals with and no suffix shadows another; none of the 17 importer formats except the compiled-model format owns an extension ending in a compiled-model suffix; every successful return of the tree-walking parse function is dominated by post-processing. Both validated mutations (un-anchored regex; .json dispatched like .pb.json) are reported.",
     note="Trusted: go/ssa constant folding, regexp/syntax; protojson escapes newlines inside strings; the three codecs invert their own Marshal. NOT decided: equality of the decoded model, well-formedness of JSON, idempotence of post-processing, determinism of the encoders (C19).",
     design="DESIGN.md §3 C09")

prop("C03", True,
     technique="set agreement between generated lexer actions and the token pump's bypass switch (SSA constants), shape check of the width function, per-branch pairing of stack operations and synthetic tokens",
     text="Thin claim — decides structural necessary conditions of layout independence in the hand-written indentation lexer: the set of token types whose generated action records a line break (10 today) is contained in the set the token pump returns unchanged while a line break is pending, and the whole-line comment test returns before (dominates) indentation synthesis; the function whose result is stored to lexerState.spaces is additive — starts at 0 and only ever adds constants selected by equality tests of the current character, with exactly {space:1, tab:4}; every Push on the indent stack queues one INDENT and every Pop one DEDENT in the same branch. The validated 'tab advances to the next multiple of 4' mutation is reported, as are dropped bypass tokens and unpaired stack operations.",
     note="Trusted: go/ssa; the generated lexer corresponds to SyslLexer.g4. NOT decided: that two layouts of one specification compile to equal models, acceptance preservation, anything about the ANTLR-side token rules.",
     design="DESIGN.md §3 C03")

prop("C04", True,
     technique="dominance/control-dependence rules on stores of fresh containers and elements into the shared module tree (SSA, access-path matching), listener identity dataflow",
     text="Decides structural necessary conditions of lossless merging: in the tree listener every store of a fresh (empty) map/slice/message into a container field of the shared module tree (Module.Apps, Application.Types/Endpoints/Views/Wrapped/Attrs/Mixin2, Type.Attrs, Endpoint.Attrs/Stmt/Param, AttrDefs) of an object that is not itself being constructed is control-dependent on that very location being nil (a call that receives the existing content counts as a merge); every insertion of a freshly allocated element into Apps/Types/Endpoints/Views is control-dependent on a failed look-up of the same map and key; the per-file loop walks every file with the one listener it was given and returns that listener's module; the type callback binds the listener's field map to the existing AttrDefs when the type already exists. The validated 're-initialise the type map on the third re-open' mutation and any unguarded re-initialisation are reported; kinds that are replaced on re-declaration by design are ten named exceptions.",
     note="Trusted: go/ssa; accessor calls (currentApp()) return the same object within a callback. NOT decided: independence from block order and import order, equality with the joined specification. The two rows formerly unconfirmed (collector statements, event attributes replaced on re-declaration) were reproduced and repaired in /repo.",
     design="DESIGN.md §3 C04")

prop("C02", True,
     technique="kind-table agreement: literals enumerated from the .g4 lexer rules (small tokenizer) against tables folded from SSA (map literals, switch constants, enum tables); type-switch coverage of the scope stack; bit-width rule on integer literal parsing",
     text="Thin claim — decides only table agreement between grammar and listener, necessary for 'nothing declared is altered': each of the 25 built-in type words of NativeDataTypes/E_NativeDataTypes is mapped to a primitive other than NO_Primitive; each of the 10 comparison-operator literals accepted for e_compare_ops is a key of the listener's operator table; each HTTP verb of the lexer is a REST method enum value (three are not: known findings); every statement-bearing scope kind the listener pushes has a case in every function that reads or appends .Stmt through the scope stack; integer literals are parsed with 64/native bits and never converted below 32 bits. Of the three validated mutations only '16-bit enum values' is visible to these rules.",
     note="Trusted: the generated lexer/parser correspond to the .g4 files; go/ssa constant folding. NOT decided: every value-level fact about the model (presence, optionality, nesting, order, names, REST path accumulation) — in particular 'optional lost inside a sequence' and 'else-branch loses statements' are invisible.",
     design="DESIGN.md §3 C02")

prop("C10", True,
     technique="operand-purity via bottom-up effect summaries of the table-registered operators, aliasing-append shapes on SSA, CFG pairing of scope-variable bind/delete/save/restore, construction-shape rules for set results, R-ORDER on pkg/eval",
     text="Decides structural necessary conditions of 'evaluation is pure': the 40 functions registered in the operator tables (folded from the map literals) have no store, map update, append or unknown-callee hand-off through a *sysl.Value/*sysl.Expr operand in their transitive effect summary, and write the caller's scope only under their scope-variable parameter; no append extends a slice loaded from a field of a parameter's object unless the result goes back to that field, and no append on a slice parameter has its result retained in another object; every scope-variable binding is deleted on all paths, and the previous binding is saved before and written back after — at the dispatch site for table-driven where/flatten, in the calling evaluator for transforms; the set-typed transform path appends through a function whose append is skipped when an equal element exists, and set union is built from Go-map keys; no map iteration in pkg/eval reaches ordered construction unsorted. All three validated items are reported (aliasing concat, set transform without de-dup, where leaking its scope variable); the two defects this found on the pinned tree were repaired.",
     note="Trusted: go/ssa, VTA call graph; fresh-result helpers (maps built from operand contents) do not alias operands (computed, optimistic fixpoint); reflection in goFuncs.go is outside the tables. NOT decided: agreement of any operator with the language semantics, termination of user programs.",
     design="DESIGN.md §3 C10")

prop("C13", True,
     technique="visited-guard verification on the visitor's recursive cycle (SCC + CFG), open/close pairing on success paths, statement-kind coverage and descent, R-GUARD/R-DEREF/R-ORDER from the sequence-diagram entry points",
     text="Decides structural necessary conditions: the recursive descent of the sequence visitor into a called endpoint is control-dependent on a membership test of the visited multiset, dominated by its increment and followed on every success path by its decrement (cycles end; repeated non-nested calls are expanded again — the validated 'never release the in-progress mark' mutation is reported); Indent/Unindent and Activated/deactivate pair on every success path, the deactivation closure clears its flag; every function that opens a block writes `end` on every success path; visitStatment has a case for every producible statement kind and hands on the nested statements of every block kind; participants are declared from one place; no explicit panic, unchecked by-name look-up, unguarded recursion or unsorted map walk reaching the text is reachable from GenerateSequenceDiag/DoConstructSequenceDiagrams.",
     note="Trusted: go/ssa, VTA call graph. NOT decided: that the arrows are exactly the reachable calls in source order ('mis-flag the last choice of an alternative' is invisible), activation balance across the whole emitted text. Known findings: format-string panics in FormatParser.",
     design="DESIGN.md §3 C13")
prop("C14", True,
     technique="visited-guard verification of the pass-through walk, statement-kind coverage/descent of ProcessCalls, guard-before-effect rule on the call handlers (exclude set), R-GUARD/R-DEREF/R-ORDER from GenerateIntegrations",
     text="Decides structural necessary conditions: the pass-through walk is guarded by an in-progress set with test, insertion and deferred removal (pass-through cycles terminate); ProcessCalls covers every producible statement kind and descends into every block kind; in each call handler AddCall and appends to the final application list are reached only after a negative test of the exclude set or a positive test of an admitted-applications set, and a handler invoked for every application of the model tests its source application (the validated 'draw excluded callers' mutation is reported); seed/caller/indirect passes iterate sorted name slices; no explicit panic, unchecked by-name look-up or unguarded recursion is reachable from GenerateIntegrations.",
     note="Trusted: go/ssa, VTA call graph. NOT decided: soundness/completeness of arrows against the model.",
     design="DESIGN.md §3 C14")
prop("C15", True,
     technique="kind coverage of the tuple drawer and dispatcher (oneof implementers from go/types), per-back-edge emit rule on the field loops, R-GUARD/R-DEREF/R-ORDER from the data-model generators",
     text="Thin claim — decides: the tuple drawer unwraps every producible collection-wrapper kind (set, sequence, list) before classifying a field; the dispatcher has a branch for relation, tuple, primitive alias and enum; every way round either field loop writes the field's line (one unconfirmed silent arm is a baseline row); field loops run over sorted names; no explicit panic / unchecked look-up / unsorted map walk reaching output from the generators.",
     note="Trusted: go/ssa, VTA. NOT decided: counts and uniqueness of classes and relationship lines (the validated 'second reference not counted' mutation is invisible), alias collisions.",
     design="DESIGN.md §3 C15")
prop("C16", True,
     technique="R-REC (identity recursion), R-ORDER, R-DEREF, R-GUARD from the database script generators",
     text="Decides structural necessary conditions only: the depth computation's self-call with unchanged arguments has no progress guard (known finding: cyclic or dangling foreign keys overflow the stack); emission order depends on map iteration through colliding line-number keys (known findings, reproduced); reference paths are indexed without length tests (one reproduced as a known finding, the rest argued safe as exceptions); the delta path sorts; no new explicit panic is reachable.",
     note="Trusted: go/ssa, VTA. NOT decided: dependency order of emitted tables, the effect of delta scripts (needs an interpreter for the DDL: another technique family); taint of the per-depth table lists is not tracked through the returned map, so removing the delta path's sort is not seen.",
     design="DESIGN.md §3 C16")
prop("C17", True,
     technique="aliasing-append shapes (R-ALIAS), statement/type kind coverage and descent (R-KINDS), recover-barrier check, R-GUARD/R-DEREF/R-REC/R-ORDER from relmod.Normalize",
     text="Decides structural necessary conditions: no append in pkg/arrai/relmod extends a slice parameter or a parameter's slice field and retains the result in another object (the defect behind 'siblings four levels deep share a position path', repaired on this tree); normalizeStatement covers every producible statement kind and descends into every block kind (the validated 'skip rows nested in for-each' mutation is reported); the type normaliser covers every producible type kind except unions; Normalize recovers converter panics into an error; appends under map iteration land in unordered-tagged relations; no unchecked look-up or unguarded recursion.",
     note="Trusted: go/ssa, VTA; arrai struct tags mark set-valued relations. NOT decided: row-for-row completeness.",
     design="DESIGN.md §3 C17")
prop("C20", True,
     technique="whole-program reachability of crash sites (R-GUARD with process-exit semantics for commands), unchecked by-name look-ups (R-DEREF), recursion classification (R-REC) from cmdRunner.Run and every command's Execute",
     text="Decides structural necessary conditions of 'every command ends with output or an error': from cmdRunner.Run and the Execute method of every cmdutils.Command implementer (16; lsp, repl and test-rig excluded) every explicit panic, must-helper call and non-constant regexp.MustCompile in repository code is under a recover barrier (a deferred recover that exits non-zero counts: an error exit is allowed), process exits carry a non-zero status, look-ups of model elements by name are nil/ok-tested before dereference and reference paths length-tested before indexing, and every recursive cycle is structural, guarded or accepted with a reason. Sites present on the pinned tree are each an exception (argued), a reproduced known finding, a repaired defect; any new site fails the check with its call chain.",
     note="Trusted: go/ssa, VTA (over-approximate). NOT decided: implicit runtime panics outside the modelled classes (arbitrary index arithmetic, nil maps, third-party type assertions — e.g. the nil schema dereference found and repaired by hand), loop termination, arr.ai bundles. No unconfirmed site is left.",
     design="DESIGN.md §3 C20")

prop("C11", True,
     technique="R-ORDER/R-GUARD/R-DEREF/R-REC from the Load methods of the Go importers, sink-type rule for the text writer, built-in list agreement with the lexer's type words",
     text="Thin claim, Go importers only — decides: no new map iteration reachable from the importers' Load/LoadFile methods and the Sysl text writer reaches ordered output unsorted (loops flagged on the pinned tree were each reproduced and repaired in /repo, or are reasoned exceptions); explicit panics, process exits, unchecked look-ups and name-following recursion reachable from those entries are classified (known finding: a self-referential XSD complex type overflows the stack); the text writer is constructed over a *bytes.Buffer at every site, so its exit-on-write-error cannot fire; every NativeDataTypes word of the lexer is prefixed by an entry of syslutil.BuiltInTypes, which the type-name escaping rule consults.",
     note="Trusted: go/ssa, VTA. NOT decided: that importer output compiles as Sysl or is complete (the validated 'required beyond two entries' mutation is invisible); the bundled arr.ai importers (OpenAPI 3 new path, SQL, protobuf) are not Go and are not analysed; a sort removed downstream of an excepted loop is not seen.",
     design="DESIGN.md §3 C11")
prop("C12", True,
     technique="R-ORDER from the exporter entry points, kind-table agreement (mapper kind strings and primitive names vs schema-builder cases; primitive enum vs Swagger primitive table), who-may-call rule for the reference resolver, R-REC/R-DEREF/R-GUARD",
     text="Decides structural necessary conditions: ordered arrays (parameters, required, enum) are not filled from unordered iteration (the three loops that did so on the pinned tree were repaired); every kind string the simplified type mapper can produce and every lower-cased primitive name has a case in the OpenAPI 3 schema builder, and every primitive enum value a key in the Swagger primitive table (nine kinds outside the exportable subset are baseline rows); mapper and schema builders recurse structurally, and AppMapper.ResolveTypes — which would make the type tree cyclic — is not reachable from any command or exporter entry; reference splits are indexed only after length checks or are reasoned exceptions.",
     note="Trusted: go/ssa, VTA; kin-openapi/go-openapi marshal maps with sorted keys. NOT decided: schema content (required-ness, items of optional arrays — both validated mutations are invisible), validity of the document, re-import.",
     design="DESIGN.md §3 C12")

for i in range(1, 21):
    pid = "C%02d" % i
    if pid not in P:
        prop(pid, False, na="check under construction in this round (design in DESIGN.md §3 %s); not claimed until its rules run green with floors and canaries" % pid)

# Additions made in the build round (rules added or sharpened while triaging
# reports and seeded changes; see DESIGN.md §10.2–§10.5). Appended to the claim.
EXTRA = {
 "C01": ("Also decides: every mutex lock (and every token put into a field-held semaphore channel) on the compile path is released on every path to a return, and is not held across a call that can reach another acquisition of it (termination of the import walk). The visited guard of the import walk is recognised when the test-and-insert lives in a helper of the file table (a test-and-set with a constant flag); a deferred recover counts as a barrier only if it assigns the guarded function's named error result (SILENT-GUARD otherwise).",
         "The two linter Fatal sites are now reasoned exceptions (reachable only if one file is walked twice, which C05 excludes)."),
 "C03": ("The bypass set is read through a bool predicate helper applied to the token type when the token pump uses one. LAYOUT-BLIND: tokens in the bypass set never reach the indentation bookkeeping.", ""),
 "C04": ("Also decides: a possibly-nil value is stored into a member of a re-openable declaration (Application, Endpoint, Type_Relation, Type_Tuple, …) only when the value is non-nil or the location is nil/empty (KEEP-ON-REOPEN); a callback that finds no entry for a keyed declaration creates it or carries on instead of returning (NO-DROP-ON-ABSENT). Two re-open defects reported by INIT-IF-ABSENT (event attributes, collector statements) were repaired in /repo.", ""),
 "C05": ("Also decides: blocking resources of the collector are released on all paths and not held across a nested collector call (RESOURCE-PAIR, HELD-ACROSS-NESTING); every parser constructed where the user's parse.Settings are in reach (parameter or receiver field) is given them before use (SETTINGS-APPLIED: the depth limit is not ignored on any load path); the collector appends to no slice of the shared file table (ARRIVAL-ORDER: file order comes from the flatten walk, never from arrival); a non-recursive flatten that keeps a first-in-first-out work list is reported as breadth-first. IMPORTS-IN-TEXT-ORDER: the list of a file's imports kept for the flatten walk is the pre-parse's list in text order (no sort, no de-duplication helper in between). FLATTEN-RESULT-KEPT: the flattened list reaches the parser without being re-ordered. The claim rules accept a claim made by a helper method of the file table.", ""),
 "C06": ("Also decides: no decode option used in pkg/pbutil switches DiscardUnknown on (STRICT-DECODE: a well-formed JSON/text document of another schema is refused); semaphore tokens and locks on the pipeline are released on all paths and not held across nested acquisition. NO-HANG leaves field-held semaphores to those rules and reports only synchronisation constructs they cannot decide. Parser guard structure (the C01 rule) is evaluated here too. DECODE path: a per-file error kept in a named result struct may be tested in another function of the package; a returned error names the file also when it comes from a package callee all of whose error returns name it.", ""),
 "C07": ("Also decides: the import collector, which runs concurrently once per import, appends to no slice of the shared file table (ARRIVAL-ORDER). R-ORDER attributes the effects of closures and bound methods created in a loop body to that iteration and accepts a sort by comparison function only when it orders the elements themselves. SHARED-GLOBAL also covers mutating methods of sync / sync/atomic containers held in package variables (process-wide memo tables). The rules on the file table shared by the parallel import fetchers (CLAIM-BEFORE-READ, CLAIM-ATOMIC, LOCKED-ACCESS, LOCK-PAIR, UNLOCKED-USER, PUBLICATION) are evaluated under C07 as well.", ""),
 "C08": ("Also decides: the bytes returned by the file reader reach the text kept for the lexer and every repository consumer unaltered — no trim, replace or normalisation between read and use (TEXT-INTACT), since every position is counted in that text.", ""),
 "C09": ("Also decides: the bytes written by the JSON/text/binary writers are the encoder's result passed through nothing but the verified anchored clean-up (ENCODED-BYTES-INTACT); file content reaches the decoders unaltered (CONTENT-INTACT: no CR/LF normalisation of binary models); every output file is opened with Create or with O_TRUNC/O_APPEND (WRITE-TRUNCATES). DECODE-LIMITS: no size or depth limit lower than the encoder's is set on the decoders.", ""),
 "C10": ("Also decides: whatever slice is installed as the element list of a set value is built through the de-duplicating appender on every return of the function that builds it (keyed by type, not by name); a value computed from evaluated operands is never kept in evaluator state under a key that does not depend on them (EVAL-STATE: no stale memoisation).", ""),
 "C11": ("Generic generator rules also evaluated: LOST-UPDATE (a field written on a copy of a map/slice element that is never read or stored back) and MEMO-KEY (a look-up-or-compute table whose remembered value depends on a parameter its key does not depend on). Nine nondeterministic walks of the legacy Swagger importer were reproduced and repaired in /repo.", ""),
 "C12": ("LOST-UPDATE and MEMO-KEY are evaluated too. Four unordered walks with colliding entries were reproduced and repaired in /repo.", ""),
 "C13": ("The visited-guard rule requires the release to undo what the membership test reads (presence test → delete/Remove or the counter idiom; value test → zero store). The descent rule requires children that sit in an intermediate container to be handed on inside the loop over it. LOST-UPDATE and MEMO-KEY are evaluated too.", ""),
 "C14": ("The descent rule requires the statements of every alt choice to be handed on inside the loop over the choices (or accumulated), not only the last one. LOST-UPDATE and MEMO-KEY are evaluated too.", ""),
 "C15": ("Also decides LOST-UPDATE: a relationship counter (or any field) written on a copy of a map element must be stored back or read.", ""),
 "C16": ("Also decides DEPTH-IS-MAX: in the depth computation, a depth derived from a referenced table replaces the running depth only after being compared with it. RECORD-ON-ALL-PATHS: every column writer records the column's type for later foreign keys on every path. FRESH-BUFFER: between two calls that return the content of the script buffer held in the view, the buffer is reset or the view newly constructed, on every path including the loop back edge.", "Dependency order is still not decided in general; DEPTH-IS-MAX is one necessary condition of it."),
 "C17": ("Also decides MEMO-KEY (no memo table whose key omits a parameter the remembered value depends on) and LOST-UPDATE. DEAD-ERROR on the transform command: the error of building the relational model is not bound to a variable that is overwritten before any test. REFUSE-WITH-ERROR now requires the deferred recover of Normalize to assign the function's named error result. The descent and recursion rules follow selector helpers (a function returning the nested statements of every block kind).", ""),
 "C18": ("Also decides LOCAL-IMPORT-MARK: the test 'will the reader take this local import for a remote resource' is applied to the joined, cleaned path the reader receives, not to the path as written. RAW-FS-USE: in the loader, the unconfined filesystem is handed to anything but the confining constructor only on the branch where no root was given. DEPENDENCY-PATH: a path built by repository code and handed to a file-touching API of a dependency is computed from the confined filesystem's root.", ""),
 "C19": ("Effects of closures and bound methods created in a loop body (call-backs handed to walkers) are attributed to the iteration; a sort by comparison function removes map order only if it orders the elements themselves. Twenty flagged loops were reproduced as nondeterministic on specific inputs and repaired in /repo; the rest are reasoned exceptions or reproduced known findings; no unconfirmed row is left. R-ORDER examines the arms of a loop statement that leave the loop (return inside the body), reports two in-loop returns with different constant results, and skips loops guarded by len(m)==1. FRESH-BUFFER is evaluated for every generator that returns the content of a buffer kept in a view object.", ""),
 "C20": ("R-DEREF also examines constant-bound slicing of strings taken from the model and pointer/interface results dereferenced before the error returned with them is tested. All formerly unconfirmed sites were triaged: 13 reproduced (10 repaired in /repo, 3 known findings), 26 argued safe with the invariant cited. DEAD-ERROR over all command paths; SILENT-GUARD: a deferred recover that stops a panic without turning it into the function's error result is not a barrier. R-DEREF also reports a found-flag of a repository look-up that is ignored while the value is used.", ""),
}
for pid, (t, n) in EXTRA.items():
    if t:
        P[pid]["text"] += " " + t
    if n:
        P[pid]["note"] += " " + n

def main():
    checks, na = [], []
    for pid in sorted(P):
        d = P[pid]
        if not d["built"]:
            na.append({"property_id": pid, "reason": d["na"]})
            continue
        checks.append({
            "property_id": pid,
            "quick_cmd": "./run.sh %s quick" % pid,
            "thorough_cmd": "./run.sh %s thorough" % pid,
            "evidence_file": "/verif/evidence/%s.json" % pid,
            "replay_cmd_template": "./run.sh replay {path}",
            "engine": "syslcheck",
            "level_claimed": {"category": "other", "text": d["text"], "design_ref": d["design"]},
            "level_note": d["note"],
            "technique": d["technique"],
        })
    m = {
        "version": 1,
        "setup_cmd": "./setup.sh",
        "hooks": {
            "guard": "verif",
            "enable": "none needed: static analysis reads the source; no instrumentation is compiled in",
            "baseline_off_cmd": json.load(open("/root/.vp/BASELINE.json"))["cmd"],
            "source_commits": [],
            "add_only": True,
        },
        "engines": [{
            "name": "syslcheck",
            "path": "/verif/checker",
            "serves_properties": [c["property_id"] for c in checks],
            "kind_free_text": "repository-specific static analyser (go/packages + go/ssa + VTA call graph, x/tools v0.29.0): rule engines over typed syntax, SSA dominance/dataflow and the whole-program call graph; obligations keyed by rule+function+construct and classified against committed tables (exceptions with reasons, known findings, floors)",
        }],
        "checks": checks,
        "not_applicable": na,
        "notes": "All checks are static: nothing in /repo is executed. Every check loads /repo's current working tree on every run and fails (exit 1) when the tree does not type-check, an anchor cannot be resolved, an obligation is undecided, or the checker panics. Tiers: quick analyses the tree as built for the host (GOOS=linux); thorough repeats the same rules on the tree as built for windows and darwin and merges every obligation that is new or worse there, audits the committed tables for stale rows, and runs the sensitivity corpus (each committed mutant under /verif/mutants/<id>/ is applied as an in-memory overlay in a child process and must be reported; results are recorded in the evidence and printed, a missed mutant does not change the verdict on /repo).",
    }
    with open(os.path.join(HERE, "MANIFEST.json"), "w") as f:
        json.dump(m, f, indent=1)
        f.write("\n")

if __name__ == "__main__":
    main()
