#!/bin/bash
# usage: ./run.sh <property-id>|all <quick|thorough>   |   ./run.sh replay <file>
set -u
cd "$(dirname "$0")"
export GOFLAGS=-mod=mod GOPROXY=off GOSUMDB=off GOTOOLCHAIN=local
unset GOWORK
./setup.sh >/dev/null || { echo "VIOLATION property=${1:-?} replay=- (checker build failed)"; exit 1; }
if [ "${1:-}" = "replay" ]; then
  shift
  exec ./bin/syslcheck replay "$@"
fi
prop="${1:?property id}"
tier="${2:-quick}"
exec ./bin/syslcheck -props "$prop" -tier "$tier"
